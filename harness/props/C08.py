"""C08 — failed saves leave no loadable partial object; write-once never overwrites.
Theorems: coq/props/C08_Properties.v (for every fault index k, both stores, both modes, every prior
content of the target).  Tie: fault ENUMERATION on the real serializer (harness/impl_C08.py): the trace
of primitive effects of a successful save is recorded by monkey-patching from this process; the save is
re-run with an exception injected before every event of the trace (plus "natural" failures: an attribute
whose serialisation raises, at every position); after each run the target is classified
(absent | unreadable | old | new | partial), the sibling paths and the temporary directory are
snapshotted, and both are compared with `run k` of the Coq model of the protocol.
The oracle is the classification itself: `partial` = violation; a modified pre-existing target in
mode 'w' = violation; any other path changed / temp left behind = violation.
Round 5: every position is faulted ONE-SHOT and PERSISTENTLY (every later call at the same site fails too), before
the event and -- for the zarr mutators -- inside it (the store's own key operations), with OSError(errno) for the
usual errnos, RuntimeError, MemoryError; a fault that the library overcomes (complete new object in place) is
compared with the uninterrupted run of the model (coq/model/C08_Model_Retry.v: retry_run, C08_retry_absorbs,
C08_retry_persistent_still_fails, C08_swallowing_retry_refuted)."""
from __future__ import annotations

import json
import os
import shutil
import subprocess
import sys
import tempfile

from ..common import NPROC, VERIF, Ctx, cnat

PRE = ("From Coq Require Import String Ascii.\nFrom QV.lib Require Import Prelude.\n"
       "From QV.model Require Import C08_Model C08_Model_Ext C08_Model_Tree.\n")

KIND_NAME = {0: "check", 1: "remove", 2: "mktemp", 3: "mkdir", 4: "w", 5: "zopen", 6: "z", 7: "zclose", 8: "rename"}
CLASS_CODE = {"absent": 0, "unreadable": 1, "old": 2, "new": 3, "partial": 4}
CLASS_NAME = {v: k for k, v in CLASS_CODE.items()}

# (mode, pre-existing target); the first five are enumerated over every fault position, the
# write-once ones end at the existence check (a single run each)
FULL_CONFIGS = [("w", "none"), ("o", "none"), ("o", "oldzip"), ("o", "olddir"), ("o", "other")]
ONCE_CONFIGS = [("w", "oldzip"), ("w", "olddir"), ("w", "other")]
BAD_KINDS = ["unpicklable", "nd_object", "list_with_unpicklable", "dict_with_unpicklable", "nested_with_unpicklable"]
OLD_N, OLD_NZ = 6, 3      # size of the earlier save in the model (its items are disjoint from the new ones)

# ---- round 3: unusual pre-existing targets (mode 'w' and 'o', both stores, every fault position)
#   emptydir / foreigndir / foreignzip : a directory / archive that is not a store (load fails)
#   symfile / symdir / dangling        : the target is a symbolic link (to a file, to a directory store, to nothing)
#   immfile / immdir                   : a read-only target (chattr +i: also root cannot remove it)
#   noparent                           : the target lies in a directory that does not exist
ODD_PRES = ["emptydir", "foreigndir", "foreignzip", "symfile", "symdir", "dangling", "immfile", "immdir", "noparent"]
PRE_ABSENT = ("none", "dangling", "noparent")       # os.path.exists(target) is False
SMALL_SPEC = [["a0_int", "int", 5, None], ["a1_nd_f8", "nd_f8", 4, None]]
STORE_ARGS = {"auto": "AAuto", "zip": "AZip", "dir": "ADir", "tar": "AOther"}
NAME_POOL = ["obj", "obj.zip", "obj.ZIP", "obj.zip.bak", "my.obj", "my.obj.zip", "obj/", "obj.zip/", ".zip", ".hidden",
             "a b", "sub/obj", "sub/obj.zip", "./obj", "x/../obj.zip", "obj.", "obj.zipx", "obj.Zip", "x/obj",
             "x/obj.zip", "x/my.v2", "..obj", "obj..zip", "zip", "objzip", "x/.zip", "x/../my.obj", "./x/obj.ZIP"]


def outcome_code(out):
    return {"done": 0, "exists": 1}.get(out, 3)


# ------------------------------------------------------------------------------------------ cases
def gen_spec(rng, n_attrs, depth=0):
    from_kinds = ["int", "float", "str", "bool", "none", "path", "npscalar", "nd_f8", "nd_i4", "nd_empty", "nd_big",
                  "tensor", "list_num", "list_mixed", "tuple", "dict", "dict_nested", "set", "nested", "complex",
                  "bytes", "plain", "rng", "logger"]
    if depth:
        from_kinds = [k for k in from_kinds if k not in ("nested", "dict_nested")]
    spec = []
    for i in range(n_attrs):
        k = rng.choice(from_kinds)
        sub = gen_spec(rng, rng.randint(1, 3), depth + 1) if k == "nested" else None
        spec.append(["a%d_%s" % (i, k), k, rng.randrange(1 << 16), sub])
    return spec


# ---- round 4: the directory tree above the target.  chain = the directories between the run directory and the
# target (outermost first), the first `exist` of them are there before the save, each existing one holds `extras`
# (nothing: the directory is EMPTY apart from the next element of the chain / the target)
TREE_CLASSES = ["parent-exists", "parent-missing/grandparent-empty", "parent-missing/grandparent-nonempty",
                "two-or-more-missing", "nothing-exists"]
EXTRA_KINDS = ["file", "hidden", "emptydir", "fulldir"]
DIR_NAMES = ["results", "run1", "out", "data.v2", "a b", ".cache", "nested", "2026-09", "exp", "r"]


def gen_layout(rng, cls):
    if cls == "parent-exists":
        depth = rng.randint(1, 4)
        exist = depth
    elif cls.startswith("parent-missing/"):
        depth = rng.randint(2, 4)
        exist = depth - 1
    elif cls == "two-or-more-missing":
        depth = rng.randint(3, 5)
        exist = rng.randint(1, depth - 2)
    else:
        depth = rng.randint(1, 4)
        exist = 0
    names = rng.sample(DIR_NAMES, depth)
    chain = ["%s_%d" % (nm, i) for i, nm in enumerate(names)]
    extras = []
    for i in range(exist):
        ex = rng.sample(EXTRA_KINDS, rng.choice([0, 0, 1, 1, 2]))
        if i == exist - 1:
            if cls.endswith("grandparent-empty"):
                ex = []
            elif cls.endswith("grandparent-nonempty") and not ex:
                ex = [rng.choice(EXTRA_KINDS)]
            if exist == depth and rng.random() < 0.4:
                ex = ex + ["bak"]
        extras.append(ex)
    return {"chain": chain, "exist": exist, "extras": extras, "class": cls}


def layout_codes(lay):
    """per directory of the chain: 0 missing | 1 there and empty | 2 there, holding other things (the model's view)"""
    return [0 if i >= lay["exist"] else (2 if lay["extras"][i] else 1) for i in range(len(lay["chain"]))]


def tree_jobs(ctx, r):
    jobs = []
    cfgs = [(s, m) for s in ("dir", "zip") for m in ("w", "o")]
    rounds = ctx.budget(1, 6)
    i = 0
    for rd in range(rounds):
        for cls in TREE_CLASSES:
            for (s, m) in cfgs:
                lay = gen_layout(r, cls)
                pre = "none"
                if lay["exist"] == len(lay["chain"]):
                    pre = ["none", "olddir", "oldzip", "other", "none"][(i + rd) % 5]
                natural = (i + rd) % 3 == 2
                i += 1
                if natural:
                    n_attrs = r.randint(2, 4)
                    spec = gen_spec(r, n_attrs)
                    pos = r.randint(0, n_attrs)
                    bad = BAD_KINDS[(i + pos) % len(BAD_KINDS)]
                    sp = spec[:pos] + [["bad%d_%s" % (pos, bad), bad, 0, None]] + spec[pos:]
                    jobs.append({"kind": "natural", "spec": sp, "old_spec": gen_spec(r, 2), "store": s, "mode": m,
                                 "pre": pre, "bad_pos": pos, "bad_kind": bad, "graph": 7000 + i, "path_form": "exact",
                                 "layout": lay})
                else:
                    spec = SMALL_SPEC if ctx.quick else gen_spec(r, r.randint(1, 3))
                    jobs.append({"kind": "enum", "spec": spec, "old_spec": gen_spec(r, 2), "store": s, "mode": m,
                                 "pre": pre, "phase": r.randrange(6), "graph": 7000 + i,
                                 "path_form": ["exact", "auto", "pathlib"][i % 3], "layout": lay})
    return jobs


def corpus_jobs():
    p = VERIF / "corpus" / "C08" / "corpus.json"
    return json.loads(p.read_text()) if p.exists() else []


def gen_jobs(ctx: Ctx):
    r = ctx.rng
    jobs = []
    # corpus first: the witnesses of the two refutation lemmas, replayed on the implementation
    for c in corpus_jobs():
        jobs.append(dict(c))
    n_graphs = ctx.budget(10, 120)
    per_graph_full = ctx.budget(4, 10)
    rot = 0
    for g in range(n_graphs):
        n_attrs = [1, 2, 3, 4, 5, 6, 7, 9][g % 8] if ctx.quick else r.randint(1, 12)
        spec = gen_spec(r, n_attrs)
        old_spec = gen_spec(r, r.randint(1, 3))
        all_full = [(s, m, p) for s in ("zip", "dir") for (m, p) in FULL_CONFIGS]
        chosen = [all_full[(rot + i) % len(all_full)] for i in range(per_graph_full)]
        rot += 3                           # coprime to the 10 configurations: every one is reached
        for (s, m, p) in chosen:
            jobs.append({"kind": "enum", "spec": spec, "old_spec": old_spec, "store": s, "mode": m, "pre": p,
                         "phase": g, "graph": g})
        for s in ("zip", "dir"):
            for (m, p) in (ONCE_CONFIGS if (not ctx.quick or g % 2 == 0) else ONCE_CONFIGS[g % 3:g % 3 + 1]):
                jobs.append({"kind": "enum", "spec": spec, "old_spec": old_spec, "store": s, "mode": m, "pre": p,
                             "phase": g, "graph": g})
    # natural failures: an attribute whose serialisation raises, at every attribute position
    n_nat = ctx.budget(5, 40)
    for g in range(n_nat):
        n_attrs = r.randint(2, 6)
        spec = gen_spec(r, n_attrs)
        old_spec = gen_spec(r, 2)
        for pos in range(n_attrs + 1):
            bad = BAD_KINDS[(g + pos) % len(BAD_KINDS)]
            sp = spec[:pos] + [["bad%d_%s" % (pos, bad), bad, 0, None]] + spec[pos:]
            s = ("zip", "dir")[(g + pos) % 2]
            m, p = FULL_CONFIGS[(g * 3 + pos) % len(FULL_CONFIGS)]
            jobs.append({"kind": "natural", "spec": sp, "old_spec": old_spec, "store": s, "mode": m, "pre": p,
                         "bad_pos": pos, "bad_kind": bad, "graph": 1000 + g})
            if not ctx.quick or pos % 2 == 0:
                jobs.append({"kind": "natural", "spec": sp, "old_spec": old_spec, "store": ("dir", "zip")[(g + pos) % 2],
                             "mode": m, "pre": p, "bad_pos": pos, "bad_kind": bad, "graph": 1000 + g})
    # how the caller names the target (the property's target is the path save() resolves to).
    # Every zip job against an existing target also runs with the suffix-less name: the existence check
    # and the write must agree on the RESOLVED path (write-once / overwrite decided on the wrong name).
    extra = []
    seen_cfg = set()
    for j in jobs:
        if j.get("store") == "zip" and j["pre"] != "none" and "path_form" not in j:
            cfg = (j["kind"], j["mode"], j["pre"])
            if ctx.quick and cfg in seen_cfg:
                continue
            seen_cfg.add(cfg)
            extra.append(dict(j, path_form="noext"))
    jobs += extra
    forms = ["exact", "noext", "auto", "pathlib"]
    for i, j in enumerate(jobs):
        if "path_form" not in j:
            f = forms[i % 4]
            if f == "noext" and j["store"] != "zip":
                f = "pathlib"
            j["path_form"] = f
    # ---- round 3 ----------------------------------------------------------------------------------
    # unusual pre-existing targets: every fault position, small object
    odd = [(s, m, p) for p in ODD_PRES for s in ("zip", "dir") for m in ("w", "o")]
    if ctx.quick:
        # write-once onto an odd target stops at the existence check (cheap): all of them; overwrite: rotate
        off = r.randrange(2)
        odd = [c for i, c in enumerate(odd) if c[1] == "w" or c[2] in ("symdir", "immdir", "noparent") or (i // 2 + off) % 2 == 0]
    for (s_, m, p) in odd:
        jobs.append({"kind": "enum", "spec": SMALL_SPEC, "old_spec": None, "store": s_, "mode": m, "pre": p,
                     "phase": r.randrange(6), "graph": 2000, "path_form": "exact", "imm_root": str(ctx.dir / "imm")})
    # faults inside the clean-up handlers, interrupted removal of an old directory target
    n_h = ctx.budget(4, 16)
    hcfg = [("zip", "o", "oldzip"), ("dir", "o", "olddir"), ("zip", "w", "none"), ("dir", "w", "none"),
            ("zip", "o", "olddir"), ("dir", "o", "oldzip"), ("zip", "o", "other"), ("dir", "o", "none")]
    for g in range(n_h):
        s_, m, p = hcfg[g % len(hcfg)]
        jobs.append({"kind": "hfault", "spec": gen_spec(r, r.randint(1, 3)), "old_spec": gen_spec(r, 2), "store": s_,
                     "mode": m, "pre": p, "phase": g, "graph": 3000 + g, "path_form": "exact"})
    for g in range(ctx.budget(2, 8)):
        jobs.append({"kind": "rmfault", "spec": SMALL_SPEC, "old_spec": gen_spec(r, r.randint(2, 5)),
                     "store": ("dir", "zip")[g % 2], "mode": "o", "pre": "olddir", "graph": 4000 + g,
                     "path_form": "exact", "n_positions": ctx.budget(5, 12)})
    jobs.append({"kind": "loadclass", "spec": [], "store": "dir", "mode": "w", "pre": "none", "graph": 5000,
                 "path_form": "exact"})
    # how the caller SPELLS the target: names x store argument x str/Path x mode x what is at the resolved name
    # x a decoy at the name as given
    names = list(NAME_POOL)
    pieces = ["obj", "run", "v1", ".", "zip", "ZIP", ".zip", "_", " ", "-", "..", "a.b"]
    while len(names) < ctx.budget(40, 160):
        nm = "".join(r.choice(pieces) for _ in range(r.randint(1, 4)))
        nm = r.choice(["", "", "x/", "./", "sub/"]) + nm + r.choice(["", "", "", "/"])
        names.append(nm)
    seen = set()
    for i, nm in enumerate(names):
        norm = os.path.normpath(nm)
        if nm in seen or norm in (".", "..", "x", "sub", "sibdir", "sibling.txt") or norm.startswith("..") \
                or os.path.isabs(nm) or norm.split(os.sep)[0] in ("sibdir", "sibling.txt"):
            continue
        seen.add(nm)
        combos = [(a, ap) for a in ("auto", "zip", "dir") for ap in (False, True)]
        if not ctx.quick:
            chosen = combos + [("tar", False)]
        else:
            chosen = [combos[(i + t) % len(combos)] for t in (0, 3)] + ([("tar", bool(i % 2))] if i % 9 == 0 else [])
        for t, (a, ap) in enumerate(chosen):
            m, p = [("w", "none"), ("w", "other"), ("o", "oldzip"), ("o", "none"), ("w", "olddir"), ("o", "other")][(i + 2 * t) % 6]
            if nm.endswith("/") and not ap and p in ("other", "oldzip"):
                p = "olddir"      # "<file>/" is not the file for the OS; the location of a name is its abspath here
            jobs.append({"kind": "names", "spec": SMALL_SPEC[:1 + (i + t) % 2], "old_spec": None, "mode": m, "pre": p,
                         "phase": i + t, "graph": 6000 + i, "path_form": "exact", "n_positions": ctx.budget(3, 6),
                         "naming": {"raw": nm, "store_arg": a, "as_path": ap, "decoy": [None, "file", "dir"][(i + t) % 3]}})
    jobs += tree_jobs(ctx, r)
    for i, j in enumerate(jobs):
        j["id"] = i
    return jobs


def name_codes(s):
    return "[" + "; ".join("%d%%Z" % b for b in s.encode()) + "]"


def resolve_names(ctx: Ctx, jobs):
    """run the MODEL's path resolution for every names job: the resolved name is the target the harness
    watches and prepares; (store, verdict) decide what the scenario expects"""
    import pathlib
    nj = [j for j in jobs if j["kind"] == "names"]
    for j in nj:
        nm = j["naming"]
        nm["arg_str"] = str(pathlib.Path(nm["raw"])) if nm["as_path"] else nm["raw"]     # path = str(path)
    vals = ctx.coq_eval("resolve", PRE, ["resolve_obs %s %s" % (STORE_ARGS[j["naming"]["store_arg"]],
                                                               name_codes(j["naming"]["arg_str"])) for j in nj], shard=80)
    for j, (st, codes, verdict) in zip(nj, vals):
        nm = j["naming"]
        nm["resolved"] = bytes(codes).decode()
        nm["verdict"] = verdict
        j["valid"] = verdict in (1, 2)
        j["store"] = "zip" if verdict == 1 else "dir"
        ctx.dist("names/store_arg=%s" % nm["store_arg"])
        ctx.dist("names/verdict=%s" % {1: "zip", 2: "dir", 3: "unknown-store", 4: "dir-store-with-file-like-name"}[verdict])
        ctx.dist("names/%s" % ("suffix-appended" if nm["resolved"] != nm["arg_str"] else "name-kept"))


def job_cost(j):
    def size(spec):
        return sum(3 + (size(s[3]) if s[3] else 0) + (4 if s[1] in ("tensor", "list_mixed", "dict", "dict_nested") else 0)
                   for s in spec)
    n = size(j["spec"]) + 6
    if j["kind"] == "natural" or (j["mode"] == "w" and j["pre"] not in PRE_ABSENT):
        return 3
    if j["kind"] == "names":
        return 3 + n * j.get("n_positions", 4) // 8
    if j["kind"] in ("rmfault", "loadclass"):
        return 8
    if j["kind"] == "hfault":
        return n * n // 4 + 5
    return n * n // 8 + 5


# ------------------------------------------------------------------------------------------ workers
def run_workers(ctx: Ctx, jobs):
    nw = max(1, min(NPROC - 2, 14, len(jobs)))
    shm = "/dev/shm" if os.path.isdir("/dev/shm") and os.access("/dev/shm", os.W_OK) else None
    scratch = tempfile.mkdtemp(prefix="verif_c08_", dir=shm or str(ctx.dir))
    buckets = [[] for _ in range(nw)]
    loads = [0] * nw
    for j in sorted(jobs, key=job_cost, reverse=True):
        i = loads.index(min(loads))
        buckets[i].append(j)
        loads[i] += job_cost(j)
    procs = []
    env = dict(os.environ)
    env.setdefault("OMP_NUM_THREADS", "1")
    env["OMP_NUM_THREADS"] = "1"
    try:
        for i, b in enumerate(buckets):
            jf, of = ctx.dir / ("jobs_%02d.json" % i), ctx.dir / ("out_%02d.json" % i)
            jf.write_text(json.dumps(b))
            if of.exists():
                of.unlink()
            wdir = os.path.join(scratch, "w%02d" % i)
            os.makedirs(wdir)
            p = subprocess.Popen([sys.executable, "-W", "ignore", "-m", "harness.impl_C08", str(jf), str(of), wdir],
                                 cwd=str(VERIF), env=env, stdout=subprocess.PIPE, stderr=subprocess.STDOUT, text=True)
            procs.append((p, of))
        results = {}
        for p, of in procs:
            out, _ = p.communicate(timeout=ctx.budget(600, 3000))
            if p.returncode != 0 or not of.exists():
                raise RuntimeError("C08 worker failed (rc=%s):\n%s" % (p.returncode, (out or "")[-2000:]))
            for r in json.loads(of.read_text()):
                results[r["id"]] = r
        return results
    finally:
        for p, _ in procs:
            if p.poll() is None:
                p.kill()
        shutil.rmtree(scratch, ignore_errors=True)


# ------------------------------------------------------------------------------------------ model side
def pre_entry(pre):
    olddir = "(Dir (zseq 1000 %s))" % cnat(OLD_N)
    return {"none": "Absent", "oldzip": "(Zip true (zseq 1500 %s))" % cnat(OLD_NZ),
            "olddir": olddir, "other": "(Other 7)",
            "emptydir": "(Dir [])", "foreigndir": "(Dir [77%Z])", "foreignzip": "(Zip true [88%Z])",
            "symfile": "(Other 8)", "symdir": olddir, "dangling": "Absent", "immfile": "(Other 7)",
            "immdir": olddir, "noparent": "Absent"}[pre]


def eff_pre(job):
    """what the target holds as far as the model is concerned (a names job whose resolved target lies in a
    directory that does not exist has no pre-existing target)"""
    if (job["kind"] == "names" or job.get("layout")) and parent_missing(job):
        return "none"
    return job["pre"]


def target_rel(job):
    if job["kind"] == "names":
        return os.path.normpath(job["naming"]["resolved"])
    base = "obj.zip" if job["store"] == "zip" else "obj"
    if job.get("layout"):
        return os.path.join(*(job["layout"]["chain"] + [base]))
    return os.path.join("nodir", "sub", base) if job["pre"] == "noparent" else base


def parent_missing(job):
    if job.get("layout"):
        return job["layout"]["exist"] < len(job["layout"]["chain"])
    d = os.path.dirname(target_rel(job))
    return d not in ("", "x")                  # the run directory holds the directories x/ and sibdir/ only


def natural_failure(job):
    """a primitive of the protocol that fails BY ITSELF in this scenario (the model: a fault at that effect)"""
    pre = eff_pre(job)
    if job["kind"] == "names" and not job.get("valid", True):
        return None
    if job["mode"] == "o" and pre in ("symdir", "immfile", "immdir"):
        return "remove"            # shutil.rmtree refuses a symbolic link; an immutable target cannot be removed
    if parent_missing(job) and job["store"] == "zip":
        return "mktemp"            # TemporaryDirectory(dir = <missing parent>): FileNotFoundError
    if pre == "dangling" and job["store"] == "dir":
        return "rename"            # os.replace(<directory>, <symbolic link>): NotADirectoryError
    return None


def call_exprs(job, n, nz):
    nm = job["naming"]
    a, codes = STORE_ARGS[nm["store_arg"]], name_codes(nm["arg_str"])
    m = "MW" if job["mode"] == "w" else "MO"
    return ("(map effect_kind (call_prog (fun _ => 0) (fun _ => (1, 2)) %s (str_of %s) %s (zseq 0 %s) (zseq 500 %s)), "
            "call_scen %s %s %s %s %s %s)" % (a, codes, m, cnat(n), cnat(nz), a, codes, m, pre_entry(eff_pre(job)),
                                             cnat(n), cnat(nz)))


def outcome_code_c(out):
    return {"done": 0, "exists": 1, "error:ValueError": 4}.get(out, 3)


def expected_sibling_changes(job, obs, handler_fault=None):
    """changes outside the target that are NOT judged: (a) ancestors of the target created by a save into a
    directory that did not exist (outside the property's quantifier), (b) the staging directory left behind
    when the harness made its clean-up handler fail.  Returns (unexpected, ancestors_created, staging_left)"""
    anc = set()
    d = os.path.dirname(target_rel(job))
    while d:
        anc.add(d)
        d = os.path.dirname(d)
    temps = tuple(obs.get("temps") or ())
    unexpected, n_anc, n_left = [], 0, 0
    for c in obs["siblings_changed"]:
        verb, _, path = c.partition(" ")
        if verb == "created" and path in anc:
            n_anc += 1
        elif handler_fault == "hclean" and verb == "created" and any(path == t or path.startswith(t + os.sep) for t in temps):
            n_left += 1 if path in temps else 1000      # >= 1000: something INSIDE the staging directory is left
        else:
            unexpected.append(c)
    return unexpected, n_anc, n_left


def scen_expr(fixed, store, mode, pre, n, nz):
    return "scen %s %s %s %s %s %s" % ("true" if fixed else "false", "SZip" if store == "zip" else "SDir",
                                       "MW" if mode == "w" else "MO", pre_entry(pre), cnat(n), cnat(nz))


def tree_expr(job, n, nz):
    return "tree_scen %s %s %s [%s] %s %s" % ("SZip" if job["store"] == "zip" else "SDir", "MW" if job["mode"] == "w" else "MO",
                                              pre_entry(eff_pre(job)), "; ".join("%d%%Z" % c for c in layout_codes(job["layout"])),
                                              cnat(n), cnat(nz))


def align(model_kinds, state_seq, pre, silent=("check",)):
    """positions in the model program of the effects the implementation shows as events: the
    existence check is not an event; RemoveTarget is a no-op (no event) when there is no target.
    Returns (shape_ok, pos) with pos[s] = model index of the s-th state-changing event."""
    eff = model_events(model_kinds, pre, silent)
    return [k for _, k in eff] == list(state_seq), [i for i, _ in eff]


TREE_SILENT = ("check", "mkdir")


def model_events(model_kinds, pre, silent=("check",)):
    """(index, kind) of the effects of the model's program that the implementation shows as events (os.makedirs of
    the directories ABOVE the target is not an event of the tracer: silent for jobs with a layout)"""
    return [(i, KIND_NAME[k]) for i, k in enumerate(model_kinds)
            if KIND_NAME[k] not in silent and not (KIND_NAME[k] == "remove" and pre in PRE_ABSENT)]


def model_row(rows, k):
    c, unmod, out, frame = rows[min(k, len(rows) - 1)][:4]
    return {"class": CLASS_NAME[c], "target_unmodified": bool(unmod), "outcome": out, "frame": bool(frame)}


def fault_key(store, kind):
    return "partial-loadable/%s/fault-at-%s" % (store, {"pure": "w"}.get(kind, kind))


# ------------------------------------------------------------------------------------------ comparison
def fault_text(obs, kind):
    ev = obs.get("event")
    return "%s fault %s %s event #%s (%s)%s, raised %s time(s), that write was %s afterwards" % (
        "PERSISTENT" if obs.get("persist") else "one-shot", obs.get("exc"),
        "inside (store operation %s of)" % obs["deep"] if obs.get("deep") is not None else "before", obs.get("j"), kind,
        " %s" % (ev[1:3],) if ev else "", obs.get("hits"), "completed" if obs.get("overcome") else "NEVER completed")


def oracle(job, obs, kind, handler_fault=None, judge_partial=True):
    """the property text, on what the implementation left behind; returns [(key, what)]"""
    bad = []
    where = "store=%s mode=%s pre-existing=%s path-form=%s" % (job["store"], job["mode"], job["pre"], job.get("path_form", "exact"))
    if job.get("naming"):
        nm = job["naming"]
        where += " save(%s(%r), store=%r) -> target %r" % ("Path" if nm["as_path"] else "str", nm["raw"], nm["store_arg"],
                                                          nm["resolved"])
    if job.get("layout"):
        lay = job["layout"]
        where += " target=%r (before the save: %s)" % (target_rel(job), ", ".join(
            "%s/ %s" % (os.path.join(*lay["chain"][:i + 1]),
                        "missing" if i >= lay["exist"] else ("holds " + "+".join(lay["extras"][i]) if lay["extras"][i] else "empty"))
            for i in range(len(lay["chain"]))))
    if obs["class"] == "partial" and judge_partial:
        if obs.get("fired") and obs["outcome"] == "done":
            # a write FAILED (the injected fault fired) and save() nevertheless returned and committed the target
            bad.append(("failed-write-swallowed/%s/fault-at-%s" % (job["store"], {"pure": "w"}.get(kind, kind)),
                        "save() RETURNED NORMALLY although a write failed (%s; %s) and load(target) returns a PARTIAL "
                        "object: %s" % (where, fault_text(obs, kind), obs["detail"])))
        else:
            bad.append((fault_key(job["store"], kind),
                        "after a failed save (%s; fault %s%s) load(target) returns a PARTIAL object: %s"
                        % (where, kind, "; " + fault_text(obs, kind) if obs.get("fired") else "", obs["detail"])))
    # write-once is judged for a pre-existing file or directory (the property's quantifier); a dangling
    # symbolic link does not "exist" for os.path.exists and is outside it
    if job["mode"] == "w" and eff_pre(job) not in PRE_ABSENT and not obs["target_unmodified"]:
        bad.append(("write-once-target-modified/%s/%s" % (job["store"], job["pre"]),
                    "mode 'w' modified an existing target (%s)" % where))
    unexpected, _, _ = expected_sibling_changes(job, obs, handler_fault)
    if unexpected:
        above = set()
        d = os.path.dirname(target_rel(job))
        while d:
            above.add(d)
            d = os.path.dirname(d)
        gone = [c for c in unexpected if c.startswith("removed ") and c.partition(" ")[2] in above]
        if gone:
            bad.append(("pre-existing-directory-above-the-target-removed/%s" % job["store"],
                        "a %s save (outcome %s, fault %s) removed directories that existed before it (%s): %s"
                        % ("failed" if obs["outcome"] != "done" else "successful", obs["outcome"], kind, where, unexpected[:6])))
        else:
            bad.append(("other-path-altered/%s" % job["store"],
                        "save altered paths other than its target (%s): %s" % (where, unexpected[:6])))
    if obs["temp_leftovers"]:
        bad.append(("temp-left-behind/%s" % job["store"],
                    "save left temporary files behind (%s): %s" % (where, obs["temp_leftovers"][:6])))
    return bad


def canon_class(job, obs):
    """a dangling symbolic link is `absent` for os.path.exists (and for the model) but load() is attempted on
    it: an untouched one counts as absent"""
    if job["pre"] == "dangling" and obs["class"] == "unreadable" and obs["target_unmodified"]:
        return "absent"
    return obs["class"]


def staging_parent_ok(job, obs):
    """the staging directory is created in the directory of the RESOLVED target"""
    want = os.path.dirname(target_rel(job)) or "."
    got = [os.path.normpath(v) if isinstance(v, str) else "<system temp>" for k, v in obs.get("audit", []) if k == "temp_parent"]
    return all(g == os.path.normpath(want) for g in got), got, want


def check_results(ctx: Ctx, jobs, results):
    # ---- model expressions (need n, nz from the recorded traces)
    exprs, owners = [], []
    lc_job = None
    for job in jobs:
        res = results.get(job["id"])
        if res is None or "harness_error" in res:
            raise RuntimeError("C08 job %s failed in the worker: %s" % (job["id"], (res or {}).get("harness_error")))
        if job["kind"] == "loadclass":
            lc_job = job
            continue
        if "skipped" in res:
            ctx.dist("skipped/%s" % job["pre"])
            ctx.cov.setdefault("skipped_scenarios", []).append("%s/%s/%s: %s" % (job["store"], job["mode"], job["pre"], res["skipped"]))
            continue
        if job["kind"] == "natural":
            nat = res["natural"]
            done = [e[0] for e, c in zip(nat["events"], nat["completed"]) if c]
            n, nz = done.count("w") + 1, max(1, done.count("z"))
        else:
            sk = res["clean"]["state_kinds"]
            n, nz = sk.count("w"), sk.count("z")
            if natural_failure(job) == "mktemp" or (job["kind"] == "names" and not job.get("valid", True)):
                n, nz = 3, 2          # the save stops before the first write: any object
            elif natural_failure(job) == "remove" and job["store"] == "zip":
                nz = max(nz, 1)
            if job["mode"] == "w" and eff_pre(job) not in PRE_ABSENT:
                n, nz = 3, 2          # the save stops at the existence check: any object
        job["n"], job["nz"] = n, nz
        std = "(%s, %s)" % (scen_expr(True, job["store"], job["mode"], eff_pre(job), n, nz),
                            scen_expr(False, job["store"], job["mode"], eff_pre(job), n, nz))
        st, m = "SZip" if job["store"] == "zip" else "SDir", "MW" if job["mode"] == "w" else "MO"
        if job["kind"] == "names":
            exprs.append(call_exprs(job, n, nz))
        elif job.get("layout"):
            exprs.append(tree_expr(job, n, nz))
        elif job["kind"] == "hfault":
            exprs.append("(%s, scen_stuck %s %s %s %s %s)" % (std, st, m, pre_entry(job["pre"]), cnat(n), cnat(nz)))
        elif job["kind"] == "rmfault":
            exprs.append("(%s, [%s])" % (std, "; ".join("scen_rm %s %s %s %s %s" % (st, pre_entry(job["pre"]), cnat(n), cnat(nz), cnat(jj))
                                                       for jj in range(OLD_N + 1))))
        else:
            exprs.append(std)
        owners.append(job)
    vals = ctx.coq_eval("scen", PRE, exprs, shard=12)
    if lc_job is not None:
        check_load_classes(ctx, lc_job, results[lc_job["id"]])

    n_dis = 0
    sampled = 0
    outside = ctx.cov.setdefault("observations_outside_quantifier", {})
    for job, val in zip(owners, vals):
        res = results[job["id"]]
        stuck_rows = rm_rows = None
        kinds_u = rows_u = None
        silent = TREE_SILENT if job.get("layout") else ("check",)
        if job["kind"] == "names":
            kinds_f, rows_f = val[0], val[1][3]       # (kinds, (store, resolved name, verdict, rows))
        elif job.get("layout"):
            kinds_f, rows_f = val                     # rows: (class, unmodified, outcome, frame, created per directory)
            lay = job["layout"]
            ctx.dist("layout/%s" % lay["class"])
            ctx.dist("layout/depth=%d" % len(lay["chain"]))
            ctx.dist("layout/missing-directories=%d" % (len(lay["chain"]) - lay["exist"]))
            if lay["exist"]:
                ctx.dist("layout/deepest-existing-directory=%s" % ("empty" if not lay["extras"][lay["exist"] - 1] else "non-empty"))
            ctx.dist("layout/store=%s,mode=%s,%s" % (job["store"], job["mode"], job["kind"]))
        elif job["kind"] == "hfault":
            kinds_f, rows_f, (kinds_u, rows_u), stuck_rows = val
        elif job["kind"] == "rmfault":
            kinds_f, rows_f, (kinds_u, rows_u), rm_rows = val
        else:
            kinds_f, rows_f, (kinds_u, rows_u) = val      # Coq prints ((a, b), (c, d)) as (a, b, (c, d))
        cfg = "%s/%s/%s" % (job["store"], job["mode"], job["pre"])
        base_replay = {"kind": job["kind"], "spec": job["spec"], "old_spec": job.get("old_spec"), "store": job["store"], "path_form": job.get("path_form", "exact"),
                       "mode": job["mode"], "pre": job["pre"], "graph": job.get("graph"), "naming": job.get("naming"),
                       "valid": job.get("valid", True), "layout": job.get("layout")}
        oracle_failed_here = False
        oc = outcome_code_c if job["kind"] == "names" else outcome_code
        if job["kind"] == "names" and not job.get("valid", True):
            # a refused call: WHICH refusal comes out (FileExistsError or ValueError) when the target exists too is
            # not something the property speaks about; both count as "refused, nothing changed"
            oc = lambda out: {4: 1}.get(outcome_code_c(out), outcome_code_c(out))    # noqa: E731

        def report_oracle(obs, kind, extra, **kw):
            nonlocal oracle_failed_here
            for key, what in oracle(job, obs, kind, **kw):
                oracle_failed_here = True
                ctx.violation(key, what, {**base_replay, **extra, "impl": obs})

        # ---------------- natural failure
        if job["kind"] == "natural":
            nat = res["natural"]
            done_state = [e[0] for e, c in zip(nat["events"], nat["completed"]) if c and e[0] in _state_kinds()]
            ctx.dist("natural/%s" % job["bad_kind"])
            ctx.dist("config/%s" % cfg)
            ctx.dist("class/%s" % nat["class"])
            ctx.count(("nat", json.dumps(job["spec"]), cfg), nontrivial=len(done_state) > 1)
            ctx.cov["traces_validated_against_impl"] += 1
            report_oracle(nat, "natural", {"natural": True, "bad_pos": job["bad_pos"], "bad_kind": job["bad_kind"]})
            if nat["outcome"] in ("done",):
                ctx.violation("natural-failure-swallowed", "save() returned normally although serialising attribute %s "
                              "raised (%s)" % (job["spec"][job["bad_pos"]][0], cfg), {**base_replay, "impl": nat})
                continue
            ok, pos = align(kinds_f, done_state, job["pre"], silent)
            # the completed events must be a prefix of the model's program
            eff_f = [KIND_NAME[k] for i, k in enumerate(kinds_f) if i in pos]
            prefix_ok = eff_f[:len(done_state)] == done_state
            k = pos[len(done_state)] if len(done_state) < len(pos) else len(kinds_f)
            mr = model_row(rows_f, k)
            same = prefix_ok and (mr["class"], mr["target_unmodified"], mr["outcome"]) == (
                nat["class"], nat["target_unmodified"], outcome_code(nat["outcome"]))
            if job.get("layout"):
                n_dis += check_created(ctx, job, nat, rows_f, k, base_replay, {"natural": True}, oracle_failed_here)
            if not same:
                n_dis += 1
                ctx.cov["disagreements_checked"] += 1
                ctx.violation("fault-outcome-correspondence",
                              "natural failure (attribute #%d = %s, %s): implementation left class=%s unmodified=%s "
                              "outcome=%s, the model of the atomic protocol says %s at k=%d%s"
                              % (job["bad_pos"], job["bad_kind"], cfg, nat["class"], nat["target_unmodified"],
                                 nat["outcome"], mr, k, "" if prefix_ok else " (event prefix differs from the model program)"),
                              {**base_replay, "natural": True, "impl": nat, "model": mr, "k": k},
                              found_input=oracle_failed_here)
            continue

        # ---------------- enumeration (kinds enum / names / hfault / rmfault share the clean run)
        clean, faults = res["clean"], res["faults"]
        sk = clean["state_kinds"]
        pre = eff_pre(job)
        natf = natural_failure(job)
        ctx.dist("config/%s" % cfg)
        ctx.dist("kind/%s" % job["kind"])
        ctx.dist("trace_len/%s" % ("<=10" if len(clean["events"]) <= 10 else "<=30" if len(clean["events"]) <= 30
                                   else "<=60" if len(clean["events"]) <= 60 else ">60"))
        report_oracle(clean, "none", {"inject_at": None})
        _, n_anc, _ = expected_sibling_changes(job, clean)
        if n_anc:
            outside["ancestors-of-the-target-created-by-a-save-into-a-missing-directory"] = \
                outside.get("ancestors-of-the-target-created-by-a-save-into-a-missing-directory", 0) + 1
        if job["pre"] == "dangling" and not clean["target_unmodified"]:
            outside["dangling-symlink-target-replaced"] = outside.get("dangling-symlink-target-replaced", 0) + 1
        # index of the effect the uninterrupted save ends at: the end of the program, or the primitive that
        # fails by itself in this scenario
        kind_code = {v: k for k, v in KIND_NAME.items()}
        if natf is not None and kind_code[natf] in kinds_f:
            k_end = list(kinds_f).index(kind_code[natf])
        else:
            natf, k_end = None, len(kinds_f)
        model_clean = model_row(rows_f, k_end)
        blocked = model_row(rows_f, len(kinds_f))["outcome"] in (1, 4) or (
            job["kind"] == "names" and not job.get("valid", True))
        if blocked:
            shape_ok, pos = (sk == []), []
            model_clean = model_row(rows_f, len(kinds_f))
        else:
            ev = model_events(kinds_f, pre, silent)
            pos = [i for i, _ in ev]
            # the recorded effects are the model's program (up to and including a primitive that fails by itself)
            shape_ok = list(sk) == [nm_ for i, nm_ in ev if i <= k_end]
        shape_unfixed_ok = False
        if kinds_u is not None:
            shape_unfixed_ok = (sk == []) if blocked else align(kinds_u, sk, pre)[0]
        ctx.count((job["kind"] + "-clean", json.dumps(job["spec"]), cfg, json.dumps(job.get("naming"))), nontrivial=not blocked)
        ctx.cov["traces_validated_against_impl"] += 1
        if not shape_ok:
            n_dis += 1
            ctx.cov["disagreements_checked"] += 1
            any_oracle = oracle_failed_here or any(oracle(job, f, clean["events"][f["j"]][0] if f.get("j") is not None else "none",
                                                           handler_fault=f.get("hf"), judge_partial=job["kind"] != "rmfault")
                                                    for f in faults)
            ctx.violation("protocol-correspondence",
                          "the effects save() performs (%s) are not those of the atomic protocol the theorems are about "
                          "(%s) for %s%s%s" % (compress(sk), compress([KIND_NAME[k] for k in kinds_f]), cfg,
                                               " [%s]" % json.dumps(job["naming"]) if job.get("naming") else "",
                                               "; they ARE those of the unrepaired protocol save_prog_unfixed, for which "
                                               "the property is refuted (C08_no_partial_loadable_refuted_*)"
                                               if shape_unfixed_ok else ""),
                          {**base_replay, "impl_effects": sk, "model_effects": [KIND_NAME[k] for k in kinds_f],
                           "matches_unfixed_model": shape_unfixed_ok}, found_input=any_oracle)
        if not shape_ok and shape_unfixed_ok and not blocked and job["kind"] == "enum":
            # diagnosis: does the code behave as the model of the UNREPAIRED protocol says, fault by fault?
            # (where that model says "partial", load may also fail deeper inside a half-written group)
            _, pos_u = align(kinds_u, sk, pre)
            agree = total = 0
            for f in faults:
                s_ = sum(1 for e in clean["events"][:f["j"]] if e[0] in _state_kinds())
                mu = model_row(rows_u, pos_u[s_] if s_ < len(pos_u) else len(kinds_u))
                total += 1
                agree += (mu["target_unmodified"] == f["target_unmodified"] and
                          (mu["class"] == f["class"] or (mu["class"] == "partial" and f["class"] == "unreadable")))
            ua = ctx.cov.setdefault("agreement_with_model_of_unrepaired_protocol", {"agree": 0, "total": 0})
            ua["agree"] += agree
            ua["total"] += total
        # staging directory: in the directory of the resolved target (per-step observable)
        sp_ok, sp_got, sp_want = staging_parent_ok(job, clean)
        if not sp_ok:
            n_dis += 1
            ctx.violation("staging-parent-correspondence",
                          "save() stages under %s, the protocol the theorems are about stages in the directory of the "
                          "resolved target (%s) (%s)" % (sp_got, sp_want, cfg),
                          {**base_replay, "inject_at": None, "impl": clean}, found_input=oracle_failed_here)
        # clean run vs model (no fault)
        mo = model_clean["outcome"]
        if job["kind"] == "names" and not job.get("valid", True) and mo == 4:
            mo = 1
        same = (model_clean["class"], model_clean["target_unmodified"], mo) == (
            canon_class(job, clean), clean["target_unmodified"], oc(clean["outcome"]))
        if not same:
            n_dis += 1
            ctx.cov["disagreements_checked"] += 1
            ctx.violation("clean-save-correspondence",
                          "uninterrupted save (%s%s): implementation class=%s unmodified=%s outcome=%s, model %s"
                          % (cfg, " [%s]" % json.dumps(job["naming"]) if job.get("naming") else "", clean["class"],
                             clean["target_unmodified"], clean["outcome"], model_clean),
                          {**base_replay, "inject_at": None, "impl": clean, "model": model_clean},
                          found_input=oracle_failed_here)
        if job.get("layout") and shape_ok:
            n_dis += check_created(ctx, job, clean, rows_f, len(kinds_f) if blocked else k_end, base_replay,
                                   {"inject_at": None}, oracle_failed_here)
        if job["kind"] == "names":
            nm = job["naming"]
            ctx.dist("names/outcome=%s" % clean["outcome"])
            if res.get("decoy_made"):
                ctx.dist("names/decoy-at-the-name-as-given")
            if sampled < 6 and nm["resolved"] != nm["arg_str"] and res.get("decoy_made"):
                ctx.sample({"call": "save(%s(%r), mode=%r, store=%r)" % ("Path" if nm["as_path"] else "str", nm["raw"], job["mode"], nm["store_arg"]),
                            "model_resolves_to": nm["resolved"], "pre_existing_at_resolved_name": job["pre"],
                            "decoy_at_name_as_given": nm["decoy"], "impl": {"outcome": clean["outcome"], "class": clean["class"],
                                                                           "siblings_changed": clean["siblings_changed"], "audit": clean["audit"]}})
        for f in faults:
            j = f["j"]
            hf = f.get("hf")
            kind = clean["events"][j][0] if j is not None else ("rmtree-interrupted" if "removed" in f else "none")
            ctx.dist("fault_at/%s" % kind)
            ctx.dist("class/%s" % f["class"])
            ctx.dist("exc/%s" % f["exc"])
            if j is not None and not hf:
                ctx.dist("fault_kind/%s" % ("persistent" if f.get("persist") else "one-shot"))
                ctx.dist("fault_site/%s" % ("store-key-operation-inside-the-event" if f.get("deep") is not None
                                            else "before-the-event:" + clean["events"][j][1]))
                if f.get("persist"):
                    ctx.dist("persistent_fault_hits/%s" % min(f.get("hits", 0), 5))
                f["event"] = clean["events"][j]
            if hf:
                ctx.dist("handler_fault/%s%s" % (hf, "" if f["hfired"] else "/handler-not-reached"))
            ctx.count((job["kind"], json.dumps(job["spec"]), cfg, json.dumps(job.get("naming")), j, hf, f.get("removed"),
                       bool(f.get("persist")), f.get("deep")), nontrivial=True)
            ctx.cov["traces_validated_against_impl"] += 1
            extra = {"inject_at": j, "exc": f["exc"], "event": clean["events"][j] if j is not None else None,
                     "handler_fault": hf, "inside_remove": f.get("removed"), "persist": bool(f.get("persist")),
                     "deep": f.get("deep")}
            if j is not None and f.get("deep") is not None and not f["fired"]:
                ctx.dist("deep/store-operation-not-reached")     # the store operation was not issued this time
                continue
            before = oracle_failed_here
            oracle_failed_here = False
            report_oracle(f, kind, extra, handler_fault=hf, judge_partial=job["kind"] != "rmfault")
            this_failed = oracle_failed_here
            oracle_failed_here = before or this_failed
            if j is not None and (not f["prefix_ok"] or not f["fired"]):
                ctx.violation("nondeterministic-trace", "the faulted run did not follow the recorded trace (%s, j=%d)" % (cfg, j),
                              {**base_replay, **extra, "impl": f}, found_input=this_failed)
                continue
            if not shape_ok:
                continue
            # ---- interrupted removal of the old directory target (outside the quantifier: observed, tied to the model)
            if "removed" in f:
                k_rm = list(kinds_f).index(kind_code["remove"])
                model_classes = {CLASS_NAME[rows[k_rm][0]] for rows in rm_rows} | {"old"}
                sib_ok = all(rows[k_rm][3] and rows[k_rm][4] for rows in rm_rows)
                ok_rm = (f["class"] in model_classes and oc(f["outcome"]) == 3 and not f["target_unmodified"]
                         and not f["siblings_changed"] and not f["temp_leftovers"] and sib_ok)
                if f["class"] == "partial":
                    key = "interrupted-removal-of-old-directory-target-leaves-loadable-partial-OLD-object"
                    outside[key] = outside.get(key, 0) + 1
                if not ok_rm:
                    n_dis += 1
                    ctx.violation("interrupted-removal-correspondence",
                                  "shutil.rmtree(target) interrupted after %d of %d files (%s): implementation left class=%s "
                                  "unmodified=%s outcome=%s siblings=%s; the model (C08_interrupted_removal) allows classes %s, "
                                  "a modified target, outcome fault and nothing else changed"
                                  % (f["removed"], res.get("nfiles", -1), cfg, f["class"], f["target_unmodified"], f["outcome"],
                                     f["siblings_changed"], sorted(model_classes)),
                                  {**base_replay, **extra, "impl": f}, found_input=this_failed)
                continue
            if blocked:
                # an event before the existence check (none today): nothing may have happened yet
                if (canon_class(job, f), f["target_unmodified"]) != (model_clean["class"], True):
                    n_dis += 1
                    ctx.violation("fault-outcome-correspondence", "fault before the existence check changed the target (%s)" % cfg,
                                  {**base_replay, **extra, "impl": f}, found_input=this_failed)
                continue
            absorbed = (j is not None and not hf and f["fired"] and f["outcome"] == "done" and f["class"] == "new"
                        and not this_failed)
            if absorbed:
                # the failed write was repeated (or was not needed) and the COMPLETE new object is in place: allowed by
                # the text ("never ... silently missing attributes"); the model: retry_run of a fault plan that does not
                # exhaust the attempts = the run without fault (C08_retry_one_shot_absorbed)
                ctx.dist("fault_absorbed/%s" % ("the-same-write-was-repeated-and-completed" if f.get("overcome") else "otherwise"))
            if j is None or absorbed:
                k = k_end                       # no primary fault: the save runs to its end (then the handler fails)
            else:
                s = sum(1 for e in clean["events"][:j] if e[0] in _state_kinds())
                k = pos[s] if s < len(pos) else len(kinds_f)
                k = min(k, k_end)
            mr = model_row(rows_f, k)
            if not mr["frame"]:
                raise RuntimeError("model frame check failed (contradicts C08_frame / C08_tree_frame): %s k=%d" % (cfg, k))
            if job.get("layout"):
                n_dis += check_created(ctx, job, f, rows_f, k, base_replay, extra, this_failed)
            want_outcome = mr["outcome"]
            if hf == "hclean" and f["hfired"]:
                # C08_cleanup_faults_agree: target and every path outside the staging area as without the handler
                # fault; the exception of the failing handler comes out of save()
                srow = stuck_rows[min(k, len(stuck_rows) - 1)]
                _, _, n_left = expected_sibling_changes(job, f, "hclean")
                staging_left_model = not srow[4]
                if (CLASS_NAME[srow[0]], bool(srow[1]), bool(srow[3])) != (mr["class"], mr["target_unmodified"], True):
                    raise RuntimeError("model: scen_stuck disagrees with scen outside the staging area (contradicts "
                                       "C08_cleanup_faults_agree): %s k=%d" % (cfg, k))
                want_outcome = 3
                # (the model's staging path is directory and staged store in one: when it says nothing is left, the
                # emptied container directory may remain)
                if (staging_left_model and n_left == 0) or (not staging_left_model and n_left >= 1000):
                    n_dis += 1
                    ctx.violation("cleanup-fault-correspondence",
                                  "TemporaryDirectory clean-up made to fail (%s, fault before event %s): staging directory left "
                                  "behind = %s, the model (stuck_env) says %s" % (cfg, j, n_left > 0, staging_left_model),
                                  {**base_replay, **extra, "impl": f}, found_input=this_failed)
            same = (mr["class"], mr["target_unmodified"], want_outcome) == (
                canon_class(job, f), f["target_unmodified"], oc(f["outcome"]))
            if not same:
                n_dis += 1
                ctx.cov["disagreements_checked"] += 1
                ctx.violation("fault-outcome-correspondence" if not hf else "cleanup-fault-correspondence",
                              "fault before event %s (%s)%s of %s%s: implementation left class=%s unmodified=%s outcome=%s, "
                              "the model says %s at k=%d" % (j, clean["events"][j][:2] if j is not None else "-",
                                                             " + failing clean-up handler %s" % hf if hf else "", cfg,
                                                             " [%s]" % json.dumps(job["naming"]) if job.get("naming") else "",
                                                             f["class"], f["target_unmodified"], f["outcome"], mr, k),
                              {**base_replay, **extra, "impl": f, "model": mr, "k": k}, found_input=this_failed)
        if sampled < 4 and faults and not blocked and job["kind"] == "enum":
            sampled += 1
            mid = faults[len(faults) // 2]
            ctx.sample({"config": cfg, "n_item_writes": job["n"], "n_zip_members": job["nz"], "effects": compress(sk),
                        "fault_before_event": clean["events"][mid["j"]], "exception": mid["exc"],
                        "impl": {"class": mid["class"], "target_unmodified": mid["target_unmodified"],
                                 "outcome": mid["outcome"], "siblings_changed": mid["siblings_changed"]},
                        "classes_over_k": compress([f["class"] for f in faults] + [clean["class"]])})
    ctx.log("enumeration: %d scenarios, %d disagreements with the model" % (len(owners), n_dis))
    if outside:
        ctx.log("observed outside the property's quantifier (not judged): %s" % json.dumps(outside))
    ua = ctx.cov.get("agreement_with_model_of_unrepaired_protocol")
    if ua:
        ctx.log("the code follows the UNREPAIRED protocol; fault-by-fault agreement with save_prog_unfixed: %d/%d"
                % (ua["agree"], ua["total"]))


def created_dirs(job, obs):
    """which directories of the chain above the target did the save create (per directory of the chain)"""
    chain = job["layout"]["chain"]
    made = {c.partition(" ")[2] for c in obs["siblings_changed"] if c.startswith("created ")}
    return [os.path.join(*chain[:i + 1]) in made for i in range(len(chain))]


def check_created(ctx, job, obs, rows, k, base_replay, extra, oracle_failed):
    """correspondence: the directories above the target that exist afterwards and did not before are those the
    model's os.makedirs creates (tree_run); everything pre-existing is judged by the oracle"""
    want = [bool(b) for b in rows[min(k, len(rows) - 1)][4]]
    got = created_dirs(job, obs)
    lay = job["layout"]
    if any(got):
        ctx.dist("layout/missing-directories-created-by-%s" % ("a-successful-save" if obs["outcome"] == "done" else "a-failed-save"))
    # after a FAILED save a created directory may also have been taken away again (the model keeps it: the code has no
    # clean-up for it; the theorem C08_tree_frame allows both): only a directory the model does not create is a mismatch
    if got == want or (obs["outcome"] != "done" and all(w or not g for g, w in zip(got, want))):
        return 0
    ctx.cov["disagreements_checked"] += 1
    ctx.violation("created-directories-correspondence",
                  "target %s (directories %s exist beforehand), store=%s mode=%s, %s: the save created %s of the chain, the "
                  "model (tree_run: os.makedirs for the directory store, nothing for the zip store, no clean-up) says %s at k=%d"
                  % (target_rel(job), lay["chain"][:lay["exist"]], job["store"], job["mode"],
                     "fault before event %s" % extra.get("inject_at") if extra.get("inject_at") is not None else "no injected fault",
                     got, want, k),
                  {**base_replay, **extra, "impl": obs, "model_created": want, "k": k}, found_input=oracle_failed)
    return 1


def check_load_classes(ctx: Ctx, job, res):
    """load() of one on-disk instance of every class of entry vs load_model"""
    rows = res["loadclass"]
    vals = ctx.coq_eval("loadclass", PRE, ["load_obs %s" % entry for _, entry, _ in rows], shard=80)
    for (label, entry, got), want in zip(rows, vals):
        ctx.dist("load_class/%s=%s" % (label, got))
        ctx.count(("loadclass", label), nontrivial=True)
        ctx.cov["traces_validated_against_impl"] += 1
        ok = (got == "obj") if want == 1 else got.startswith("err:")
        if not ok:
            ctx.violation("load-acceptance-correspondence",
                          "load() of a target holding %s (%s): implementation %s, load_model says %s"
                          % (label, entry, got, "an object" if want == 1 else "an error"),
                          {"kind": "loadclass", "label": label, "entry": entry, "impl": got, "model": want},
                          found_input=False)


def _state_kinds():
    return ("mktemp", "mkdir", "w", "zopen", "z", "zclose", "remove", "rename")


def compress(seq):
    out = []
    for x in seq:
        if out and out[-1][0] == x:
            out[-1][1] += 1
        else:
            out.append([x, 1])
    return " ".join(x if n == 1 else "%s*%d" % (x, n) for x, n in out)


# ------------------------------------------------------------------------------------------ entry points
def run(ctx: Ctx):
    ctx.hash_sources("core/io/serialize.py",
                     ["AutoSerialize.save", "AutoSerialize._recursive_save", "AutoSerialize._serialize_value",
                      "AutoSerialize._serialize_container", "AutoSerialize._write_ndarray", "AutoSerialize._write_bytes",
                      "load"])
    ctx.cov["rule"] = (
        "a case = (object graph, store, mode, pre-existing target in {none, earlier archive, earlier directory, other "
        "file}, position j of the injected exception among the primitive effects of the recorded trace) or (graph with "
        "an unserialisable attribute at position i, store, mode, pre-existing); graphs are seeded random attribute "
        "lists over 24 value kinds (scalars, arrays, tensors, containers, nested objects, dill fallback); every j of "
        "every trace is enumerated, the injected exception cycles over OSError / RuntimeError / KeyboardInterrupt / "
        "SystemExit / GeneratorExit / a bare BaseException subclass; a case is distinct by (graph, configuration, j) "
        "and non-trivial when the save gets past the existence check.  Round 3 adds: (a) unusual pre-existing targets "
        "(empty directory, directory / archive that is no store, symbolic link to a file / to a directory store / to "
        "nothing, read-only target via chattr +i, target in a directory that does not exist) x both stores x both modes "
        "x every j; (b) spellings of the target: ~30 fixed + random names (no suffix, .zip, .ZIP, .zip.bak, dots, "
        "trailing slash, ./ and x/../ prefixes, missing parent) x store argument {auto, zip, dir, unknown} x {str, "
        "Path} x mode x {nothing, file, archive, directory} at the RESOLVED name x a decoy {none, file, directory} at "
        "the name as given, with the resolved name computed by the model's `resolve`; (c) faults INSIDE the clean-up "
        "handlers (TemporaryDirectory.__exit__ raising at normal exit and on top of a fault at every j; "
        "ZipFile.__exit__ raising during zip assembly); (d) shutil.rmtree of an old directory target interrupted after "
        "r files (outside the quantifier: observed and tied to the model, not judged); (e) load() of one on-disk "
        "instance of every class of entry of the model.  Round 4 adds (f) the DIRECTORY TREE above the target: targets 1-5 "
        "levels below the run directory, a prefix of the chain of directories exists beforehand (classes: parent exists / "
        "parent missing below an EMPTY grand-parent / below a non-empty one / two or more levels missing / nothing exists), "
        "every existing directory empty or holding files, hidden files, empty and non-empty sub-directories, a backup next "
        "to the target; x both stores x both modes x {no target, earlier archive, earlier directory, other file} x every "
        "fault position or an unserialisable attribute; judged: every path that existed before the save (directories "
        "included) exists unchanged afterwards, whether the save succeeded or failed; the directories a save creates are "
        "compared with the model's os.makedirs (tree_run).  Round 5 adds (g) the KIND of the fault: at every position j of "
        "every enumerated trace, besides the one-shot fault (the call at j fails once), a PERSISTENT fault (the call at j "
        "and every later call at the same site = (primitive, zarr path of the group / array / attribute owner, item "
        "name) fails: repeating the write does not help), and for the zarr mutators a fault raised INSIDE the event by "
        "one of the store's own key operations (LocalStore.set / set_if_not_exists / delete / delete_dir; one-shot or "
        "persistent on that key); exception classes: OSError without errno, OSError(errno) for EIO ENOSPC EACCES ESTALE "
        "EAGAIN EINTR EBUSY ETIMEDOUT (raised as the built-in class the errno maps to), RuntimeError, MemoryError, and "
        "for one-shot faults before an event KeyboardInterrupt / SystemExit / GeneratorExit / a bare BaseException "
        "subclass; the tracer records how often the fault fired and whether the SAME write was completed later; judged "
        "by the same clause: after a save in which a write failed the target is absent / unreadable / the complete "
        "earlier object, or the COMPLETE new object (a fault that a retry overcomes is not reported: compared with the "
        "model's uninterrupted run, C08_retry_absorbs); a save that returns normally and leaves a partial object is "
        "reported under failed-write-swallowed/<store>/fault-at-<kind>")
    ctx.assumptions += [
        "a fault is an exception raised between Python-level effects (before a hooked primitive runs), inside a "
        "clean-up handler, or part-way through shutil.rmtree of the old target; OS crashes, fsync and rename "
        "atomicity are not modelled",
        "one save at a time: concurrent saves / a load racing with a save on the same target are out of scope (of the "
        "model and of the property's quantifier)",
        "the location a name denotes is os.path.abspath(name) (the model's abstract `loc`); str(path) of a pathlib.Path "
        "is computed by the harness before the model's `resolve` is applied",
        "zarr LocalStore writes each key atomically (temp + replace) and os.replace within one directory is atomic",
        "load() is a deterministic function of the bytes of the target",
        "a fault raised by a store key operation inside a zarr mutator is reported after the key operations zarr issued "
        "concurrently beside it have finished (deterministic schedule); the schedule in which a sibling key write outlives "
        "the failing one and lands after save() has cleaned up (zarr gathers them over worker threads that cannot be "
        "cancelled) is not driven",
        "a persistent fault is persistent per SITE (primitive, zarr path, item name); a library that works around a failing "
        "site by writing somewhere else is judged by what load(target) returns",
    ]
    ctx.cov["trusted_base"] += [
        "Coq 8.16.1 kernel incl. vm_compute (used to run the model); no native_compute; no axioms",
        "hand-written model coq/model/C08_Model.v + C08_Model_Ext.v + C08_Model_Tree.v (effects, handlers, load acceptance, "
        "path resolution, environments of failing handlers / interruptible removal, os.makedirs of the chain above the "
        "target) tied to /repo by the fault enumeration and, for the effect order / with-scopes / path versions of "
        "AutoSerialize.save, by the translator tie (C08_save_effect_program_tie)",
        "harness/impl_C08.py: the list of hooked primitives is the definition of 'write operation' (zarr group/array/"
        "attribute mutators, ZipFile open/write/end-record, tempfile, os/shutil remove/rename/makedirs on the target)",
        "harness/props/C08.py (generators, trace-to-program alignment, classification by canonical form of the loaded "
        "object, table scenario -> model entry / primitive that fails by itself)",
    ]
    ctx.proofs_or_violation()
    try:  # round 4: the effect program of AutoSerialize.save extracted from the CURRENT source = the protocol of the
        # theorems (order of the effects, `with` scopes, which path version reaches each site), by theorem
        from ..c08_tie import run_tie
        tie_ok = run_tie(ctx)
    except Exception as e:  # noqa  (fail closed: the tie could not be established)
        tie_ok = False
        ctx.broken_obligation = "; ".join(filter(None, [ctx.broken_obligation, "effect-program tie could not run: %r" % (e,)]))
    jobs = gen_jobs(ctx)
    resolve_names(ctx, jobs)
    ctx.log("%d scenarios (%d enumerated, %d natural failures, %d spellings of the target, %d clean-up faults, "
            "%d interrupted removals)" % (
                len(jobs), sum(j["kind"] == "enum" for j in jobs), sum(j["kind"] == "natural" for j in jobs),
                sum(j["kind"] == "names" for j in jobs), sum(j["kind"] == "hfault" for j in jobs),
                sum(j["kind"] == "rmfault" for j in jobs)))
    results = run_workers(ctx, jobs)
    ctx.log("implementation runs finished")
    check_results(ctx, jobs, results)
    if tie_ok:
        cross_test_translator(ctx, jobs, results)


def cross_test_translator(ctx: Ctx, jobs, results):
    """the translator's own cross-test: the effects of the EXTRACTED program (gen_kinds: interp + expand of the generated
    token list) for the sizes of recorded traces vs the effects the real save was seen to perform"""
    picked = []
    for job in jobs:
        res = results.get(job["id"]) or {}
        if job["kind"] != "enum" or "clean" not in res or natural_failure(job) is not None:
            continue
        if job["mode"] == "w" and eff_pre(job) not in PRE_ABSENT:
            continue
        if res["clean"]["outcome"] != "done" or res["clean"]["state_kinds"].count("w") < 3:
            continue
        picked.append(job)
    picked = picked[:ctx.budget(40, 400)]
    if not picked:
        return
    exprs = []
    for job in picked:
        sk = results[job["id"]]["clean"]["state_kinds"]
        nanc = len(job["layout"]["chain"]) if job.get("layout") else 0
        exprs.append("gen_kinds %s %s %s 1 %s 2 %s" % ("SZip" if job["store"] == "zip" else "SDir", "MW" if job["mode"] == "w" else "MO",
                                                       cnat(nanc), cnat(sk.count("w") - 3), cnat(sk.count("z"))))
    vals = ctx.coq_eval("gen_kinds", PRE + "From GenC08 Require Import Gen_C08 C08_GenProofs.\n", exprs, shard=40,
                        extra_flags=["-Q", str(ctx.dir), "GenC08"])
    bad = 0
    for job, kinds in zip(picked, vals):
        sk = results[job["id"]]["clean"]["state_kinds"]
        want = [nm for _, nm in model_events(kinds, eff_pre(job), TREE_SILENT)] if all(k in KIND_NAME for k in kinds) else ["?"]
        ctx.count(("translator-cross-test", json.dumps(job["spec"]), job["store"], job["mode"], job["pre"], json.dumps(job.get("layout"))),
                  nontrivial=True)
        ctx.dist("translator_cross_test/%s" % job["store"])
        if want != list(sk):
            bad += 1
            ctx.violation("effect-program-translator-cross-test",
                          "the effect program extracted from the source of AutoSerialize.save (%s) differs from the effects the "
                          "real save performs (%s) for store=%s mode=%s pre-existing=%s: translator bug or an effect outside "
                          "its grammar" % (compress(want), compress(sk), job["store"], job["mode"], job["pre"]),
                          {"kind": "translator-cross-test", "spec": job["spec"], "store": job["store"], "mode": job["mode"],
                           "pre": job["pre"], "extracted": want, "impl_effects": sk}, found_input=False)
    ctx.cov["effect_program_tie"]["cross_test"] = {"traces": len(picked), "mismatches": bad}
    ctx.log("translator cross-test: %d recorded traces vs the extracted program, %d mismatches" % (len(picked), bad))


def replay(ctx: Ctx, path):
    rp = json.loads(open(path).read())
    if rp.get("kind") == "loadclass":
        from .. import impl_C08 as I
        scratch = tempfile.mkdtemp(prefix="verif_c08_replay_")
        try:
            rows = I.load_classes(scratch)
        finally:
            shutil.rmtree(scratch, ignore_errors=True)
        vals = ctx.coq_eval("replay", PRE, ["load_obs %s" % e for _, e, _ in rows])
        bad = 0
        for (label, entry, got), want in zip(rows, vals):
            ok = (got == "obj") if want == 1 else got.startswith("err:")
            bad += not ok
            print("%-45s %-28s load(): %-22s load_model: %s %s" % (label, entry, got, "object" if want == 1 else "error", "" if ok else "  <-- differs"))
        return 1 if bad else 0
    if "spec" not in rp or rp.get("kind") == "translator-cross-test":
        print("replay names a proof obligation / correspondence batch: re-run ./check C08")
        print(rp.get("what"))
        return 0
    from .. import impl_C08 as I
    single = rp.get("inject_at") is not None or rp.get("handler_fault") or rp.get("inside_remove")
    job = {"id": 0, "kind": "natural" if rp.get("natural") else ("single" if single else ("names" if rp.get("naming") else "enum")),
           "spec": rp["spec"], "old_spec": rp.get("old_spec"), "store": rp["store"], "path_form": rp.get("path_form", "exact"), "mode": rp["mode"], "pre": rp["pre"],
           "inject_at": rp.get("inject_at"), "exc": rp.get("exc") or "os", "naming": rp.get("naming"), "valid": rp.get("valid", True),
           "handler_fault": rp.get("handler_fault"), "inside_remove": rp.get("inside_remove"), "imm_root": str(ctx.dir / "imm"),
           "persist": bool(rp.get("persist")), "deep": rp.get("deep"),
           "n_positions": 6, "layout": rp.get("layout")}
    scratch = tempfile.mkdtemp(prefix="verif_c08_replay_")
    try:
        res = I.run_job(job, scratch)
    finally:
        shutil.rmtree(scratch, ignore_errors=True)
    if "skipped" in res:
        print("scenario skipped:", res["skipped"])
        return 0
    bad = []
    if job["kind"] == "natural":
        obs = [("natural", res["natural"], None)]
    else:
        obs = [("none", res["clean"], None)] if job["kind"] in ("enum", "names") else []
        for f in res.get("faults", []):
            if f.get("j") is not None:
                f["event"] = res["clean"]["events"][f["j"]]
            obs.append((res["clean"]["events"][f["j"]][0] if f.get("j") is not None else "none", f, rp.get("handler_fault")))
    if job.get("naming"):
        nm = job["naming"]
        print("call: save(%s(%r), mode=%r, store=%r); the model resolves it to %r (verdict %s)" % (
            "Path" if nm["as_path"] else "str", nm["raw"], job["mode"], nm["store_arg"], nm["resolved"], nm["verdict"]))
    for kind, o, hf in obs:
        print("fault at: %-8s outcome=%-8s class=%-10s target_unmodified=%s siblings_changed=%s temp_leftovers=%s %s" % (
            kind if o.get("j") is None else "%s#%d" % (kind, o["j"]), o["outcome"], o["class"], o["target_unmodified"],
            o["siblings_changed"], o["temp_leftovers"], o["detail"]))
        if o.get("j") is not None:
            print("          " + fault_text(o, kind))
        bad += oracle(job, o, kind, handler_fault=hf, judge_partial=not rp.get("inside_remove"))
    if job["kind"] != "natural" and not job.get("naming"):
        sk = res["clean"]["state_kinds"]
        v = ctx.coq_eval("replay", PRE, [scen_expr(True, job["store"], job["mode"], eff_pre(job), max(1, sk.count("w")), sk.count("z"))])[0]
        print("implementation effects:", compress(sk))
        print("model (atomic protocol) effects:", compress([KIND_NAME[k] for k in v[0]]))
        print("model classes over k:", compress([CLASS_NAME[r[0]] for r in v[1]]))
    for key, what in bad:
        print("oracle: [%s] %s" % (key, what))
    if not bad:
        print("oracle: property holds on this case")
    return 1 if bad else 0
