"""C08 — failed saves leave no loadable partial object; write-once never overwrites.
Theorems: coq/props/C08_Properties.v (for every fault index k, both stores, both modes, every prior
content of the target).  Tie: fault ENUMERATION on the real serializer (harness/impl_C08.py): the trace
of primitive effects of a successful save is recorded by monkey-patching from this process; the save is
re-run with an exception injected before every event of the trace (plus "natural" failures: an attribute
whose serialisation raises, at every position); after each run the target is classified
(absent | unreadable | old | new | partial), the sibling paths and the temporary directory are
snapshotted, and both are compared with `run k` of the Coq model of the protocol.
The oracle is the classification itself: `partial` = violation; a modified pre-existing target in
mode 'w' = violation; any other path changed / temp left behind = violation."""
from __future__ import annotations

import json
import os
import shutil
import subprocess
import sys
import tempfile

from ..common import NPROC, VERIF, Ctx, cnat

PRE = "From QV.lib Require Import Prelude.\nFrom QV.model Require Import C08_Model.\n"

KIND_NAME = {0: "check", 1: "remove", 2: "mktemp", 3: "mkdir", 4: "w", 5: "zopen", 6: "z", 7: "zclose", 8: "rename"}
CLASS_CODE = {"absent": 0, "unreadable": 1, "old": 2, "new": 3, "partial": 4}
CLASS_NAME = {v: k for k, v in CLASS_CODE.items()}

# (mode, pre-existing target); the first five are enumerated over every fault position, the
# write-once ones end at the existence check (a single run each)
FULL_CONFIGS = [("w", "none"), ("o", "none"), ("o", "oldzip"), ("o", "olddir"), ("o", "other")]
ONCE_CONFIGS = [("w", "oldzip"), ("w", "olddir"), ("w", "other")]
BAD_KINDS = ["unpicklable", "nd_object", "list_with_unpicklable", "dict_with_unpicklable", "nested_with_unpicklable"]
OLD_N, OLD_NZ = 6, 3      # size of the earlier save in the model (its items are disjoint from the new ones)


def outcome_code(out):
    return {"done": 0, "exists": 1}.get(out, 3)


# ------------------------------------------------------------------------------------------ cases
def gen_spec(rng, n_attrs, depth=0):
    from_kinds = ["int", "float", "str", "bool", "none", "path", "npscalar", "nd_f8", "nd_i4", "nd_empty", "nd_big",
                  "tensor", "list_num", "list_mixed", "tuple", "dict", "dict_nested", "set", "nested", "complex",
                  "bytes", "plain", "rng", "logger"]
    if depth:
        from_kinds = [k for k in from_kinds if k not in ("nested", "dict_nested")]
    spec = []
    for i in range(n_attrs):
        k = rng.choice(from_kinds)
        sub = gen_spec(rng, rng.randint(1, 3), depth + 1) if k == "nested" else None
        spec.append(["a%d_%s" % (i, k), k, rng.randrange(1 << 16), sub])
    return spec


def corpus_jobs():
    p = VERIF / "corpus" / "C08" / "corpus.json"
    return json.loads(p.read_text()) if p.exists() else []


def gen_jobs(ctx: Ctx):
    r = ctx.rng
    jobs = []
    # corpus first: the witnesses of the two refutation lemmas, replayed on the implementation
    for c in corpus_jobs():
        jobs.append(dict(c))
    n_graphs = ctx.budget(10, 120)
    per_graph_full = ctx.budget(4, 10)
    rot = 0
    for g in range(n_graphs):
        n_attrs = [1, 2, 3, 4, 5, 6, 7, 9][g % 8] if ctx.quick else r.randint(1, 12)
        spec = gen_spec(r, n_attrs)
        old_spec = gen_spec(r, r.randint(1, 3))
        all_full = [(s, m, p) for s in ("zip", "dir") for (m, p) in FULL_CONFIGS]
        chosen = [all_full[(rot + i) % len(all_full)] for i in range(per_graph_full)]
        rot += 3                           # coprime to the 10 configurations: every one is reached
        for (s, m, p) in chosen:
            jobs.append({"kind": "enum", "spec": spec, "old_spec": old_spec, "store": s, "mode": m, "pre": p,
                         "phase": g, "graph": g})
        for s in ("zip", "dir"):
            for (m, p) in (ONCE_CONFIGS if (not ctx.quick or g % 2 == 0) else ONCE_CONFIGS[g % 3:g % 3 + 1]):
                jobs.append({"kind": "enum", "spec": spec, "old_spec": old_spec, "store": s, "mode": m, "pre": p,
                             "phase": g, "graph": g})
    # natural failures: an attribute whose serialisation raises, at every attribute position
    n_nat = ctx.budget(5, 40)
    for g in range(n_nat):
        n_attrs = r.randint(2, 6)
        spec = gen_spec(r, n_attrs)
        old_spec = gen_spec(r, 2)
        for pos in range(n_attrs + 1):
            bad = BAD_KINDS[(g + pos) % len(BAD_KINDS)]
            sp = spec[:pos] + [["bad%d_%s" % (pos, bad), bad, 0, None]] + spec[pos:]
            s = ("zip", "dir")[(g + pos) % 2]
            m, p = FULL_CONFIGS[(g * 3 + pos) % len(FULL_CONFIGS)]
            jobs.append({"kind": "natural", "spec": sp, "old_spec": old_spec, "store": s, "mode": m, "pre": p,
                         "bad_pos": pos, "bad_kind": bad, "graph": 1000 + g})
            if not ctx.quick or pos % 2 == 0:
                jobs.append({"kind": "natural", "spec": sp, "old_spec": old_spec, "store": ("dir", "zip")[(g + pos) % 2],
                             "mode": m, "pre": p, "bad_pos": pos, "bad_kind": bad, "graph": 1000 + g})
    # how the caller names the target (the property's target is the path save() resolves to).
    # Every zip job against an existing target also runs with the suffix-less name: the existence check
    # and the write must agree on the RESOLVED path (write-once / overwrite decided on the wrong name).
    extra = []
    seen_cfg = set()
    for j in jobs:
        if j["store"] == "zip" and j["pre"] != "none" and "path_form" not in j:
            cfg = (j["kind"], j["mode"], j["pre"])
            if ctx.quick and cfg in seen_cfg:
                continue
            seen_cfg.add(cfg)
            extra.append(dict(j, path_form="noext"))
    jobs += extra
    forms = ["exact", "noext", "auto", "pathlib"]
    for i, j in enumerate(jobs):
        j["id"] = i
        if "path_form" not in j:
            f = forms[i % 4]
            if f == "noext" and j["store"] != "zip":
                f = "pathlib"
            j["path_form"] = f
    return jobs


def job_cost(j):
    def size(spec):
        return sum(3 + (size(s[3]) if s[3] else 0) + (4 if s[1] in ("tensor", "list_mixed", "dict", "dict_nested") else 0)
                   for s in spec)
    n = size(j["spec"]) + 6
    if j["kind"] == "natural" or (j["mode"] == "w" and j["pre"] != "none"):
        return 3
    return n * n // 8 + 5


# ------------------------------------------------------------------------------------------ workers
def run_workers(ctx: Ctx, jobs):
    nw = max(1, min(NPROC - 2, 14, len(jobs)))
    shm = "/dev/shm" if os.path.isdir("/dev/shm") and os.access("/dev/shm", os.W_OK) else None
    scratch = tempfile.mkdtemp(prefix="verif_c08_", dir=shm or str(ctx.dir))
    buckets = [[] for _ in range(nw)]
    loads = [0] * nw
    for j in sorted(jobs, key=job_cost, reverse=True):
        i = loads.index(min(loads))
        buckets[i].append(j)
        loads[i] += job_cost(j)
    procs = []
    env = dict(os.environ)
    env.setdefault("OMP_NUM_THREADS", "1")
    env["OMP_NUM_THREADS"] = "1"
    try:
        for i, b in enumerate(buckets):
            jf, of = ctx.dir / ("jobs_%02d.json" % i), ctx.dir / ("out_%02d.json" % i)
            jf.write_text(json.dumps(b))
            if of.exists():
                of.unlink()
            wdir = os.path.join(scratch, "w%02d" % i)
            os.makedirs(wdir)
            p = subprocess.Popen([sys.executable, "-W", "ignore", "-m", "harness.impl_C08", str(jf), str(of), wdir],
                                 cwd=str(VERIF), env=env, stdout=subprocess.PIPE, stderr=subprocess.STDOUT, text=True)
            procs.append((p, of))
        results = {}
        for p, of in procs:
            out, _ = p.communicate(timeout=ctx.budget(600, 3000))
            if p.returncode != 0 or not of.exists():
                raise RuntimeError("C08 worker failed (rc=%s):\n%s" % (p.returncode, (out or "")[-2000:]))
            for r in json.loads(of.read_text()):
                results[r["id"]] = r
        return results
    finally:
        for p, _ in procs:
            if p.poll() is None:
                p.kill()
        shutil.rmtree(scratch, ignore_errors=True)


# ------------------------------------------------------------------------------------------ model side
def pre_entry(pre):
    return {"none": "Absent", "oldzip": "(Zip true (zseq 1500 %s))" % cnat(OLD_NZ),
            "olddir": "(Dir (zseq 1000 %s))" % cnat(OLD_N), "other": "(Other 7)"}[pre]


def scen_expr(fixed, store, mode, pre, n, nz):
    return "scen %s %s %s %s %s %s" % ("true" if fixed else "false", "SZip" if store == "zip" else "SDir",
                                       "MW" if mode == "w" else "MO", pre_entry(pre), cnat(n), cnat(nz))


def align(model_kinds, state_seq, pre):
    """positions in the model program of the effects the implementation shows as events: the
    existence check is not an event; RemoveTarget is a no-op (no event) when there is no target.
    Returns (shape_ok, pos) with pos[s] = model index of the s-th state-changing event."""
    eff = [(i, KIND_NAME[k]) for i, k in enumerate(model_kinds)
           if KIND_NAME[k] != "check" and not (KIND_NAME[k] == "remove" and pre == "none")]
    return [k for _, k in eff] == list(state_seq), [i for i, _ in eff]


def model_row(rows, k):
    c, unmod, out, frame = rows[min(k, len(rows) - 1)]
    return {"class": CLASS_NAME[c], "target_unmodified": bool(unmod), "outcome": out, "frame": bool(frame)}


def fault_key(store, kind):
    return "partial-loadable/%s/fault-at-%s" % (store, {"pure": "w"}.get(kind, kind))


# ------------------------------------------------------------------------------------------ comparison
def oracle(job, obs, kind):
    """the property text, on what the implementation left behind; returns [(key, what)]"""
    bad = []
    where = "store=%s mode=%s pre-existing=%s path-form=%s" % (job["store"], job["mode"], job["pre"], job.get("path_form", "exact"))
    if obs["class"] == "partial":
        bad.append((fault_key(job["store"], kind),
                    "after a failed save (%s; fault %s) load(target) returns a PARTIAL object: %s"
                    % (where, kind, obs["detail"])))
    if job["mode"] == "w" and job["pre"] != "none" and not obs["target_unmodified"]:
        bad.append(("write-once-target-modified/%s/%s" % (job["store"], job["pre"]),
                    "mode 'w' modified an existing target (%s)" % where))
    if obs["siblings_changed"]:
        bad.append(("other-path-altered/%s" % job["store"],
                    "save altered paths other than its target (%s): %s" % (where, obs["siblings_changed"][:6])))
    if obs["temp_leftovers"]:
        bad.append(("temp-left-behind/%s" % job["store"],
                    "save left temporary files behind (%s): %s" % (where, obs["temp_leftovers"][:6])))
    return bad


def check_results(ctx: Ctx, jobs, results):
    # ---- model expressions (need n, nz from the recorded traces)
    exprs, owners = [], []
    for job in jobs:
        res = results.get(job["id"])
        if res is None or "harness_error" in res:
            raise RuntimeError("C08 job %s failed in the worker: %s" % (job["id"], (res or {}).get("harness_error")))
        if job["kind"] == "natural":
            nat = res["natural"]
            done = [e[0] for e, c in zip(nat["events"], nat["completed"]) if c]
            n, nz = done.count("w") + 1, max(1, done.count("z"))
        else:
            sk = res["clean"]["state_kinds"]
            n, nz = sk.count("w"), sk.count("z")
            if job["mode"] == "w" and job["pre"] != "none":
                n, nz = 3, 2          # the save stops at the existence check: any object
        job["n"], job["nz"] = n, nz
        exprs.append("(%s, %s)" % (scen_expr(True, job["store"], job["mode"], job["pre"], n, nz),
                                   scen_expr(False, job["store"], job["mode"], job["pre"], n, nz)))
        owners.append(job)
    vals = ctx.coq_eval("scen", PRE, exprs, shard=12)

    n_dis = 0
    sampled = 0
    for job, val in zip(owners, vals):
        kinds_f, rows_f, (kinds_u, rows_u) = val      # Coq prints ((a, b), (c, d)) as (a, b, (c, d))
        res = results[job["id"]]
        cfg = "%s/%s/%s" % (job["store"], job["mode"], job["pre"])
        base_replay = {"kind": job["kind"], "spec": job["spec"], "old_spec": job.get("old_spec"), "store": job["store"], "path_form": job.get("path_form", "exact"),
                       "mode": job["mode"], "pre": job["pre"], "graph": job.get("graph")}
        oracle_failed_here = False

        def report_oracle(obs, kind, extra):
            nonlocal oracle_failed_here
            for key, what in oracle(job, obs, kind):
                oracle_failed_here = True
                ctx.violation(key, what, {**base_replay, **extra, "impl": obs})

        # ---------------- natural failure
        if job["kind"] == "natural":
            nat = res["natural"]
            done_state = [e[0] for e, c in zip(nat["events"], nat["completed"]) if c and e[0] in _state_kinds()]
            ctx.dist("natural/%s" % job["bad_kind"])
            ctx.dist("config/%s" % cfg)
            ctx.dist("class/%s" % nat["class"])
            ctx.count(("nat", json.dumps(job["spec"]), cfg), nontrivial=len(done_state) > 1)
            ctx.cov["traces_validated_against_impl"] += 1
            report_oracle(nat, "natural", {"natural": True, "bad_pos": job["bad_pos"], "bad_kind": job["bad_kind"]})
            if nat["outcome"] in ("done",):
                ctx.violation("natural-failure-swallowed", "save() returned normally although serialising attribute %s "
                              "raised (%s)" % (job["spec"][job["bad_pos"]][0], cfg), {**base_replay, "impl": nat})
                continue
            ok, pos = align(kinds_f, done_state, job["pre"])
            # the completed events must be a prefix of the model's program
            eff_f = [KIND_NAME[k] for i, k in enumerate(kinds_f) if i in pos]
            prefix_ok = eff_f[:len(done_state)] == done_state
            k = pos[len(done_state)] if len(done_state) < len(pos) else len(kinds_f)
            mr = model_row(rows_f, k)
            same = prefix_ok and (mr["class"], mr["target_unmodified"], mr["outcome"]) == (
                nat["class"], nat["target_unmodified"], outcome_code(nat["outcome"]))
            if not same:
                n_dis += 1
                ctx.cov["disagreements_checked"] += 1
                ctx.violation("fault-outcome-correspondence",
                              "natural failure (attribute #%d = %s, %s): implementation left class=%s unmodified=%s "
                              "outcome=%s, the model of the atomic protocol says %s at k=%d%s"
                              % (job["bad_pos"], job["bad_kind"], cfg, nat["class"], nat["target_unmodified"],
                                 nat["outcome"], mr, k, "" if prefix_ok else " (event prefix differs from the model program)"),
                              {**base_replay, "natural": True, "impl": nat, "model": mr, "k": k},
                              found_input=oracle_failed_here)
            continue

        # ---------------- enumeration
        clean, faults = res["clean"], res["faults"]
        sk = clean["state_kinds"]
        ctx.dist("config/%s" % cfg)
        ctx.dist("trace_len/%s" % ("<=10" if len(clean["events"]) <= 10 else "<=30" if len(clean["events"]) <= 30
                                   else "<=60" if len(clean["events"]) <= 60 else ">60"))
        report_oracle(clean, "none", {"inject_at": None})
        model_clean = model_row(rows_f, len(kinds_f))
        blocked = model_clean["outcome"] == 1
        if blocked:
            shape_ok, pos = (sk == []), []
        else:
            shape_ok, pos = align(kinds_f, sk, job["pre"])
        shape_unfixed_ok = (sk == []) if blocked else align(kinds_u, sk, job["pre"])[0]
        ctx.count(("enum-clean", json.dumps(job["spec"]), cfg), nontrivial=not blocked)
        ctx.cov["traces_validated_against_impl"] += 1
        if not shape_ok:
            n_dis += 1
            ctx.cov["disagreements_checked"] += 1
            any_oracle = oracle_failed_here or any(oracle(job, f, clean["events"][f["j"]][0]) for f in faults)
            ctx.violation("protocol-correspondence",
                          "the effects save() performs (%s) are not those of the atomic protocol the theorems are about "
                          "(%s) for %s%s" % (compress(sk), compress([KIND_NAME[k] for k in kinds_f]), cfg,
                                             "; they ARE those of the unrepaired protocol save_prog_unfixed, for which "
                                             "the property is refuted (C08_no_partial_loadable_refuted_*)"
                                             if shape_unfixed_ok else ""),
                          {**base_replay, "impl_effects": sk, "model_effects": [KIND_NAME[k] for k in kinds_f],
                           "matches_unfixed_model": shape_unfixed_ok}, found_input=any_oracle)
        if not shape_ok and shape_unfixed_ok and not blocked:
            # diagnosis: does the code behave as the model of the UNREPAIRED protocol says, fault by fault?
            # (where that model says "partial", load may also fail deeper inside a half-written group)
            _, pos_u = align(kinds_u, sk, job["pre"])
            agree = total = 0
            for f in faults:
                s_ = sum(1 for e in clean["events"][:f["j"]] if e[0] in _state_kinds())
                mu = model_row(rows_u, pos_u[s_] if s_ < len(pos_u) else len(kinds_u))
                total += 1
                agree += (mu["target_unmodified"] == f["target_unmodified"] and
                          (mu["class"] == f["class"] or (mu["class"] == "partial" and f["class"] == "unreadable")))
            ua = ctx.cov.setdefault("agreement_with_model_of_unrepaired_protocol", {"agree": 0, "total": 0})
            ua["agree"] += agree
            ua["total"] += total
        # clean run vs model (no fault)
        same = (model_clean["class"], model_clean["target_unmodified"], model_clean["outcome"]) == (
            clean["class"], clean["target_unmodified"], outcome_code(clean["outcome"]))
        if not same:
            n_dis += 1
            ctx.cov["disagreements_checked"] += 1
            ctx.violation("clean-save-correspondence",
                          "uninterrupted save (%s): implementation class=%s unmodified=%s outcome=%s, model %s"
                          % (cfg, clean["class"], clean["target_unmodified"], clean["outcome"], model_clean),
                          {**base_replay, "inject_at": None, "impl": clean, "model": model_clean},
                          found_input=oracle_failed_here)
        for f in faults:
            j = f["j"]
            kind = clean["events"][j][0]
            ctx.dist("fault_at/%s" % kind)
            ctx.dist("class/%s" % f["class"])
            ctx.dist("exc/%s" % f["exc"])
            ctx.count(("enum", json.dumps(job["spec"]), cfg, j), nontrivial=True)
            ctx.cov["traces_validated_against_impl"] += 1
            extra = {"inject_at": j, "exc": f["exc"], "event": clean["events"][j]}
            before = oracle_failed_here
            oracle_failed_here = False
            report_oracle(f, kind, extra)
            this_failed = oracle_failed_here
            oracle_failed_here = before or this_failed
            if not f["prefix_ok"] or not f["fired"]:
                ctx.violation("nondeterministic-trace", "the faulted run did not follow the recorded trace (%s, j=%d)" % (cfg, j),
                              {**base_replay, **extra, "impl": f}, found_input=this_failed)
                continue
            if not shape_ok:
                continue
            if blocked:
                # an event before the existence check (none today): nothing may have happened yet
                if (f["class"], f["target_unmodified"]) != (model_clean["class"], True):
                    n_dis += 1
                    ctx.violation("fault-outcome-correspondence", "fault before the existence check changed the target (%s)" % cfg,
                                  {**base_replay, **extra, "impl": f}, found_input=this_failed)
                continue
            s = sum(1 for e in clean["events"][:j] if e[0] in _state_kinds())
            k = pos[s] if s < len(pos) else len(kinds_f)
            mr = model_row(rows_f, k)
            same = (mr["class"], mr["target_unmodified"], mr["outcome"]) == (
                f["class"], f["target_unmodified"], outcome_code(f["outcome"]))
            if not mr["frame"]:
                raise RuntimeError("model frame check failed (contradicts C08_frame): %s k=%d" % (cfg, k))
            if not same:
                n_dis += 1
                ctx.cov["disagreements_checked"] += 1
                ctx.violation("fault-outcome-correspondence",
                              "fault before event %d (%s) of %s: implementation left class=%s unmodified=%s outcome=%s, "
                              "the model says %s at k=%d" % (j, clean["events"][j][:2], cfg, f["class"],
                                                             f["target_unmodified"], f["outcome"], mr, k),
                              {**base_replay, **extra, "impl": f, "model": mr, "k": k}, found_input=this_failed)
        if sampled < 4 and faults and not blocked:
            sampled += 1
            mid = faults[len(faults) // 2]
            ctx.sample({"config": cfg, "n_item_writes": job["n"], "n_zip_members": job["nz"], "effects": compress(sk),
                        "fault_before_event": clean["events"][mid["j"]], "exception": mid["exc"],
                        "impl": {"class": mid["class"], "target_unmodified": mid["target_unmodified"],
                                 "outcome": mid["outcome"], "siblings_changed": mid["siblings_changed"]},
                        "classes_over_k": compress([f["class"] for f in faults] + [clean["class"]])})
    ctx.log("enumeration: %d scenarios, %d disagreements with the model" % (len(owners), n_dis))
    ua = ctx.cov.get("agreement_with_model_of_unrepaired_protocol")
    if ua:
        ctx.log("the code follows the UNREPAIRED protocol; fault-by-fault agreement with save_prog_unfixed: %d/%d"
                % (ua["agree"], ua["total"]))


def _state_kinds():
    return ("mktemp", "mkdir", "w", "zopen", "z", "zclose", "remove", "rename")


def compress(seq):
    out = []
    for x in seq:
        if out and out[-1][0] == x:
            out[-1][1] += 1
        else:
            out.append([x, 1])
    return " ".join(x if n == 1 else "%s*%d" % (x, n) for x, n in out)


# ------------------------------------------------------------------------------------------ entry points
def run(ctx: Ctx):
    ctx.hash_sources("core/io/serialize.py",
                     ["AutoSerialize.save", "AutoSerialize._recursive_save", "AutoSerialize._serialize_value",
                      "AutoSerialize._serialize_container", "AutoSerialize._write_ndarray", "AutoSerialize._write_bytes",
                      "load"])
    ctx.cov["rule"] = (
        "a case = (object graph, store, mode, pre-existing target in {none, earlier archive, earlier directory, other "
        "file}, position j of the injected exception among the primitive effects of the recorded trace) or (graph with "
        "an unserialisable attribute at position i, store, mode, pre-existing); graphs are seeded random attribute "
        "lists over 24 value kinds (scalars, arrays, tensors, containers, nested objects, dill fallback); every j of "
        "every trace is enumerated; a case is distinct by (graph, configuration, j) and non-trivial when the save gets "
        "past the existence check")
    ctx.assumptions += [
        "a fault is an exception raised between Python-level effects (before a hooked primitive runs); OS crashes, "
        "fsync and rename atomicity are not modelled",
        "clean-up handlers (TemporaryDirectory.__exit__, ZipFile.__exit__) themselves do not fail",
        "zarr LocalStore writes each key atomically (temp + replace) and os.replace within one directory is atomic",
        "load() is a deterministic function of the bytes of the target",
    ]
    ctx.cov["trusted_base"] += [
        "Coq 8.16.1 kernel incl. vm_compute (used to run the model); no native_compute; no axioms",
        "hand-written model coq/model/C08_Model.v (effects, handlers, load acceptance) tied to /repo by the fault enumeration",
        "harness/impl_C08.py: the list of hooked primitives is the definition of 'write operation' (zarr group/array/"
        "attribute mutators, ZipFile open/write/end-record, tempfile, os/shutil remove/rename/makedirs on the target)",
        "harness/props/C08.py (generators, trace-to-program alignment, classification by canonical form of the loaded object)",
    ]
    ctx.proofs_or_violation()
    jobs = gen_jobs(ctx)
    ctx.log("%d scenarios (%d enumerated, %d natural failures)" % (
        len(jobs), sum(j["kind"] == "enum" for j in jobs), sum(j["kind"] == "natural" for j in jobs)))
    results = run_workers(ctx, jobs)
    ctx.log("implementation runs finished")
    check_results(ctx, jobs, results)


def replay(ctx: Ctx, path):
    rp = json.loads(open(path).read())
    if "spec" not in rp:
        print("replay names a proof obligation / correspondence batch: re-run ./check C08")
        print(rp.get("what"))
        return 0
    from .. import impl_C08 as I
    job = {"id": 0, "kind": "natural" if rp.get("natural") else ("single" if rp.get("inject_at") is not None else "enum"),
           "spec": rp["spec"], "old_spec": rp.get("old_spec"), "store": rp["store"], "path_form": rp.get("path_form", "exact"), "mode": rp["mode"], "pre": rp["pre"],
           "inject_at": rp.get("inject_at"), "exc": rp.get("exc", "os")}
    scratch = tempfile.mkdtemp(prefix="verif_c08_replay_")
    try:
        res = I.run_job(job, scratch)
    finally:
        shutil.rmtree(scratch, ignore_errors=True)
    bad = []
    if job["kind"] == "natural":
        obs = [("natural", res["natural"])]
    else:
        obs = [("none", res["clean"])] if job["kind"] == "enum" else []
        for f in res.get("faults", []):
            obs.append((res["clean"]["events"][f["j"]][0], f))
    for kind, o in obs:
        print("fault at: %-8s outcome=%-8s class=%-10s target_unmodified=%s siblings_changed=%s temp_leftovers=%s %s" % (
            kind if "j" not in o else "%s#%d" % (kind, o["j"]), o["outcome"], o["class"], o["target_unmodified"],
            o["siblings_changed"], o["temp_leftovers"], o["detail"]))
        bad += oracle(job, o, kind)
    if job["kind"] != "natural":
        sk = res["clean"]["state_kinds"]
        v = ctx.coq_eval("replay", PRE, [scen_expr(True, job["store"], job["mode"], job["pre"], sk.count("w"), sk.count("z"))])[0]
        print("implementation effects:", compress(sk))
        print("model (atomic protocol) effects:", compress([KIND_NAME[k] for k in v[0]]))
        print("model classes over k:", compress([CLASS_NAME[r[0]] for r in v[1]]))
    for key, what in bad:
        print("oracle: [%s] %s" % (key, what))
    if not bad:
        print("oracle: property holds on this case")
    return 1 if bad else 0
