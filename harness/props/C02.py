"""C02 — the ptychography forward pipeline reproduces independently simulated data (PARTIAL).

Proved (coq/props/C02_Properties.v, all sizes): the index / convention / normalisation / loss
algebra the pipeline depends on.  VALIDATED on every run (not proved): the end-to-end equality —
harness/c02_sim.py (independent float64 NumPy simulator, no quantem calls) generates 4D data
from a known intensity-conserving object, probe and raster; the data go through the library's
PUBLIC API and the library's forward chain + error_estimate is evaluated at the ground truth:

  ORACLE   every loss ~ 0 (relative to the loss at a perturbed object / probe), strictly larger
           at a perturbed object and at a perturbed probe, batch-fraction-weighted sum of the
           batch losses = full loss, library positions = simulated positions + constant integer.
  TIE      Z-level model (patch indices, rounding split, centring/fftshift permutations,
           detector DC position) vs the real arrays.
"""
from __future__ import annotations

import json
import math
import random
from fractions import Fraction

import numpy as np

from .. import c02_sim as sim
from ..common import Ctx, cz, cq, clist

LEVEL = "proof"

LOSSES = ["l2_amplitude", "l1_amplitude", "l2_intensity", "l1_intensity"]
# loss(ground truth) <= ZERO_RATIO * min(loss(perturbed object), loss(perturbed probe)), the
# perturbations being PERT rad rms-scale phase errors.  Float32 pipeline: measured ratios are
# <= 3e-6 (l1) / 1e-10 (l2) over the generated families (see evidence "max_ratio"); the thresholds
# leave a factor >= 100.  A convention error (index, sign, shift, normalisation) gives ratios >= 1e-2.
ZERO_RATIO = {"l2_amplitude": 1e-7, "l2_intensity": 1e-7, "l1_amplitude": 5e-4, "l1_intensity": 5e-4}
PERT = 0.15
I0 = 1000.0
ENERGIES = [60e3, 80e3, 200e3, 300e3]

PRE = """From QV.lib Require Import Prelude.
From QV.model Require Import C02_Model.
From Coq Require Import QArith.
Local Close Scope Q_scope.
"""


# --------------------------------------------------------------------------------------------
# driving the real library (public API; recipe of harness/toy_ptycho.py)

def lib_build(data4d, scan_step_A, recip, energy, obj_arr, obj_type, thick, probe_arr, pad, com, nprobes,
              probe_weights=None):
    import torch  # noqa
    from quantem.core.datastructures import Dataset4dstem
    from quantem.diffractive_imaging.dataset_models import PtychographyDatasetRaster
    from quantem.diffractive_imaging.detector_models import DetectorPixelated
    from quantem.diffractive_imaging.object_models import ObjectPixelated
    from quantem.diffractive_imaging.probe_models import ProbePixelated
    from quantem.diffractive_imaging.ptychography import Ptychography

    d = Dataset4dstem.from_array(
        np.asarray(data4d, dtype=np.float32),
        sampling=(scan_step_A[0], scan_step_A[1], recip[0], recip[1]), units=("A", "A", "A^-1", "A^-1"))
    pd = PtychographyDatasetRaster.from_dataset4dstem(d, verbose=0)
    pd.preprocess(com_fit_function=com, plot_rotation=False, plot_com=False, probe_energy=energy,
                  force_com_rotation=0, force_com_transpose=False)
    st = list(thick) if len(thick) else None
    if obj_arr is None:
        om = ObjectPixelated.from_uniform(num_slices=len(thick) + 1, slice_thicknesses=st, obj_type=obj_type)
    else:
        om = ObjectPixelated.from_array(obj_arr, slice_thicknesses=st, obj_type=obj_type)
    pm = ProbePixelated.from_array(np.asarray(probe_arr, dtype=np.complex64), num_probes=nprobes,
                                   probe_params={"energy": energy}, initial_probe_weights=probe_weights)
    pt = Ptychography.from_models(dset=pd, obj_model=om, probe_model=pm, detector_model=DetectorPixelated(),
                                  rng=1, verbose=0)
    pt.preprocess(obj_padding_px=tuple(int(p) for p in pad))
    return pt


def lib_forward(pt, batch, loss_type):
    """the library's forward chain exactly as the inner loop of Ptychography.reconstruct runs it
    (dset.forward -> probe_model.forward -> obj_model.forward -> forward_operator ->
    detector_model.forward -> error_estimate), at the current parameters"""
    bi = np.asarray(batch)
    pt.dset._set_targets(loss_type)
    patch_indices, _pos, frac, descan = pt.dset.forward(bi, pt.obj_padding_px)
    shifted = pt.probe_model.forward(frac)
    patches = pt.obj_model.forward(patch_indices)
    _pp, overlap = pt.forward_operator(patches, shifted, descan)
    pred = pt.detector_model.forward(overlap)
    loss, _ = pt.error_estimate(pred, bi, loss_type=loss_type)
    return float(loss), pred


def lib_reconstruct_loss(pt, batch_size, loss_type, orthogonalize):
    """one epoch of the REAL reconstruct() loop at fixed parameters (the optimiser step is replaced
    by a gradient recorder on the instance): returns (mean of the batch losses, |grad obj|, |grad probe|)"""
    rec = []

    def recorder():
        go = pt.obj_model._obj.grad
        gp = pt.probe_model._probe.grad
        rec.append((0.0 if go is None else float(go.abs().max()), 0.0 if gp is None else float(gp.abs().max())))

    pt.step_optimizers = recorder
    try:
        pt.reconstruct(num_iters=1, reset=False,
                       optimizer_params={"object": {"type": "sgd", "lr": 1e-9}, "probe": {"type": "sgd", "lr": 1e-9}},
                       batch_size=batch_size, constraints={"probe": {"orthogonalize_probe": bool(orthogonalize)}},
                       loss_type=loss_type)
    finally:
        del pt.step_optimizers
    return float(pt._iter_losses[-1]), max(r[0] for r in rec), max(r[1] for r in rec), len(rec)


class _Saved:
    """temporarily replace the object / probe parameters of the library models"""

    def __init__(self, pt):
        self.pt = pt

    def __enter__(self):
        self.o = self.pt.obj_model._obj.data.clone()
        self.p = self.pt.probe_model._probe.data.clone()
        return self

    def __exit__(self, *a):
        import torch
        with torch.no_grad():
            self.pt.obj_model._obj.data = self.o
            self.pt.probe_model._probe.data = self.p


def set_obj(pt, arr, kind):
    import torch
    with torch.no_grad():
        dt = pt.obj_model._obj.data.dtype
        pt.obj_model._obj.data = torch.tensor(np.asarray(arr), dtype=dt)


# --------------------------------------------------------------------------------------------
# cases

def _no_ties(g, step):
    return all(abs(((i * step) % 1.0) - 0.5) > 0.03 for i in range(g))


def lib_geometry(roi, gpts, step_px, pad, recip, energy, thick=(), nm=1, kind="complex"):
    """what the library's own preprocessing chooses for this scan: object period (H, W), effective
    padding, scan positions (before / after its hard constraints).  Dry run on dummy data."""
    roi, gpts = tuple(roi), tuple(gpts)
    pix = sim.pixel_size(roi, recip)
    step_A = (step_px[0] * pix[0], step_px[1] * pix[1])
    pt0 = lib_build(np.ones(gpts + roi), step_A, recip, energy, None, kind, list(thick),
                    np.ones((nm,) + roi, complex), pad, "no_shift", nm)
    h, w = [int(x) for x in pt0.obj_shape_full[-2:]]
    pos0 = pt0.dset.scan_positions_px.detach().cpu().numpy().astype(np.float64)
    pt0.dset.forward(np.arange(gpts[0] * gpts[1]), pt0.obj_padding_px)
    pos1 = pt0.dset.scan_positions_px.detach().cpu().numpy().astype(np.float64)
    return {"shape": (h, w), "pad_eff": [int(x) for x in pt0.obj_padding_px], "pos_preprocess": pos0, "pos_forward": pos1}


def _symmetric_geometry(r, roi, recip, energy):
    """a raster whose library object has period = ROI (so that the inversion symmetry used for
    the `constant` precondition is exact): found by asking the library, not by assuming its
    shape policy.  Returns (gpts, step_px, pad) or None."""
    cands = []
    for ax, nn in enumerate(roi):
        opts = []
        for g in range(2, 9):
            for e in range(2, nn, 2):                 # raster extent (px), even -> integer centre
                st = e / (g - 1)
                if 1.0 <= st <= 6.0 and _no_ties(g, st):
                    for pad in range(0, nn // 2):
                        opts.append((g, st, pad))
        r.shuffle(opts)
        cands.append(opts)
    for k in range(60):
        a, b = cands[0][k % len(cands[0])], cands[1][(k * 7 + 3) % len(cands[1])]
        # the two axes are searched jointly but cheaply: accept the first pair whose period is the ROI
        try:
            geo = lib_geometry(roi, (a[0], b[0]), (a[1], b[1]), (a[2], b[2]), recip, energy)
        except Exception:
            continue
        if geo["shape"] == tuple(roi):
            return [a[0], b[0]], [a[1], b[1]], [a[2], b[2]]
        # keep the axis that already matches, advance the other
        if geo["shape"][0] == roi[0]:
            cands[0] = [a] * len(cands[0])
        if geo["shape"][1] == roi[1]:
            cands[1] = [b] * len(cands[1])
    return None


def gen_case(r: random.Random, family: str, quick=True) -> dict:
    """a JSON-serialisable description of one simulated experiment"""
    c = {"family": family, "seed": r.randrange(1 << 30), "com": "no_shift", "descan": [0, 0], "even_obj": False}
    c["energy"] = r.choice(ENERGIES)
    c["kind"] = r.choice(["complex", "pure_phase", "potential"])
    c["slices"] = r.choice([1, 1, 2, 3, 4])
    c["modes"] = r.choice([1, 1, 2, 3])
    if family == "odd":
        c["roi"] = r.choice([[7, 7], [9, 7], [7, 8], [11, 9]])
    elif family == "constant":
        c["roi"] = r.choice([[8, 8], [16, 16], [8, 16], [16, 8]])
    elif family == "odd-constant":
        c["roi"] = r.choice([[7, 7], [9, 9], [7, 9]])
    else:
        c["roi"] = r.choice([[8, 8], [8, 12], [12, 8], [10, 10], [12, 16], [16, 16], [6, 10], [14, 8]])
    n, m = c["roi"]
    lam = sim.wavelength_A(c["energy"])
    if family in ("constant", "odd-constant"):
        # inversion-symmetric experiment: object period = ROI (asked from the library), raster
        # symmetric about its centre, even object, even/odd probe modes, weak smooth object, small
        # round aperture -> the mean centre of mass is the detector centre (+ injected integer)
        c["com"] = "constant"
        c["even_obj"] = True
        dk = r.uniform(0.006, 0.012) / lam            # same angular pixel on both axes
        c["recip"] = [dk, dk]
        small = min(n, m) <= 9
        c["strength"] = 0.08 if small else 0.3
        rad_px = r.uniform(1.45, 1.9) if small else r.uniform(2.2, 3.2)
        c["semiangle_mrad"] = rad_px * dk * lam * 1e3
        if family == "constant":
            geo = _symmetric_geometry(r, c["roi"], c["recip"], c["energy"])
            if geo is None:
                c["gpts"], c["step_px"], c["pad"] = [4, 4], [2.0, 2.0], [1, 1]
                c["no_symmetric_geometry"] = True
            else:
                c["gpts"], c["step_px"], c["pad"] = geo
        else:
            c["gpts"], c["step_px"], c["pad"] = [r.choice([3, 4]), r.choice([3, 4])], [2.0, 2.0], [1, 1]
        c["descan"] = [r.choice([-1, 0, 1]), r.choice([-1, 0, 1])] if min(n, m) >= 16 else [0, 0]
        c["aberr"] = {"C10": r.uniform(-60, 60), "C30": r.choice([0.0, 2e4]), "C12": r.uniform(0, 20), "phi12": r.uniform(0, 3)}
    else:
        # reciprocal pixel (1/A): chosen so that the Nyquist angle is 30..60 mrad
        nyq = [r.uniform(0.030, 0.060) for _ in range(2)]
        c["recip"] = [nyq[0] / lam / (n // 2), nyq[1] / lam / (m // 2)]
        gmax = 4 if quick else 6
        c["gpts"] = [r.randint(2, gmax), r.randint(2, gmax)]
        steps = []
        for g in c["gpts"]:
            while True:
                st = r.choice([r.choice([1.0, 2.0, 3.0]), r.uniform(0.8, 4.5), r.uniform(0.8, 4.5)])
                if _no_ties(g, st):
                    break
            steps.append(st)
        c["step_px"] = steps
        c["pad"] = [r.choice([0, 0, 1, 2, 3, 5, 8]), r.choice([0, 0, 1, 2, 4, 6])]
        c["strength"] = r.uniform(0.3, 1.2)
        c["semiangle_mrad"] = r.uniform(0.35, 0.8) * min(nyq) * 1e3
        c["aberr"] = {"C10": r.uniform(-80, 80), "C30": r.choice([0.0, 0.0, 1e4, 5e4]), "C12": r.choice([0.0, r.uniform(0, 30)]),
                      "phi12": r.uniform(0, 3)}
    c["thick"] = [round(r.uniform(1.0, 12.0), 3) for _ in range(c["slices"] - 1)]
    w = sorted([r.uniform(0.2, 1.0) for _ in range(c["modes"])], reverse=True)
    w = [w[i] * (0.55 ** i) for i in range(len(w))]
    c["weights"] = [x / sum(w) for x in w]
    c["orthogonalize"] = r.random() < 0.5
    c["probe_pert"] = r.choice(["defocus", "amplitude"])
    return c


def case_key(c):
    return (c["family"], tuple(c["roi"]), tuple(c["gpts"]), c["kind"], c["slices"], c["modes"], tuple(c["pad"]),
            tuple(round(s, 3) for s in c["step_px"]), c["com"], tuple(c["descan"]))


class CaseResult(dict):
    pass


def perturb_object(param, kind, seed, amount=PERT):
    r = random.Random(seed + 17)
    s_, h, w = param.shape
    d = np.stack([sim.smooth_field(r, (h, w), kmax=min(4, max(1, min(h, w) // 3))) for _ in range(s_)]) * amount
    if kind == "potential":
        return np.maximum(param + d + amount, 0.0)       # stays a valid (non-negative) potential; not a constant offset
    return param * np.exp(1j * d)


def perturb_probe(case, psi_k):
    n, m = case["roi"]
    if case["probe_pert"] == "defocus":
        lam = sim.wavelength_A(case["energy"])
        kr = sim.centred_freq_index(n)[:, None] * case["recip"][0]
        kc = sim.centred_freq_index(m)[None, :] * case["recip"][1]
        al2 = (kr ** 2 + kc ** 2) * lam ** 2
        amax = (case["semiangle_mrad"] * 1e-3) ** 2
        # extra defocus giving a phase error of ~4*PERT rad at the aperture edge
        dchi = 4 * PERT * al2 / max(amax, 1e-30)
        return psi_k * np.exp(-1j * dchi)[None]
    # amplitude modulation across the aperture (keeps the total intensity to first order)
    kr = sim.centred_freq_index(n)[:, None] / max(1, n // 2)
    return psi_k * (1.0 + 4 * PERT * np.sign(kr + 0.01) * np.ones((1, m)))[None]


def run_case(c: dict, want_arrays=False) -> CaseResult:
    """simulate, feed through the library, evaluate.  Returns observables (JSON-serialisable)."""
    res = CaseResult(case=c, problems=[])
    roi, gpts, recip, energy = tuple(c["roi"]), tuple(c["gpts"]), tuple(c["recip"]), c["energy"]
    n, m = roi
    npos = gpts[0] * gpts[1]
    pix = sim.pixel_size(roi, recip)
    step_A = (c["step_px"][0] * pix[0], c["step_px"][1] * pix[1])
    nm = c["modes"]
    # 1. geometry chosen by the library (object period, raster offset): dry run on dummy data
    geo = lib_geometry(roi, gpts, c["step_px"], c["pad"], recip, energy, c["thick"], nm, c["kind"])
    h, w = geo["shape"]
    libpos, libpos_fwd = geo["pos_preprocess"], geo["pos_forward"]
    simpos = sim.raster_positions(gpts, c["step_px"])
    off = libpos_fwd - simpos
    offi = np.round(off.mean(axis=0))
    res["obj_shape"] = [h, w]
    res["pad_eff"] = geo["pad_eff"]
    res["offset"] = [float(x) for x in off.mean(axis=0)]
    res["offset_spread"] = float(np.abs(off - offi[None]).max())
    res["offset_spread_preprocess"] = float(np.abs(libpos - simpos - np.round((libpos - simpos).mean(axis=0))[None]).max())
    offi = offi.astype(int)
    # 2. simulate
    r = random.Random(c["seed"])
    psi_k = sim.probe_fourier_modes(roi, recip, energy, c["semiangle_mrad"], c["aberr"], nm, c["weights"], I0)
    param, trans = sim.make_object(r, (h, w), c["slices"], c["kind"], strength=c["strength"], even=c["even_obj"],
                                   kmax=1 if c["even_obj"] else 3)
    if c["even_obj"]:
        # inversion centre of the raster (simulation frame: raster starts at 0)
        cen = [(gpts[0] - 1) * c["step_px"][0] / 2.0, (gpts[1] - 1) * c["step_px"][1] / 2.0]
        sh = [int(round(cen[0])), int(round(cen[1]))]
        if abs(cen[0] - sh[0]) > 1e-9 or abs(cen[1] - sh[1]) > 1e-9:
            res["problems"].append("non-integer raster centre")
        param = np.roll(param, sh, axis=(-2, -1))
        trans = np.roll(trans, sh, axis=(-2, -1))
    data = sim.simulate(trans, psi_k, simpos, recip, energy, c["thick"])
    sums = data.sum(axis=(-2, -1))
    res["pattern_sum_dev"] = float(np.abs(sums / I0 - 1).max())
    if c["descan"] != [0, 0]:
        data = np.roll(data, tuple(c["descan"]), axis=(-2, -1))
    com = sim.centre_of_mass(data)
    res["mean_com"] = [com[0], com[1]]
    res["com_dev"] = [com[0] - (n / 2 + c["descan"][0]), com[1] - (m / 2 + c["descan"][1])]
    # 3. the library on the simulated data, ground truth installed
    gt = np.roll(param, tuple(offi), axis=(-2, -1))
    gt_lib = gt.astype(np.float32) if c["kind"] == "potential" else gt.astype(np.complex64)
    prb = sim.probe_real_space(psi_k)
    pt = lib_build(data.reshape(gpts + roi), step_A, recip, energy, gt_lib, c["kind"], c["thick"], prb, c["pad"],
                   c["com"], nm, probe_weights=c["weights"])
    res["mean_intensity"] = float(pt.dset.mean_diffraction_intensity)
    res["com_fit"] = [float(pt.dset.com_fit[0].mean()), float(pt.dset.com_fit[1].mean())]
    if nm == 1:
        # normalisation path: from_array was handed the probe at an arbitrary scale? (see run_norm_case)
        pass
    pt.probe_model.probe = prb.astype(np.complex64)          # public probe setter
    pt.constraints = {"probe": {"orthogonalize_probe": bool(c["orthogonalize"])}}
    allidx = np.arange(npos)
    pobj = perturb_object(param, c["kind"], c["seed"])
    pobj_lib = np.roll(pobj, tuple(offi), axis=(-2, -1))
    pprb = sim.probe_real_space(perturb_probe(c, psi_k)).astype(np.complex64)
    losses = {}
    preds = {}
    for lt in LOSSES:
        l_gt, pred = lib_forward(pt, allidx, lt)
        with _Saved(pt):
            set_obj(pt, pobj_lib, c["kind"])
            l_po, _ = lib_forward(pt, allidx, lt)
        with _Saved(pt):
            pt.probe_model.probe = pprb
            l_pp, _ = lib_forward(pt, allidx, lt)
        losses[lt] = {"gt": l_gt, "pert_obj": l_po, "pert_probe": l_pp}
        if want_arrays:
            preds[lt] = pred.detach().cpu().numpy()
    res["losses"] = losses
    # 4. batches: the batch-fraction-weighted sum of the batch losses equals the full loss
    #    (at the perturbed object, where the loss is not ~0), for a batch size that does not divide
    rb = random.Random(c["seed"] + 5)
    perm = list(range(npos))
    rb.shuffle(perm)
    bsz = rb.choice([1, 2, 3, max(1, npos // 2), max(1, npos - 1)])
    batches = [perm[i:i + bsz] for i in range(0, npos, bsz)]
    bl = {}
    with _Saved(pt):
        set_obj(pt, pobj_lib, c["kind"])
        for lt in LOSSES:
            full, _ = lib_forward(pt, allidx, lt)
            parts = [lib_forward(pt, b, lt)[0] for b in batches]
            wsum = sum(len(b) / npos * p for b, p in zip(batches, parts))
            bl[lt] = {"full": full, "weighted": wsum, "batch": bsz, "nb": len(batches),
                      "mean": sum(parts) / len(parts)}
    res["batch"] = bl
    # 5. the real reconstruct() loop at the ground truth (optimiser step replaced by a recorder)
    lt = LOSSES[c["seed"] % 4]
    rl, go, gp, nb = lib_reconstruct_loss(pt, bsz, lt, c["orthogonalize"])
    res["reconstruct"] = {"loss_type": lt, "batch": bsz, "loss": rl, "grad_obj": go, "grad_probe": gp, "nb": nb}
    with _Saved(pt):
        set_obj(pt, pobj_lib, c["kind"])
        rl2, go2, gp2, _ = lib_reconstruct_loss(pt, bsz, lt, c["orthogonalize"])
        res["reconstruct"].update({"loss_pert": rl2, "grad_obj_pert": go2, "grad_probe_pert": gp2})
    if want_arrays:
        res["_pt"] = pt
        res["_data"] = data
        res["_preds"] = preds
        res["_libpos"] = libpos_fwd
        res["_simpos"] = simpos
    return res


def oracle(res: CaseResult, claim_zero=True):
    """the property text evaluated on the implementation's output -> list of (key, what)"""
    c = res["case"]
    bad = []
    if res["offset_spread"] > 2e-3:
        bad.append(("scan-position-offset",
                    "library scan positions are not the simulated raster plus a constant integer offset: spread %.4g px "
                    "(offset %s, object %s, requested padding %s)" % (res["offset_spread"], res["offset"], res["obj_shape"], c["pad"])))
        return bad
    if res["pattern_sum_dev"] > 1e-9:
        bad.append(("harness-simulator-not-intensity-conserving", "simulated pattern sums deviate by %.3g" % res["pattern_sum_dev"]))
    if abs(res["mean_intensity"] / I0 - 1) > 1e-4:
        bad.append(("mean-diffraction-intensity", "mean_diffraction_intensity %.8g != simulated mean pattern sum %.8g" % (
            res["mean_intensity"], I0)))
    for lt, v in res["losses"].items():
        ref = min(v["pert_obj"], v["pert_probe"])
        if claim_zero:
            if not (v["gt"] <= ZERO_RATIO[lt] * ref):
                bad.append(("loss-not-zero-at-ground-truth/%s" % lt,
                            "%s at the ground truth = %.6g, not ~0 (perturbed object %.6g, perturbed probe %.6g; ratio %.3g > %.1g) "
                            "[%s, %d slice(s), %d mode(s), roi %s, scan %s step %s px, padding %s -> object %s, %s]" % (
                                lt, v["gt"], v["pert_obj"], v["pert_probe"], v["gt"] / max(ref, 1e-300), ZERO_RATIO[lt],
                                c["kind"], c["slices"], c["modes"], c["roi"], c["gpts"], [round(s, 3) for s in c["step_px"]],
                                c["pad"], res["obj_shape"], c["com"])))
        if not (v["pert_obj"] > v["gt"] and v["pert_probe"] > v["gt"]):
            bad.append(("loss-not-larger-at-perturbation/%s" % lt,
                        "%s: ground truth %.6g, perturbed object %.6g, perturbed probe %.6g" % (lt, v["gt"], v["pert_obj"], v["pert_probe"])))
    for lt, v in res["batch"].items():
        if abs(v["weighted"] - v["full"]) > 2e-4 * abs(v["full"]):
            bad.append(("loss-batch-fraction-scaling/%s" % lt,
                        "%s: sum over %d batches (size %d) of (batch fraction x batch loss) = %.8g but the full-batch loss is %.8g" % (
                            lt, v["nb"], v["batch"], v["weighted"], v["full"])))
    rc = res["reconstruct"]
    if claim_zero:
        lt = rc["loss_type"]
        if not (rc["loss"] <= ZERO_RATIO[lt] * rc["loss_pert"] * 3):
            bad.append(("reconstruct-loop-loss-not-zero/%s" % lt,
                        "one epoch of reconstruct() at the ground truth reports %s = %.6g (perturbed object: %.6g)" % (
                            lt, rc["loss"], rc["loss_pert"])))
        if "l2" in lt and not (rc["grad_obj"] <= 2e-2 * rc["grad_obj_pert"]):
            bad.append(("ground-truth-not-stationary/%s" % lt,
                        "object gradient of %s at the ground truth %.4g is not small against %.4g at the perturbed object" % (
                            lt, rc["grad_obj"], rc["grad_obj_pert"])))
    return bad
