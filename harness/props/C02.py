"""C02 — the ptychography forward pipeline reproduces independently simulated data (PARTIAL).

Proved (coq/props/C02_Properties.v, all sizes): the index / convention / normalisation / loss
algebra the pipeline depends on.  VALIDATED on every run (not proved): the end-to-end equality —
harness/c02_sim.py (independent float64 NumPy simulator, no quantem calls) generates 4D data
from a known intensity-conserving object, probe and raster; the data go through the library's
PUBLIC API and the library's forward chain + error_estimate is evaluated at the ground truth:

  ORACLE   every loss ~ 0 (relative to the loss at a perturbed object / probe), strictly larger
           at a perturbed object and at a perturbed probe, batch-fraction-weighted sum of the
           batch losses = full loss, library positions = simulated positions + constant integer.
  STEPS    per pipeline step, for sampled positions: window anchor, gathered object patches, placed
           probe, exit wave, detector prediction — library vs reference simulator.
  TIE      Z-level model (patch indices, rounding split incl. exact ties, centring/fftshift
           permutations, no_shift origin, detector DC position) vs the real arrays.

  HISTORY  (round 4) what was done to the SAME dataset / ptychography object before the final preprocessing must not matter:
           earlier dataset.preprocess calls with other options, earlier Ptychography.preprocess / reconstruct(num_iters=0) calls,
           the four losses evaluated in a per-case permuted order and evaluated again at the end (gen_history).
  SOURCE   (round 4) harness/c02_tie.py translates the index / cache / shape / target-selection / detector logic of the CURRENT
           source and re-proves on every run that it equals the model (coq/gen_proofs/C02_Gen*.v).

  MODES    (round 6) the ORDER and relative strength of the incoherent modes as the caller hands them to the public probe setter
           (gen_mode_order): strongest first / weakest first / unsorted, nearly equal weights, weights far apart, with the
           orthogonalisation constraint on (mutually orthogonal reference modes: the constraint may only re-order them) and off.
           The forward model is a SUM over the modes (theorem C02_mode_order_irrelevant): the losses must be ~0 for every order;
           the per-step tie matches library modes to reference modes (or compares the mode density operator), never by position.

Families (round 3): main (even ROI, no_shift; steps below one pixel, large padding, non-square objects),
odd (odd ROI sizes, no_shift — claimed since fixes/C02-no-shift-odd-roi.diff), half (scan positions on EXACT
half-integers, simulated in the library frame with the round-half-to-even anchor of C02_round_tie), line
(single scan line / single pattern), constant and odd-constant (claimed iff the measured precondition holds:
fitted origin = zero-frequency pixel + injected integer descan), constant-control (never claimed: shows that
the precondition check discriminates).
"""
from __future__ import annotations

import json
import math
import random
from fractions import Fraction

import numpy as np

from .. import c02_sim as sim
from ..common import Ctx, cz, cq, clist

LEVEL = "proof"

LOSSES = ["l2_amplitude", "l1_amplitude", "l2_intensity", "l1_intensity"]
# "zero to numerical precision":  loss(ground truth) <= ZERO_RATIO * max(loss(perturbed object),
# loss(perturbed probe)), the perturbations being PERT-rad-scale phase / 60 % amplitude errors.  The
# pipeline is float32: measured ratios over 472 thorough-tier cases are <= 4e-5 (l1) / 3e-9 (l2)
# under no_shift and <= 6e-5 (l1) / 5e-10 (l2) under `constant` (whose preprocessing shifts the
# amplitudes with a float32 FFT: looser bound); see "max_ratio" in the evidence.  The thresholds
# leave a factor >= 25; a convention error (index, sign, shift, normalisation, ordering) gives
# ratios >= 1e-2 (see the sensitivity list in the manifest note).
ZERO_RATIO = {"no_shift": {"l2_amplitude": 1e-7, "l2_intensity": 1e-7, "l1_amplitude": 1e-3, "l1_intensity": 1e-3},
              "constant": {"l2_amplitude": 1e-5, "l2_intensity": 1e-5, "l1_amplitude": 1e-2, "l1_intensity": 1e-2}}
COM_PRECONDITION = 2e-6      # |fitted constant origin - (centre + integer)| in pixels
# per-step tie (library float32 vs simulator float64): measured maxima over the thorough tier are in the
# evidence ("step_max"); thresholds leave a factor >= 50.  A convention error in a step gives O(0.1 .. 1).
STEP_TOL = {"anchor": 0, "patches": 2e-5, "placed_probe": 2e-4, "exit_wave": 5e-4, "detector": 5e-4}
PERT = 0.15
I0 = 1000.0
ENERGIES = [60e3, 80e3, 200e3, 300e3]

PRE = """From QV.lib Require Import Prelude.
From QV.model Require Import C02_Model.
From Coq Require Import QArith.
Local Close Scope Q_scope.
(* Q values cross the boundary as (numerator, denominator) of the reduced fraction *)
Definition qnd (q : Q) : Z * Z := (Qnum (Qred q), Z.pos (Qden (Qred q))).
"""


# --------------------------------------------------------------------------------------------
# driving the real library (public API; recipe of harness/toy_ptycho.py)

def lib_build(data4d, scan_step_A, recip, energy, obj_arr, obj_type, thick, probe_arr, pad, com, nprobes,
              probe_weights=None, history=None, hist_log=None):
    """public-API build of the ptychography object.  `history` (see gen_history) = what is done to the SAME dataset /
    ptychography object before the final preprocessing: earlier `PtychographyDatasetRaster.preprocess` calls with other
    options, earlier `Ptychography.preprocess` / `reconstruct(num_iters=0)` calls.  An exception raised BY AN EARLIER
    call is recorded in hist_log and the step skipped (an option the data do not support is not the property's
    business); the final calls are never guarded."""
    import torch  # noqa
    from quantem.core.datastructures import Dataset4dstem
    from quantem.diffractive_imaging.dataset_models import PtychographyDatasetRaster
    from quantem.diffractive_imaging.detector_models import DetectorPixelated
    from quantem.diffractive_imaging.object_models import ObjectPixelated
    from quantem.diffractive_imaging.probe_models import ProbePixelated
    from quantem.diffractive_imaging.ptychography import Ptychography

    history = history or {}
    hist_log = hist_log if hist_log is not None else []
    d = Dataset4dstem.from_array(
        np.asarray(data4d, dtype=np.float32),
        sampling=(scan_step_A[0], scan_step_A[1], recip[0], recip[1]), units=("A", "A", "A^-1", "A^-1"))
    pd = PtychographyDatasetRaster.from_dataset4dstem(d, verbose=0)
    for k, h in enumerate(history.get("dset", [])):
        try:
            pd.preprocess(com_fit_function=h["com"], plot_rotation=False, plot_com=False, probe_energy=energy,
                          force_com_rotation=h["rotation"], force_com_transpose=h["transpose"], bilinear=h["bilinear"],
                          obj_padding_px=tuple(h["pad"]), vectorized=h["vectorized"])
            hist_log.append(("dset", k, "ok"))
        except Exception as e:  # noqa: BLE001
            hist_log.append(("dset", k, "raised %s" % type(e).__name__))
    pd.preprocess(com_fit_function=com, plot_rotation=False, plot_com=False, probe_energy=energy,
                  force_com_rotation=0, force_com_transpose=False)
    st = list(thick) if len(thick) else None
    if obj_arr is None:
        om = ObjectPixelated.from_uniform(num_slices=len(thick) + 1, slice_thicknesses=st, obj_type=obj_type)
    else:
        om = ObjectPixelated.from_array(obj_arr, slice_thicknesses=st, obj_type=obj_type)
    pm = ProbePixelated.from_array(np.asarray(probe_arr, dtype=np.complex64), num_probes=nprobes,
                                   probe_params={"energy": energy}, initial_probe_weights=probe_weights)
    pt = Ptychography.from_models(dset=pd, obj_model=om, probe_model=pm, detector_model=DetectorPixelated(),
                                  rng=1, verbose=0)
    for k, h in enumerate(history.get("pt", [])):
        try:
            if h["op"] == "preprocess":          # earlier Ptychography.preprocess, possibly with another padding
                pt.preprocess(obj_padding_px=tuple(int(p) for p in h["pad"]))
            elif h["op"] == "reconstruct0":      # public selection of a loss' targets; needs a preprocessed object
                pt.reconstruct(num_iters=0, loss_type=h["loss"])
            hist_log.append(("pt", k, "ok"))
        except Exception as e:  # noqa: BLE001
            hist_log.append(("pt", k, "raised %s" % type(e).__name__))
    pt.preprocess(obj_padding_px=tuple(int(p) for p in pad))
    return pt


def lib_forward(pt, batch, loss_type):
    """the library's forward chain exactly as the inner loop of Ptychography.reconstruct runs it
    (dset.forward -> probe_model.forward -> obj_model.forward -> forward_operator ->
    detector_model.forward -> error_estimate), at the current parameters"""
    bi = np.asarray(batch)
    pt.dset._set_targets(loss_type)
    patch_indices, _pos, frac, descan = pt.dset.forward(bi, pt.obj_padding_px)
    shifted = pt.probe_model.forward(frac)
    patches = pt.obj_model.forward(patch_indices)
    _pp, overlap = pt.forward_operator(patches, shifted, descan)
    pred = pt.detector_model.forward(overlap)
    loss, _ = pt.error_estimate(pred, bi, loss_type=loss_type)
    return float(loss), pred


def lib_forward_multi(pt, batch, loss_types=LOSSES):
    """one pass of the forward chain, then error_estimate for each loss type (the prediction does
    not depend on the loss type; the targets do: dset._set_targets as reconstruct() calls it)"""
    bi = np.asarray(batch)
    patch_indices, _pos, frac, descan = pt.dset.forward(bi, pt.obj_padding_px)
    shifted = pt.probe_model.forward(frac)
    patches = pt.obj_model.forward(patch_indices)
    _pp, overlap = pt.forward_operator(patches, shifted, descan)
    pred = pt.detector_model.forward(overlap)
    out = {}
    for lt in loss_types:
        pt.dset._set_targets(lt)
        out[lt] = float(pt.error_estimate(pred, bi, loss_type=lt)[0])
    return out, pred


def lib_reconstruct_loss(pt, batch_size, loss_type, orthogonalize):
    """one epoch of the REAL reconstruct() loop at fixed parameters (the optimiser step is replaced
    by a gradient recorder on the instance): returns (mean of the batch losses, |grad obj|, |grad probe|)"""
    rec = []

    def recorder():
        go = pt.obj_model._obj.grad
        gp = pt.probe_model._probe.grad
        rec.append((0.0 if go is None else float(go.abs().max()), 0.0 if gp is None else float(gp.abs().max())))

    pt.step_optimizers = recorder
    try:
        pt.reconstruct(num_iters=1, reset=False,
                       optimizer_params={"object": {"type": "sgd", "lr": 1e-9}, "probe": {"type": "sgd", "lr": 1e-9}},
                       batch_size=batch_size, constraints={"probe": {"orthogonalize_probe": bool(orthogonalize)}},
                       loss_type=loss_type)
    finally:
        del pt.step_optimizers
    return float(pt._iter_losses[-1]), max(r[0] for r in rec), max(r[1] for r in rec), len(rec)


class _Saved:
    """temporarily replace the object / probe parameters of the library models"""

    def __init__(self, pt):
        self.pt = pt

    def __enter__(self):
        self.o = self.pt.obj_model._obj.data.clone()
        self.p = self.pt.probe_model._probe.data.clone()
        return self

    def __exit__(self, *a):
        import torch
        with torch.no_grad():
            self.pt.obj_model._obj.data = self.o
            self.pt.probe_model._probe.data = self.p


def set_obj(pt, arr, kind):
    import torch
    with torch.no_grad():
        dt = pt.obj_model._obj.data.dtype
        pt.obj_model._obj.data = torch.tensor(np.asarray(arr), dtype=dt)


# --------------------------------------------------------------------------------------------
# cases

def _no_ties(g, step):
    return all(abs(((i * step) % 1.0) - 0.5) > 0.03 for i in range(g))


def lib_geometry(roi, gpts, step_px, pad, recip, energy, thick=(), nm=1, kind="complex"):
    """what the library's own preprocessing chooses for this scan: object period (H, W), effective
    padding, scan positions (before / after its hard constraints).  Dry run on dummy data."""
    roi, gpts = tuple(roi), tuple(gpts)
    pix = sim.pixel_size(roi, recip)
    step_A = (step_px[0] * pix[0], step_px[1] * pix[1])
    pt0 = lib_build(np.ones(gpts + roi), step_A, recip, energy, None, kind, list(thick),
                    np.ones((nm,) + roi, complex), pad, "no_shift", nm)
    h, w = [int(x) for x in pt0.obj_shape_full[-2:]]
    pos0 = pt0.dset.scan_positions_px.detach().cpu().numpy().astype(np.float64)
    pt0.dset.forward(np.arange(gpts[0] * gpts[1]), pt0.obj_padding_px)
    pos1 = pt0.dset.scan_positions_px.detach().cpu().numpy().astype(np.float64)
    return {"shape": (h, w), "pad_eff": [int(x) for x in pt0.obj_padding_px], "pos_preprocess": pos0, "pos_forward": pos1}


def _symmetric_geometry(r, roi, recip, energy):
    """a raster whose library object has period = ROI (so that the inversion symmetry used for
    the `constant` precondition is exact): found by asking the library, not by assuming its
    shape policy.  Returns (gpts, step_px, pad) or None."""
    cands = []
    for ax, nn in enumerate(roi):
        opts = []
        for g in range(2, 9):
            for e in range(2, nn, 2):                 # raster extent (px), even -> integer centre
                st = e / (g - 1)
                if 1.0 <= st <= 6.0 and _no_ties(g, st):
                    for pad in range(0, nn // 2):
                        opts.append((g, st, pad))
        r.shuffle(opts)
        cands.append(opts)
    for k in range(60):
        a, b = cands[0][k % len(cands[0])], cands[1][(k * 7 + 3) % len(cands[1])]
        # the two axes are searched jointly but cheaply: accept the first pair whose period is the ROI
        try:
            geo = lib_geometry(roi, (a[0], b[0]), (a[1], b[1]), (a[2], b[2]), recip, energy)
        except Exception:
            continue
        if geo["shape"] == tuple(roi):
            return [a[0], b[0]], [a[1], b[1]], [a[2], b[2]]
        # keep the axis that already matches, advance the other
        if geo["shape"][0] == roi[0]:
            cands[0] = [a] * len(cands[0])
        if geo["shape"][1] == roi[1]:
            cands[1] = [b] * len(cands[1])
    return None


ODD_ROIS = [[7, 7], [9, 7], [7, 8], [11, 9], [8, 9], [5, 12], [13, 13], [9, 16]]
EVEN_ROIS = [[8, 8], [8, 12], [12, 8], [10, 10], [12, 16], [16, 16], [6, 10], [14, 8]]
BATCH_MODES = ["one", "full", "nondividing", "dividing"]
CLAIMED_FAMILIES = ("main", "odd", "half", "line", "constant", "odd-constant")


def _aperture_and_grid(r, c, n, m, lam):
    """reciprocal pixel (1/A) such that the Nyquist angle is 30..60 mrad and the aperture can have a radius of
    >= 1.3 detector pixels on both axes (needed by the higher probe modes) while staying below 0.85 Nyquist"""
    while True:
        nyq = [r.uniform(0.030, 0.060) for _ in range(2)]
        c["recip"] = [nyq[0] / lam / (n // 2), nyq[1] / lam / (m // 2)]
        semi_lo = 1.3 * max(c["recip"]) * lam
        semi_hi = 0.85 * min(nyq)
        if semi_lo < 0.95 * semi_hi:
            return semi_lo, semi_hi


def gen_case(r: random.Random, family: str, quick=True) -> dict:
    """a JSON-serialisable description of one simulated experiment"""
    c = {"family": family, "seed": r.randrange(1 << 30), "com": "no_shift", "descan": [0, 0], "even_obj": False}
    c["energy"] = r.choice(ENERGIES)
    c["kind"] = r.choice(["complex", "pure_phase", "potential"])
    c["slices"] = r.choice([1, 1, 2, 3, 4])
    c["modes"] = r.choice([1, 1, 2, 3])
    c["batch_mode"] = r.choice(BATCH_MODES)
    if family == "odd":
        c["roi"] = r.choice(ODD_ROIS)
    elif family == "constant":
        c["roi"] = r.choice([[8, 8], [16, 16], [8, 16], [16, 8], [16, 16], [24, 24], [16, 24]])
    elif family == "odd-constant":
        c["roi"] = r.choice([[7, 7], [9, 9], [7, 9], [15, 15], [17, 15]])
    elif family == "half":
        c["roi"] = r.choice(EVEN_ROIS + ODD_ROIS[:5])
    else:
        c["roi"] = r.choice(EVEN_ROIS)
    n, m = c["roi"]
    lam = sim.wavelength_A(c["energy"])
    if family in ("constant", "odd-constant"):
        # inversion-symmetric experiment: object period = ROI (asked from the library), raster
        # symmetric about its centre, even object, even/odd probe modes, weak smooth object, small
        # round aperture -> the mean centre of mass is the detector centre (+ injected integer)
        c["com"] = "constant"
        c["even_obj"] = True
        dk = r.uniform(0.006, 0.012) / lam            # same angular pixel on both axes
        c["recip"] = [dk, dk]
        small = min(n, m) <= 9
        c["strength"] = 0.08 if small else 0.3
        rad_px = r.uniform(1.45, 1.9) if small else r.uniform(2.2, 3.2)
        c["semiangle_mrad"] = rad_px * dk * lam * 1e3
        if family == "constant":
            geo = _symmetric_geometry(r, c["roi"], c["recip"], c["energy"])
            if geo is None:
                c["gpts"], c["step_px"], c["pad"] = [4, 4], [2.0, 2.0], [1, 1]
                c["no_symmetric_geometry"] = True
            else:
                c["gpts"], c["step_px"], c["pad"] = geo
        else:
            c["gpts"], c["step_px"], c["pad"] = [r.choice([3, 4]), r.choice([3, 4])], [2.0, 2.0], [1, 1]
        # injected INTEGER descan: the whole pattern stack is displaced by whole detector pixels.  Whether the
        # fitted origin then is centre + integer (no intensity wraps around the detector edge) is NOT assumed:
        # it is the precondition the check measures (COM_PRECONDITION) and reports per case
        dmax = 3 if min(n, m) >= 24 else 2 if min(n, m) >= 15 else 1
        c["descan"] = [r.randint(-dmax, dmax), r.randint(-dmax, dmax)]
        c["aberr"] = {"C10": r.uniform(-60, 60), "C30": r.choice([0.0, 2e4]), "C12": r.uniform(0, 20), "phi12": r.uniform(0, 3)}
    elif family == "half":
        # exact half-integer scan positions: a real-space pixel of 2**-k A and a step of k + 1/2 pixels make
        # i * step / pixel exact in the library's float32 arithmetic (verified per case: "exact_ties")
        pix = [r.choice([0.25, 0.5]), r.choice([0.25, 0.5])]
        c["recip"] = [1.0 / (n * pix[0]), 1.0 / (m * pix[1])]
        nyq = [(n // 2) * c["recip"][0] * lam, (m // 2) * c["recip"][1] * lam]
        semi_lo = 1.3 * max(c["recip"]) * lam
        semi_hi = max(0.85 * min(nyq), 1.05 * semi_lo)
        c["gpts"] = [r.randint(2, 4), r.randint(2, 4)]
        halves = [0.5, 1.5, 2.5, 3.5]
        c["step_px"] = r.choice([[r.choice(halves), r.choice(halves)], [r.choice(halves), r.choice([1.0, 2.0, 1.25])],
                                 [r.choice([1.0, 3.0, 0.75]), r.choice(halves)]])
        c["pad"] = [r.choice([0, 1, 2, 3, 4, 7]), r.choice([0, 1, 2, 5, 6])]
        c["strength"] = r.uniform(0.3, 1.2)
        c["semiangle_mrad"] = r.uniform(semi_lo, semi_hi) * 1e3
        c["aberr"] = {"C10": r.uniform(-80, 80), "C30": r.choice([0.0, 0.0, 1e4, 5e4]), "C12": r.choice([0.0, r.uniform(0, 30)]),
                      "phi12": r.uniform(0, 3)}
        c["anchor"] = "half_even"
    else:
        semi_lo, semi_hi = _aperture_and_grid(r, c, n, m, lam)
        gmax = 4 if quick else 6
        if family == "line":
            # a single scan line (either axis) or a single pattern
            g = r.randint(2, gmax + 1)
            c["gpts"] = r.choice([[1, g], [g, 1], [1, g], [g, 1], [1, 1]])
        else:
            c["gpts"] = [r.randint(2, gmax), r.randint(2, gmax)]
        steps = []
        for g in c["gpts"]:
            while True:
                # integer steps, steps of a few pixels, and steps BELOW one pixel
                st = r.choice([r.choice([1.0, 2.0, 3.0]), r.uniform(0.8, 4.5), r.uniform(0.8, 4.5), r.uniform(0.15, 0.8)])
                if _no_ties(g, st):
                    break
            steps.append(st)
        c["step_px"] = steps
        # requested padding incl. large values (the object is then much larger than the raster)
        c["pad"] = [r.choice([0, 0, 1, 2, 3, 5, 8, 13, 21, 34]), r.choice([0, 0, 1, 2, 4, 6, 17, 40])]
        c["strength"] = r.uniform(0.3, 1.2)
        c["semiangle_mrad"] = r.uniform(semi_lo, semi_hi) * 1e3
        if family == "main" and r.random() < 0.3:
            # a bright-field disc that reaches or overfills the detector on its short axis: the probe then has
            # spectral weight in the Nyquist row / column of an even ROI axis, where a sub-pixel shift must
            # still be the plain shift theorem exp(-2 pi i k s) with k = -1/2
            nyq_min = min((n // 2) * c["recip"][0] * lam, (m // 2) * c["recip"][1] * lam)
            c["semiangle_mrad"] = r.uniform(0.95, 1.4) * nyq_min * 1e3
            c["overfill"] = True
        c["aberr"] = {"C10": r.uniform(-80, 80), "C30": r.choice([0.0, 0.0, 1e4, 5e4]), "C12": r.choice([0.0, r.uniform(0, 30)]),
                      "phi12": r.uniform(0, 3)}
        if family == "constant-control":
            # NOT claimed: a generic (non-symmetric) experiment preprocessed with `constant`; its fitted origin is
            # not centre + integer, the preprocessing interpolates, and the loss at the ground truth is not ~0.
            # Run to show that the precondition check discriminates (see "constant_precondition" in the evidence)
            c["com"] = "constant"
    c["thick"] = [round(r.uniform(1.0, 12.0), 3) for _ in range(c["slices"] - 1)]
    w = sorted([r.uniform(0.2, 1.0) for _ in range(c["modes"])], reverse=True)
    w = [w[i] * (0.55 ** i) for i in range(len(w))]
    c["weights"] = [x / sum(w) for x in w]
    c["orthogonalize"] = r.random() < 0.5
    if c.get("overfill"):
        # the reference modes (aperture x 1, k_r, k_c) are mutually orthogonal by the inversion symmetry of the
        # aperture; an aperture that includes the one-sided Nyquist row / column is not inversion symmetric, so
        # the library's orthogonalisation constraint would (rightly) change the modes: keep it switched off
        c["orthogonalize"] = False
    c["probe_pert"] = "amplitude" if c["even_obj"] else r.choice(["defocus", "amplitude"])
    return c


HISTORY_COMS = ["constant", "no_shift", "plane", "none", "parabola"]


def gen_history(rh: random.Random, c: dict, k: int = 99) -> dict:
    """what happens to the SAME dataset / ptychography object before the state the property speaks about: earlier
    `PtychographyDatasetRaster.preprocess` calls with other options (descan fit, forced rotation / transpose, bilinear,
    padding, looped CoM), earlier `Ptychography.preprocess` calls (other padding, or the same one again) and
    `reconstruct(num_iters=0, loss_type=...)` calls, the ORDER in which the four losses are evaluated, and the order of
    a repeated evaluation at the end.  The property is about the final preprocessing only: whatever was done before,
    the losses at the ground truth are ~0.  k = index of the case in its family: the first cases cycle through the
    history kinds so that every run has each of them."""
    h = {"dset": [], "pt": [], "warm": [], "order": list(LOSSES), "order_repeat": list(LOSSES)}
    kind = ["none", "dset", "dset+pt", "dset", "pt", "dset2"][k % 6] if k < 12 else rh.choice(
        ["none", "dset", "dset", "dset+pt", "pt", "dset2"])
    nd = {"none": 0, "pt": 0, "dset": 1, "dset+pt": 1, "dset2": 2}[kind]
    for i in range(nd):
        # the first earlier call uses ANOTHER descan fit than the final one (so that the centred data differ)
        others = [x for x in HISTORY_COMS[:4] if x != c["com"]]
        com = rh.choice(others) if i == 0 else rh.choice(HISTORY_COMS)
        h["dset"].append({"com": com, "rotation": rh.choice([0, 0, 90, -37.5, 12.0, None]),
                          "transpose": rh.choice([False, False, True, None]), "bilinear": rh.random() < 0.3,
                          "pad": [rh.choice([0, 1, 3, 6]), rh.choice([0, 2, 5])], "vectorized": rh.random() < 0.7})
    if "pt" in kind:
        for i in range(rh.choice([1, 1, 2])):
            if rh.random() < 0.65:
                h["pt"].append({"op": "preprocess", "pad": rh.choice([list(c["pad"]), [c["pad"][0] + rh.choice([1, 2, 5]),
                                                                                      c["pad"][1] + rh.choice([0, 3, 4])],
                                                                      [rh.choice([0, 2]), rh.choice([0, 1])]])})
            elif h["pt"]:
                h["pt"].append({"op": "reconstruct0", "loss": rh.choice(LOSSES)})
        if rh.random() < 0.4:
            h["warm"] = [rh.choice(LOSSES) for _ in range(rh.choice([1, 2]))]
    order = list(LOSSES)
    rh.shuffle(order)
    if k < 8:                              # the first evaluated loss cycles through the four types
        order.remove(LOSSES[k % 4])
        order.insert(0, LOSSES[k % 4])
    h["order"] = order
    rep = list(LOSSES)
    rh.shuffle(rep)
    h["order_repeat"] = rep
    h["kind"] = kind
    return h


MODE_ORDER_KINDS = ["ascending", "unsorted", "nearly-equal", "far-apart", "descending"]


def gen_mode_order(rm: random.Random, c: dict, k: int = 99) -> None:
    """the incoherent modes as the CALLER hands them over: the property quantifies over "1..3 incoherent modes installed
    through the public probe setter" - in any order and with any relative strength.  Rewrites c["weights"] (mode i of the
    reference probe = aperture x (1, k_r, k_c)[i] keeps its shape; its weight changes) and c["orthogonalize"]:
      descending / ascending / unsorted   moderate weights (successive ratios 0.25 .. 0.9) in that order
      nearly-equal                        weights within 1e-4 .. 2 % of each other, any order
      far-apart                           successive ratios 1e-3 .. 0.08, any order (a mode of < 1 % of the intensity)
    k = running index of the multi-mode cases of the run: the first ones cycle through kind x constraint on / off."""
    nm = c["modes"]
    if nm < 2:
        c["mode_order"] = "single"
        return
    if k < 2 * len(MODE_ORDER_KINDS):
        kind, orth = MODE_ORDER_KINDS[k % len(MODE_ORDER_KINDS)], (k // len(MODE_ORDER_KINDS)) % 2 == 0
    else:
        kind, orth = rm.choice(MODE_ORDER_KINDS), rm.random() < 0.6
    if kind == "nearly-equal":
        w = [1.0 + rm.choice([-1, 1]) * 10 ** rm.uniform(-4, -1.7) for _ in range(nm)]
        rm.shuffle(w)
    elif kind == "far-apart":
        w = [1.0]
        for _ in range(nm - 1):
            w.append(w[-1] * 10 ** rm.uniform(-3, -1.1))
        rm.shuffle(w)
    else:
        w = [1.0]
        for _ in range(nm - 1):
            w.append(w[-1] * rm.uniform(0.25, 0.9))
        if kind == "ascending":
            w = w[::-1]
        elif kind == "unsorted":
            while True:
                rm.shuffle(w)
                if w != sorted(w, reverse=True) and (nm == 2 or w != sorted(w)):
                    break
    c["weights"] = [x / sum(w) for x in w]
    c["mode_order"] = kind
    # an overfilling aperture has non-orthogonal reference modes (see gen_case): the constraint stays off there
    c["orthogonalize"] = bool(orth) and not c.get("overfill")


def mode_order_class(c):
    """(order, strength) of the weights as handed over - measured on the weights, not on the generator's label"""
    w = list(c["weights"])
    if len(w) < 2:
        return "single mode", "single mode"
    order = "strongest first" if w == sorted(w, reverse=True) else "weakest first" if w == sorted(w) else "unsorted"
    sw = sorted(w, reverse=True)
    gaps = [sw[i + 1] / sw[i] for i in range(len(sw) - 1)]
    strength = "nearly equal (within 2 %)" if min(gaps) > 0.96 else "far apart (a ratio < 0.08)" if min(gaps) < 0.08 else "moderate"
    return order, strength


def _probe_text(c):
    if c["modes"] < 2:
        return ""
    return "; probe modes handed to the public setter with weights %s (%s), orthogonalize_probe=%s" % (
        [float("%.5g" % x) for x in c["weights"]], mode_order_class(c)[0], c["orthogonalize"])


def history_signature(c):
    h = c.get("history")
    if not h:
        return ("fresh",)
    return (tuple(x["com"] for x in h["dset"]), len(h["pt"]), len(h["warm"]), h["order"][0])


def batch_size_for(c, npos):
    """the batch size of a case: 1, the full scan, one that does not divide the number of patterns, or a
    proper divisor (falls back to the nearest available kind for tiny scans)"""
    mode = c.get("batch_mode")
    if mode is None:                      # corpus cases written before batch_mode existed
        rb = random.Random(c["seed"] + 5)
        return rb.choice([b for b in (1, 2, 3, max(1, npos // 2), max(1, npos - 1), 5) if -(-npos // b) <= 6])
    rb = random.Random(c["seed"] + 5)
    nondiv = [b for b in range(2, npos) if npos % b]
    div = [b for b in range(2, npos) if npos % b == 0]
    if mode == "one":
        return 1
    if mode == "full":
        return npos
    if mode == "nondividing" and nondiv:
        return rb.choice(nondiv)
    if div:
        return rb.choice(div)
    return rb.choice(nondiv) if nondiv else npos


def case_key(c):
    return (c["family"], tuple(c["roi"]), tuple(c["gpts"]), c["kind"], c["slices"], c["modes"], tuple(c["pad"]),
            tuple(round(s, 3) for s in c["step_px"]), c["com"], tuple(c["descan"]), mode_order_class(c)[0],
            bool(c["orthogonalize"])) + history_signature(c)


# the "strictly larger at a perturbed probe" clause is judged only where the reference simulator says the
# perturbation changes the predicted amplitudes by more than this (relative, squared)
PROBE_OBSERVABLE = 1e-5


class CaseResult(dict):
    pass


def perturb_object(param, kind, seed, amount=PERT):
    r = random.Random(seed + 17)
    s_, h, w = param.shape
    d = np.stack([sim.smooth_field(r, (h, w), kmax=min(4, max(1, min(h, w) // 3))) for _ in range(s_)]) * amount
    if kind == "potential":
        return np.maximum(param + d + amount, 0.0)       # stays a valid (non-negative) potential; not a constant offset
    return param * np.exp(1j * d)


def perturb_probe(case, psi_k):
    n, m = case["roi"]
    if case["probe_pert"] == "defocus":
        lam = sim.wavelength_A(case["energy"])
        kr = sim.centred_freq_index(n)[:, None] * case["recip"][0]
        kc = sim.centred_freq_index(m)[None, :] * case["recip"][1]
        al2 = (kr ** 2 + kc ** 2) * lam ** 2
        amax = (case["semiangle_mrad"] * 1e-3) ** 2
        # extra defocus giving a phase error of ~4*PERT rad at the aperture edge
        dchi = 4 * PERT * al2 / max(amax, 1e-30)
        return psi_k * np.exp(-1j * dchi)[None]
    # amplitude modulation across the aperture (keeps the total intensity to first order)
    kr = sim.centred_freq_index(n)[:, None] / max(1, n // 2)
    return psi_k * (1.0 + 4 * PERT * np.sign(kr + 0.01) * np.ones((1, m)))[None]


def _rel_mod_phase(a, b):
    """|| a - z b || / || b || minimised over a global phase z (gauge of a single coherent wave)"""
    ip = np.vdot(b, a)
    z = ip / abs(ip) if abs(ip) > 0 else 1.0
    return float(np.linalg.norm(a - z * b) / max(np.linalg.norm(b), 1e-300))


def _mode_match(lib, ref):
    """max over the modes of the phase-gauged relative difference, minimised over the ASSIGNMENT of library modes to
    reference modes: the forward model is a sum over the modes, their order is not observable (and the library's
    orthogonalisation constraint legitimately re-orders them)"""
    from itertools import permutations
    nm = lib.shape[0]
    d = [[_rel_mod_phase(lib[i], ref[j]) for j in range(nm)] for i in range(nm)]
    return min(max(d[i][p[i]] for i in range(nm)) for p in permutations(range(nm)))


def _density_distance(lib, ref):
    """|| rho_lib - rho_ref ||_F / || rho_ref ||_F for rho = sum_m |psi_m><psi_m| (through the Gram matrices of the
    modes): invariant under re-ordering, per-mode phases and a unitary mixing of (nearly) degenerate modes - everything
    the incoherent sum cannot see"""
    a = np.asarray(lib, dtype=np.complex128).reshape(lib.shape[0], -1)
    b = np.asarray(ref, dtype=np.complex128).reshape(ref.shape[0], -1)
    saa = float((np.abs(a.conj() @ a.T) ** 2).sum())
    sbb = float((np.abs(b.conj() @ b.T) ** 2).sum())
    sab = float((np.abs(a.conj() @ b.T) ** 2).sum())
    return math.sqrt(max(0.0, saa + sbb - 2.0 * sab) / max(sbb, 1e-300))


def mode_distance(lib, ref, weights):
    """library modes vs reference modes without assuming an order: matched mode by mode where the weights tell the modes
    apart (relative gap > 4 %), else through the mode density operator"""
    sw = sorted(weights, reverse=True)
    if len(sw) > 1 and min(sw[i + 1] / sw[i] for i in range(len(sw) - 1)) > 0.96:
        return _density_distance(lib, ref)
    return _mode_match(lib, ref)


def step_observables(pt, steps, data, offi, weights=(1.0,)):
    """per-step tie between the library's chain and the reference simulator, for the sampled positions: the
    window anchor, the gathered object patches, the placed (sub-pixel shifted) probe, the exit wave and the
    detector prediction (against the simulated, not yet preprocessed, pattern).  Waves are compared up to
    one global phase per mode and position and up to the order of the modes (mode_distance)."""
    idx = sorted(steps)
    bi = np.asarray(idx)
    patch_indices, pos, frac, descan = pt.dset.forward(bi, pt.obj_padding_px)
    shifted = pt.probe_model.forward(frac)
    patches = pt.obj_model.forward(patch_indices)
    _pp, overlap = pt.forward_operator(patches, shifted, descan)
    pred = pt.detector_model.forward(overlap).detach().cpu().numpy().astype(np.float64)
    pidx = patch_indices.detach().cpu().numpy()
    shp = np.array([int(x) for x in pt.obj_shape_full[-2:]])
    shifted = shifted.detach().cpu().numpy()
    patches = patches.detach().cpu().numpy()
    overlap = overlap.detach().cpu().numpy()
    out = {"anchor": 0, "patches": 0.0, "placed_probe": 0.0, "exit_wave": 0.0, "detector": 0.0, "positions": idx}
    for b, i in enumerate(idx):
        st = steps[i]
        # the library's window anchor = the object pixel its patch index (0, 0) points at (the window offset 0)
        flat = int(pidx[b, 0, 0])
        lib_anchor = np.array([flat // shp[1], flat % shp[1]])
        want = (np.asarray(st["anchor"]) + offi) % shp
        out["anchor"] = max(out["anchor"], int(np.abs(lib_anchor - want).max()))
        out["patches"] = max(out["patches"], float(np.abs(patches[:, b] - st["windows"]).max()))
        out["placed_probe"] = max(out["placed_probe"], mode_distance(shifted[:, b], st["placed_probe"], weights))
        out["exit_wave"] = max(out["exit_wave"], mode_distance(overlap[:, b], st["exit_wave"], weights))
        out["detector"] = max(out["detector"], float(np.abs(pred[b] - data[i]).sum() / max(data[i].sum(), 1e-300)))
    return out


def run_case(c: dict, want_arrays=False) -> CaseResult:
    """simulate, feed through the library, evaluate.  Returns observables (JSON-serialisable)."""
    res = CaseResult(case=c, problems=[])
    roi, gpts, recip, energy = tuple(c["roi"]), tuple(c["gpts"]), tuple(c["recip"]), c["energy"]
    n, m = roi
    npos = gpts[0] * gpts[1]
    pix = sim.pixel_size(roi, recip)
    step_A = (c["step_px"][0] * pix[0], c["step_px"][1] * pix[1])
    nm = c["modes"]
    # 1. geometry chosen by the library (object period, raster offset): dry run on dummy data
    geo = lib_geometry(roi, gpts, c["step_px"], c["pad"], recip, energy, c["thick"], nm, c["kind"])
    h, w = geo["shape"]
    libpos, libpos_fwd = geo["pos_preprocess"], geo["pos_forward"]
    simpos = sim.raster_positions(gpts, c["step_px"])
    off = libpos_fwd - simpos
    offi = np.round(off.mean(axis=0))
    res["obj_shape"] = [h, w]
    res["pad_eff"] = geo["pad_eff"]
    res["offset"] = [float(x) for x in off.mean(axis=0)]
    res["offset_spread"] = float(np.abs(off - offi[None]).max())
    res["offset_spread_preprocess"] = float(np.abs(libpos - simpos - np.round((libpos - simpos).mean(axis=0))[None]).max())
    offi = offi.astype(int)
    # 2. simulate
    r = random.Random(c["seed"])
    psi_k = sim.probe_fourier_modes(roi, recip, energy, c["semiangle_mrad"], c["aberr"], nm, c["weights"], I0,
                                    keep_nyquist=bool(c.get("overfill")))
    param, trans = sim.make_object(r, (h, w), c["slices"], c["kind"], strength=c["strength"], even=c["even_obj"],
                                   kmax=1 if c["even_obj"] else 3)
    if c["even_obj"]:
        # inversion centre of the raster (simulation frame: raster starts at 0)
        cen = [(gpts[0] - 1) * c["step_px"][0] / 2.0, (gpts[1] - 1) * c["step_px"][1] / 2.0]
        sh = [int(round(cen[0])), int(round(cen[1]))]
        if abs(cen[0] - sh[0]) > 1e-9 or abs(cen[1] - sh[1]) > 1e-9:
            res["problems"].append("non-integer raster centre")
        param = np.roll(param, sh, axis=(-2, -1))
        trans = np.roll(trans, sh, axis=(-2, -1))
    rs = random.Random(c["seed"] + 23)
    step_idx = sorted(rs.sample(range(npos), min(3, npos)))
    anchor = c.get("anchor", "half_up")
    if anchor == "half_even":
        # exact half-integer positions: the anchor rule matters and round-half-to-even depends on the frame, so
        # this family is simulated in the LIBRARY frame (object rolled by the constant integer offset, positions
        # = raster + offset); the library's float32 positions must then BE the exact half-integers intended
        frame_pos = simpos + offi[None].astype(np.float64)
        frame_trans = np.roll(trans, tuple(offi), axis=(-2, -1))
        res["positions_exact"] = bool(np.array_equal(libpos_fwd, frame_pos))
        res["exact_ties"] = int((np.abs(libpos_fwd - np.floor(libpos_fwd) - 0.5) == 0).sum())
        # sample the tie positions first for the per-step comparison
        ties = [i for i in range(npos) if (np.abs(libpos_fwd[i] - np.floor(libpos_fwd[i]) - 0.5) == 0).any()]
        step_idx = sorted(set(ties[:2] + step_idx[:1]))
    else:
        frame_pos, frame_trans = simpos, trans
    steps = {i: {} for i in step_idx}
    data = sim.simulate(frame_trans, psi_k, frame_pos, recip, energy, c["thick"], anchor=anchor, steps=steps)
    trans, simpos_frame = frame_trans, frame_pos
    # is the probe perturbation observable at all?  (small objects with a coarse Fourier lattice and a small
    # aperture give non-overlapping discs: the patterns are then blind to any phase put on the probe.)  The
    # independent simulator decides: relative change of the amplitudes it predicts for the perturbed probe.
    data_pp = sim.simulate(trans, perturb_probe(c, psi_k), simpos_frame, recip, energy, c["thick"], anchor=anchor)
    res["probe_pert_observable"] = float(((np.sqrt(data_pp) - np.sqrt(data)) ** 2).sum() / max(float(data.sum()), 1e-300))
    sums = data.sum(axis=(-2, -1))
    res["pattern_sum_dev"] = float(np.abs(sums / I0 - 1).max())
    data0 = data                                      # as simulated: zero frequency at (n // 2, m // 2)
    if c["descan"] != [0, 0]:
        data = np.roll(data, tuple(c["descan"]), axis=(-2, -1))
    com = sim.centre_of_mass(data)
    res["mean_com"] = [com[0], com[1]]
    # deviation of the mean centre of mass from (zero-frequency pixel + injected integer descan): the quantity the
    # `constant` precondition is about (floor(n/2): the detector model's DC pixel, for odd sizes too)
    res["com_dev"] = [com[0] - (n // 2 + c["descan"][0]), com[1] - (m // 2 + c["descan"][1])]
    # 3. the library on the simulated data, ground truth installed
    gt = np.roll(param, tuple(offi), axis=(-2, -1))
    gt_lib = gt.astype(np.float32) if c["kind"] == "potential" else gt.astype(np.complex64)
    prb = sim.probe_real_space(psi_k)
    hist = c.get("history") or {}
    hist_log = []
    pt = lib_build(data.reshape(gpts + roi), step_A, recip, energy, gt_lib, c["kind"], c["thick"], prb, c["pad"],
                   c["com"], nm, probe_weights=c["weights"], history=hist, hist_log=hist_log)
    res["history_log"] = ["%s[%d]: %s" % x for x in hist_log]
    # did an earlier dataset preprocessing leave OTHER centred data than the final one?  (then stale state shows)
    res["history_effective"] = bool(hist.get("dset")) and any(x[0] == "dset" and x[2] == "ok" for x in hist_log)
    res["mean_intensity"] = float(pt.dset.mean_diffraction_intensity)
    res["com_fit"] = [float(pt.dset.com_fit[0].mean()), float(pt.dset.com_fit[1].mean())]
    if nm == 1:
        # normalisation path: a single-mode probe handed to from_array at an ARBITRARY scale and not
        # touched afterwards — the library itself (_apply_weights) must scale it to the mean pattern sum
        ptn = lib_build(data.reshape(gpts + roi), step_A, recip, energy, gt_lib, c["kind"], c["thick"], 0.37 * prb,
                        c["pad"], c["com"], nm, history=hist)
        res["norm_path"] = lib_forward_multi(ptn, np.arange(npos), ("l2_amplitude", "l1_intensity"))[0]
        pi_ = float((np.abs(ptn.probe_model.probe.detach().cpu().numpy()) ** 2).sum())
        res["norm_probe_intensity"] = pi_
    pt.probe_model.probe = prb.astype(np.complex64)          # public probe setter
    pt.constraints = {"probe": {"orthogonalize_probe": bool(c["orthogonalize"])}}
    allidx = np.arange(npos)
    pobj = perturb_object(param, c["kind"], c["seed"])
    pobj_lib = np.roll(pobj, tuple(offi), axis=(-2, -1))
    pprb = sim.probe_real_space(perturb_probe(c, psi_k)).astype(np.complex64)
    order = hist.get("order") or LOSSES
    for lt in hist.get("warm", []):
        # losses selected (public call) before the first evaluation
        pt.reconstruct(num_iters=0, loss_type=lt, constraints={"probe": {"orthogonalize_probe": bool(c["orthogonalize"])}})
    l_gt, pred = lib_forward_multi(pt, allidx, order)
    res["steps"] = step_observables(pt, steps, data0, offi if anchor != "half_even" else np.zeros(2, int), c["weights"])
    with _Saved(pt):
        set_obj(pt, pobj_lib, c["kind"])
        l_po, _ = lib_forward_multi(pt, allidx, order)
    with _Saved(pt):
        pt.probe_model.probe = pprb
        l_pp, _ = lib_forward_multi(pt, allidx, order[::-1])
    losses = {lt: {"gt": l_gt[lt], "pert_obj": l_po[lt], "pert_probe": l_pp[lt]} for lt in LOSSES}
    preds = {"pred": pred.detach().cpu().numpy()} if want_arrays else {}
    res["losses"] = losses
    # 4. batches: the batch-fraction-weighted sum of the batch losses equals the full loss
    #    (at the perturbed object, where the loss is not ~0), for batch sizes that need not divide
    rb = random.Random(c["seed"] + 5)
    perm = list(range(npos))
    rb.shuffle(perm)
    bsz = batch_size_for(c, npos)
    batches = [perm[i:i + bsz] for i in range(0, npos, bsz)]
    with _Saved(pt):
        set_obj(pt, pobj_lib, c["kind"])
        parts = [lib_forward_multi(pt, b)[0] for b in batches]
    res["batch"] = {lt: {"full": l_po[lt], "weighted": sum(len(b) / npos * p[lt] for b, p in zip(batches, parts)),
                         "batch": bsz, "nb": len(batches), "mean": sum(p[lt] for p in parts) / len(parts)} for lt in LOSSES}
    # 5. the real reconstruct() loop at the ground truth (optimiser step replaced by a recorder)
    lt = LOSSES[c["seed"] % 4]
    rl, go, gp, nb = lib_reconstruct_loss(pt, bsz, lt, c["orthogonalize"])
    res["reconstruct"] = {"loss_type": lt, "batch": bsz, "loss": rl, "grad_obj": go, "grad_probe": gp, "nb": nb}
    with _Saved(pt):
        set_obj(pt, pobj_lib, c["kind"])
        rl2, go2, gp2, _ = lib_reconstruct_loss(pt, bsz, lt, c["orthogonalize"])
        res["reconstruct"].update({"loss_pert": rl2, "grad_obj_pert": go2, "grad_probe_pert": gp2})
    # 6. repeated evaluation at the ground truth, after everything above was done to the same objects, in another order
    if hist:
        l_rep, _ = lib_forward_multi(pt, allidx, hist.get("order_repeat") or LOSSES)
        res["losses_repeat"] = {lt: l_rep[lt] for lt in LOSSES}
    if want_arrays:
        res["_pt"] = pt
        res["_data"] = data
        res["_preds"] = preds
        res["_libpos"] = libpos_fwd
        res["_simpos"] = simpos
    return res


def oracle(res: CaseResult, claim_zero=True):
    """the property text evaluated on the implementation's output -> list of (key, what)"""
    c = res["case"]
    bad = []
    if res["offset_spread"] > 2e-3:
        v = res.get("losses", {}).get("l2_amplitude", {})
        bad.append(("scan-position-offset",
                    "the library's preprocessing does not keep the raster: its scan positions differ from the simulated raster by a "
                    "NON-constant offset (spread %.4g px about %s; %.4g px before its hard constraints) for roi %s, scan %s, step %s px, "
                    "requested padding %s -> object %s, effective padding %s; consequently l2_amplitude at the ground truth = %.4g "
                    "(perturbed object %.4g, perturbed probe %.4g)" % (
                        res["offset_spread"], [round(x, 3) for x in res["offset"]], res["offset_spread_preprocess"], c["roi"], c["gpts"],
                        [round(s, 4) for s in c["step_px"]], c["pad"], res["obj_shape"], res["pad_eff"],
                        v.get("gt", float("nan")), v.get("pert_obj", float("nan")), v.get("pert_probe", float("nan")))))
        return bad
    if res["pattern_sum_dev"] > 1e-9:
        bad.append(("harness-simulator-not-intensity-conserving", "simulated pattern sums deviate by %.3g" % res["pattern_sum_dev"]))
    if abs(res["mean_intensity"] / I0 - 1) > 1e-4:
        bad.append(("mean-diffraction-intensity", "mean_diffraction_intensity %.8g != simulated mean pattern sum %.8g" % (
            res["mean_intensity"], I0)))
    zr = ZERO_RATIO[c["com"]]
    for lt, v in res["losses"].items():
        ref = max(v["pert_obj"], v["pert_probe"])
        if claim_zero:
            if not (v["gt"] <= zr[lt] * ref):
                bad.append(("loss-not-zero-at-ground-truth/%s" % lt,
                            "%s at the ground truth = %.6g, not ~0 (perturbed object %.6g, perturbed probe %.6g; ratio %.3g > %.1g) "
                            "[%s, %d slice(s), %d mode(s), roi %s, scan %s step %s px, padding %s -> object %s, %s]" % (
                                lt, v["gt"], v["pert_obj"], v["pert_probe"], v["gt"] / max(ref, 1e-300), zr[lt],
                                c["kind"], c["slices"], c["modes"], c["roi"], c["gpts"], [round(s, 3) for s in c["step_px"]],
                                c["pad"], res["obj_shape"], c["com"]) + _probe_text(c) + _history_text(c, res)))
            if "losses_repeat" in res and not (res["losses_repeat"][lt] <= zr[lt] * ref):
                bad.append(("loss-not-zero-at-ground-truth-on-repeat/%s" % lt,
                            "%s evaluated AGAIN at the ground truth (after the perturbed evaluations and one reconstruct() epoch on "
                            "the same objects) = %.6g, not ~0 (first evaluation %.6g; perturbed object %.6g, perturbed probe %.6g)" % (
                                lt, res["losses_repeat"][lt], v["gt"], v["pert_obj"], v["pert_probe"]) + _history_text(c, res)))
            probe_seen = res.get("probe_pert_observable", 1.0) > PROBE_OBSERVABLE
            if not (v["pert_obj"] > 10 * v["gt"] and (v["pert_probe"] > 10 * v["gt"] or not probe_seen)):
                bad.append(("loss-not-larger-at-perturbation/%s" % lt,
                            "%s: ground truth %.6g, perturbed object %.6g, perturbed probe %.6g" % (lt, v["gt"], v["pert_obj"], v["pert_probe"])))
    if claim_zero and "steps" in res:
        st = res["steps"]
        for name in ("anchor", "patches", "placed_probe", "exit_wave", "detector"):
            if not (st[name] <= STEP_TOL[name]):
                bad.append(("pipeline-step/%s" % name,
                            "pipeline step `%s`: library and reference simulator differ by %.4g (tolerance %.1g) at scan positions %s "
                            "[%s, %d slice(s), %d mode(s), roi %s, scan %s step %s px, padding %s -> object %s, %s]" % (
                                name, st[name], STEP_TOL[name], st["positions"], c["kind"], c["slices"], c["modes"], c["roi"],
                                c["gpts"], [round(s_, 3) for s_ in c["step_px"]], c["pad"], res["obj_shape"], c["com"]) + _probe_text(c)))
    if claim_zero and "norm_path" in res:
        if abs(res["norm_probe_intensity"] / res["mean_intensity"] - 1) > 1e-4:
            bad.append(("probe-normalisation", "after set_initial_probe the total probe intensity is %.8g, the mean diffraction "
                        "intensity is %.8g" % (res["norm_probe_intensity"], res["mean_intensity"])))
        for lt, v in res["norm_path"].items():
            ref = max(res["losses"][lt]["pert_obj"], res["losses"][lt]["pert_probe"])
            if not (v <= zr[lt] * ref):
                bad.append(("probe-normalisation/%s" % lt,
                            "single-mode probe passed to from_array at scale 0.37 and normalised by the library: %s at the ground "
                            "truth = %.6g (perturbation scale %.6g)" % (lt, v, ref)))
    for lt, v in res["batch"].items():
        if abs(v["weighted"] - v["full"]) > 2e-4 * abs(v["full"]):
            bad.append(("loss-batch-fraction-scaling/%s" % lt,
                        "%s: sum over %d batches (size %d) of (batch fraction x batch loss) = %.8g but the full-batch loss is %.8g" % (
                            lt, v["nb"], v["batch"], v["weighted"], v["full"])))
    rc = res["reconstruct"]
    if claim_zero:
        lt = rc["loss_type"]
        if not (rc["loss"] <= zr[lt] * rc["loss_pert"] * 3):
            bad.append(("reconstruct-loop-loss-not-zero/%s" % lt,
                        "one epoch of reconstruct() at the ground truth reports %s = %.6g (perturbed object: %.6g)" % (
                            lt, rc["loss"], rc["loss_pert"]) + _probe_text(c)))
        if "l2" in lt and not (rc["grad_obj"] <= 2e-2 * rc["grad_obj_pert"]):
            bad.append(("ground-truth-not-stationary/%s" % lt,
                        "object gradient of %s at the ground truth %.4g is not small against %.4g at the perturbed object" % (
                            lt, rc["grad_obj"], rc["grad_obj_pert"]) + _probe_text(c)))
    return bad


def _history_text(c, res):
    h = c.get("history")
    if not h:
        return ""
    return ("; HISTORY of the objects: earlier dataset.preprocess calls %s, earlier Ptychography calls %s, losses selected before "
            "the first evaluation %s, evaluation order %s (repeat %s) [%s]" % (
                [{k: v for k, v in x.items()} for x in h["dset"]], h["pt"], h["warm"], h["order"], h["order_repeat"],
                ", ".join(res.get("history_log", []))))


def judge(res: CaseResult):
    """(claimed?, precondition record) — the same decision in run() and replay()"""
    c = res["case"]
    claim = c["family"] in CLAIMED_FAMILIES
    pre = None
    if c["com"] == "constant":
        dev = max(abs(res["com_dev"][0]), abs(res["com_dev"][1]))
        met = dev <= COM_PRECONDITION and not c.get("no_symmetric_geometry")
        rt = _ratios(res) if "losses" in res else {}
        pre = {"family": c["family"], "roi": c["roi"], "injected_descan_px": c["descan"], "com_dev_px": float("%.3g" % dev),
               "fitted_origin": [float("%.7g" % x) for x in res.get("com_fit", [])], "met": bool(met),
               "l1_amplitude_ratio": float("%.3g" % rt.get("l1_amplitude", float("nan"))),
               "l2_amplitude_ratio": float("%.3g" % rt.get("l2_amplitude", float("nan")))}
        claim = claim and met
    if c["family"] == "half" and not res.get("positions_exact", False):
        claim = False          # the library's float32 positions are not the intended exact half-integers
    return claim, pre


def restrict_unclaimed(bad):
    """not claimed: only the harness-independent parts of the oracle apply (positions, batch scaling, mean)"""
    return [b for b in bad if b[0].startswith(("scan-position", "loss-batch", "mean-diffraction"))]


# --------------------------------------------------------------------------------------------
# correspondence of the Z-level model with the real arrays

def _frac32(x):
    return Fraction(*float(np.float32(x)).as_integer_ratio())


def large_object_indices(ctx: Ctx, r: random.Random):
    """C02_patch_indices_window holds for EVERY object size; small experiments cannot tell integer index
    arithmetic from float32 arithmetic, which goes wrong once H*W exceeds 2**24.  The real
    `_set_patch_indices` is therefore also run on a few huge (H, W) with scan positions near the far
    corner, on a stub carrying exactly the attributes it reads, against the closed form of the theorem."""
    import torch
    from types import SimpleNamespace
    from quantem.diffractive_imaging.dataset_models import PtychographyDatasetBase as Base

    def fi(n):
        return np.array([i if i < (n + 1) // 2 else i - n for i in range(n)], dtype=np.int64)

    for H, W in [(5000, 5000), (4097, 4099), (70, 300000), (9001, 4000)][:ctx.budget(2, 4)]:
        roi = r.choice([(4, 4), (6, 4), (5, 7)])
        pos = [[H - 1 - r.random() * 3, W - 1 - r.random() * 3], [r.uniform(0, H - 1), r.uniform(0, W - 1)],
               [H // 2 + 0.25, W - 2.25]]
        stub = SimpleNamespace(scan_positions_px=torch.tensor(pos, dtype=torch.float32), roi_shape=np.array(roi),
                               device="cpu", _obj_shape_full_2d=lambda pad, H=H, W=W: (H, W))
        Base._set_patch_indices(stub, (0, 0))
        got = stub._patch_indices.numpy().astype(np.int64)
        p32 = np.asarray(pos, dtype=np.float32)
        r0 = np.round(p32[:, 0]).astype(np.int64)
        c0 = np.round(p32[:, 1]).astype(np.int64)
        want = ((r0[:, None, None] + fi(roi[0])[None, :, None]) % H) * W + ((c0[:, None, None] + fi(roi[1])[None, None, :]) % W)
        ctx.count(("large-object-indices", H, W, roi), nontrivial=True)
        ctx.dist("patch_indices/large-object")
        ctx.cov["traces_validated_against_impl"] += 1
        if got.shape != want.shape or not np.array_equal(got, want):
            bad = np.argwhere(got != want)[0] if got.shape == want.shape else None
            ctx.violation("patch-indices-large-object",
                          "_set_patch_indices on a %dx%d object (ROI %s): flat index of probe %s pixel %s is %s, the window "
                          "formula of C02_patch_indices_window gives %s (H*W = %d > 2**24: float32 index arithmetic)" % (
                              H, W, roi, None if bad is None else int(bad[0]), None if bad is None else bad[1:].tolist(),
                              None if bad is None else int(got[tuple(bad)]), None if bad is None else int(want[tuple(bad)]), H * W),
                          {"kind": "large-object-indices", "H": H, "W": W, "roi": list(roi), "positions": pos})


def correspondence_items(res: CaseResult, rng: random.Random):
    """[(label, coq_expr, expected_python_value, comparer)] for one evaluated case"""
    import torch
    c = res["case"]
    pt = res["_pt"]
    n, m = c["roi"]
    h, w = res["obj_shape"]
    npos = c["gpts"][0] * c["gpts"][1]
    items = []
    # (1) rounded patch origin, sub-pixel part and patch indices, for the positions the forward pass used
    idx = np.arange(npos)
    patch_indices, pos, frac, _ = pt.dset.forward(idx, pt.obj_padding_px)
    pos = pos.detach().cpu().numpy()
    frac = frac.detach().cpu().numpy()
    pi = patch_indices.detach().cpu().numpy()
    ties = [p for p in range(npos) if (np.abs(pos[p] - np.floor(pos[p]) - 0.5) == 0).any()]
    chosen = sorted(set(ties[:2])) if ties else sorted(rng.sample(range(npos), min(2, npos)))
    for p in chosen:
        qr, qc = _frac32(pos[p, 0]), _frac32(pos[p, 1])
        expr = ("(let r0 := round_half_even %s in let c0 := round_half_even %s in "
                "(r0, c0, patch_indices %s %s %s %s r0 c0, qnd (frac_part %s), qnd (frac_part %s)))" % (
                    cq(qr), cq(qc), cz(h), cz(w), cz(n), cz(m), cq(qr), cq(qc)))
        exp = (int(np.round(pos[p, 0])), int(np.round(pos[p, 1])), pi[p].astype(int).tolist(),
               _frac32(frac[p, 0]), _frac32(frac[p, 1]))
        items.append(("patch-indices", expr, exp, None, {"position": [float(pos[p, 0]), float(pos[p, 1])], "pattern": int(p),
                                                         "exact_tie": p in ties}))
    # (2) the origin the `no_shift` preprocessing uses: the model's no_shift_origin (= floor(n/2), every n)
    cf = [float(pt.dset.com_fit[0].mean()), float(pt.dset.com_fit[1].mean())]
    if c["com"] == "no_shift":
        cfx = [float(pt.dset.com_fit[0].max()), float(pt.dset.com_fit[0].min()), float(pt.dset.com_fit[1].max()),
               float(pt.dset.com_fit[1].min())]
        items.append(("no-shift-origin", "(no_shift_origin %s, no_shift_origin %s)" % (cz(n), cz(m)),
                      (cfx[0], cfx[1], cfx[2], cfx[3]), "origin", {"roi": [n, m], "com_fit": cf}))
    # (3) centring permutation of the preprocessing (integer origins only)
    if all(abs(x - round(x)) < 1e-4 for x in cf):
        sr, sc = int(round(cf[0])), int(round(cf[1]))
        expr = "(map (centre_index %s %s) (map Z.of_nat (seq 0 %d)), map (centre_index %s %s) (map Z.of_nat (seq 0 %d)))" % (
            cz(n), cz(sr), n, cz(m), cz(sc), m)
        p = rng.randrange(npos)
        amp = pt.dset.amplitudes[p].detach().cpu().numpy()
        cen = pt.dset.centered_amplitudes[p].detach().cpu().numpy()
        items.append(("centring-permutation", expr, (amp, cen), "perm", {"com_fit": cf, "pattern": int(p)}))
    return items


def static_correspondence_items():
    import torch
    from quantem.diffractive_imaging.detector_models import DetectorPixelated
    items = []
    for n in list(range(1, 14)) + [16, 17, 32]:
        ff = torch.fft.fftfreq(n, d=1 / n).numpy()
        items.append(("fftfreq-order", "fftfreq_list %s" % cz(n), [int(round(float(x))) for x in ff], None, {"n": n}))
    det = DetectorPixelated()
    for (n, m) in [(4, 4), (5, 7), (8, 6), (9, 9), (16, 12), (7, 8), (1, 3)]:
        out = det.forward(torch.ones((1, 1, n, m), dtype=torch.complex64))[0].numpy()
        am = np.unravel_index(int(np.argmax(out)), out.shape)
        conc = float(out[am] / out.sum())
        items.append(("detector-dc-position", "(dc_position %s, dc_position %s)" % (cz(n), cz(m)),
                      (int(am[0]), int(am[1])), None, {"roi": [n, m], "fraction_in_dc_pixel": conc}))
    return items


def compare_item(item, val):
    label, expr, exp, how, info = item
    if how == "origin":
        want = (float(val[0]), float(val[0]), float(val[1]), float(val[1]))
        return None if tuple(exp) == want else "no_shift origin: model floor(n/2) = %s, library com_fit (max/min per axis) = %s" % (
            tuple(val), tuple(exp))
    if how == "perm":
        amp, cen = exp
        pr, pc = val
        if sorted(pr) != list(range(amp.shape[0])) or sorted(pc) != list(range(amp.shape[1])):
            return "model centring map is not a permutation: %s %s" % (pr, pc)
        pred = amp[np.ix_(pr, pc)]
        err = float(np.abs(pred - cen).max() / max(1e-30, np.abs(cen).max()))
        return None if err < 2e-4 else "centred amplitudes differ from the permuted amplitudes by %.3g (relative)" % err
    if label == "patch-indices":
        r0, c0, pi, fr, fc = val
        er0, ec0, epi, efr, efc = exp
        if (r0, c0) != (er0, ec0):
            return "rounded position: model %s, library %s" % ((r0, c0), (er0, ec0))
        if pi != epi:
            return "patch indices differ: model %s... library %s..." % (str(pi)[:120], str(epi)[:120])
        fr, fc = Fraction(fr[0], fr[1]), Fraction(fc[0], fc[1])
        if fr != efr or fc != efc:
            return "fractional part: model %s %s, library %s %s" % (fr, fc, efr, efc)
        return None
    v = tuple(val) if isinstance(exp, tuple) else val
    return None if v == exp else "model %s, library %s" % (val, exp)


# --------------------------------------------------------------------------------------------

def _ratios(res):
    return {lt: v["gt"] / max(1e-300, max(v["pert_obj"], v["pert_probe"])) for lt, v in res["losses"].items()}


def _summary(res):
    c = res["case"]
    return {"family": c["family"], "roi": c["roi"], "scan": c["gpts"], "step_px": [round(s, 4) for s in c["step_px"]],
            "padding_requested": c["pad"], "padding_effective": res.get("pad_eff"), "object_shape": res.get("obj_shape"),
            "object_type": c["kind"], "slices": c["slices"], "modes": c["modes"], "com_fit_function": c["com"],
            "mode_weights_as_handed_over": [float("%.6g" % x) for x in c["weights"]], "mode_order": mode_order_class(c)[0],
            "orthogonalize_probe": c["orthogonalize"],
            "injected_descan_px": c["descan"], "position_offset_px": res.get("offset"),
            "batch_size": res.get("batch", {}).get("l2_amplitude", {}).get("batch"),
            "exact_half_integer_coordinates": res.get("exact_ties"),
            "pipeline_step_differences": {k: (float("%.3g" % v) if k != "positions" else v)
                                          for k, v in res.get("steps", {}).items()} or None,
            "loss_ratio_gt_over_perturbed": {k: float("%.3g" % v) for k, v in _ratios(res).items()} if "losses" in res else None,
            "history": c.get("history"), "history_log": res.get("history_log"),
            "losses_on_repeat": res.get("losses_repeat"),
            "losses": res.get("losses", {}).get("l2_amplitude")}


def run(ctx: Ctx):
    ctx.hash_sources("diffractive_imaging/dataset_models.py",
                     ["PtychographyDatasetBase._set_patch_indices", "PtychographyDatasetBase._obj_shape_crop_2d",
                      "PtychographyDatasetBase._set_targets", "DatasetConstraints.apply_hard_constraints",
                      "PtychographyDatasetRaster._set_initial_scan_positions_px", "PtychographyDatasetRaster.preprocess",
                      "PtychographyDatasetRaster._set_intensities_com",
                      "PtychographyDatasetRaster._normalize_diffraction_intensities", "PtychographyDatasetRaster.forward"])
    ctx.hash_sources("diffractive_imaging/object_models.py", ["ObjectBase._get_obj_patches", "ObjectPixelated.forward",
                                                              "ObjectConstraints.apply_hard_constraints"])
    ctx.hash_sources("diffractive_imaging/probe_models.py", ["ProbePixelated.forward", "ProbePixelated._apply_weights",
                                                             "ProbePixelated.set_initial_probe",
                                                             "ProbeBase._compute_propagator_arrays"])
    ctx.hash_sources("diffractive_imaging/detector_models.py", ["DetectorPixelated.forward"])
    ctx.hash_sources("diffractive_imaging/ptychography_base.py",
                     ["PtychographyBase.forward_operator", "PtychographyBase.error_estimate",
                      "PtychographyBase.overlap_projection", "PtychographyBase._propagate_array",
                      "PtychographyBase.preprocess", "adjust_padding_power2"])
    ctx.hash_sources("diffractive_imaging/ptychography.py", ["Ptychography.reconstruct"])
    ctx.hash_sources("diffractive_imaging/ptycho_utils.py", ["fourier_shift_expand", "fourier_translation_operator", "shift_array"])
    ctx.cov["rule"] = (
        "a case = one simulated experiment (object type x slices x modes x ROI x raster grid/step x requested padding x "
        "energy/aberrations x com_fit_function x injected descan x batch size), drawn from ctx.rng; the first 12 main cases "
        "cycle through every object type, 1..4 slices and 1..3 modes, the first cases of every family through the batch "
        "sizes (1, whole scan, non-dividing, proper divisor); distinct by (family, roi, scan, type, slices, modes, padding, "
        "step, com, descan); non-trivial when it has >= 4 patterns and a fractional scan step or > 1 slice or > 1 mode, or "
        "belongs to the line / half families. Families: main (even ROI incl. non-square, no_shift; scan steps from 0.15 px, "
        "requested padding up to 40 px), odd (odd / mixed ROI, no_shift), half (scan positions on exact half-integers), line "
        "(gpts (1,n), (n,1), (1,1)), constant / odd-constant (symmetric experiment + injected integer descan; claimed iff the "
        "fitted origin is the zero-frequency pixel + integer to %.0e px, measured per case), constant-control (generic "
        "experiment under `constant`: never claimed). HISTORY (every generated case; sub-stream of the case seed): the same dataset object is "
        "preprocessed 0 / 1 / 2 times with other options before the final preprocessing (other descan fit, forced or automatic rotation / "
        "transpose, bilinear, padding, looped CoM), the same Ptychography object is preprocessed with another or the same padding and "
        "reconstruct(num_iters=0, loss_type) is called 0-2 times, the four losses are evaluated in a permuted order (the first loss cycles "
        "through the four types in the first 8 cases of a family) and again at the end in another order; shares are in the distribution "
        "under history/...  An earlier call that raises is recorded and skipped. MODES (every generated case with >= 2 modes; "
        "sub-stream of the case seed): the weights are handed to the public probe setter strongest first / weakest first / unsorted, "
        "with moderate ratios, within 2 %% of each other, or with ratios down to 1e-3, and the orthogonalisation constraint is on or "
        "off; the first 10 multi-mode cases of a run cycle through (order kind x constraint on / off); shares under mode_order/, "
        "mode_strength/, mode_order_x_constraint/." % COM_PRECONDITION)
    ctx.assumptions += [
        "numpy.fft / torch.fft compute the DFT (oracle contract; both the simulator's propagation/detector and the library use it)",
        "the independent simulator harness/c02_sim.py states the physics convention (transmission exp(+iV), Fresnel propagator "
        "exp(-i pi lambda dz k^2), probe exp(-i chi), detector zero frequency at floor(N/2) for even AND odd N); the global "
        "conjugate convention gives the same intensities and is not distinguishable",
        "gauge fixed by the harness, not by the library: lateral origin (ground truth rolled by the constant integer offset "
        "between library and simulated positions), object period and padding (asked from the library by a dry run), global "
        "phase, probe intensity scale (= mean pattern sum)",
        "at an EXACT half-integer scan position the periodic-window model depends on which neighbour anchors the window; the "
        "simulator then uses round-half-to-even in the library frame (IEEE / torch.round; theorem C02_round_tie). Everywhere "
        "else every nearest-pixel rule agrees",
        "float32 pipeline: 'zero' means <= ZERO_RATIO x the loss at a 0.15-rad / 60%-amplitude perturbation (thresholds and the "
        "measured margins per loss type are in the evidence)",
        "`constant` is claimed only for data whose fitted origin is the zero-frequency pixel + an integer to 2e-6 px "
        "(precondition measured per case by the harness and listed in the evidence)",
    ]
    ctx.cov["trusted_base"] += [
        "Coq 8.16.1 kernel incl. vm_compute (used to run the Z-level model); no native_compute",
        "hand-written model coq/model/C02_Model.v tied to /repo by the correspondence on patch indices, rounding split "
        "(incl. exact ties), centring permutation, no_shift origin, fftfreq order and detector DC position",
        "harness/c02_sim.py (independent float64 NumPy reference simulator) and harness/props/C02.py (generators, gauge "
        "fixing, thresholds, Python->Coq printers), harness/common.py",
        "section hypotheses of coq/lib/DFT.v (root-of-unity laws; shown satisfiable in Q(i), N = 4 and N = 1) and the "
        "norm='ortho' factor sN with sN*sN = 1/(N1 N2); character laws of exp(i .) (shown satisfiable: w4 on (Z,+))",
        "PARTIAL: the end-to-end equality with simulated data is validated per run, not proved",
    ]
    ctx.cov["thresholds"] = {"zero_ratio": ZERO_RATIO, "perturbation_rad": PERT, "com_precondition_px": COM_PRECONDITION,
                             "pipeline_step": STEP_TOL}
    ctx.proofs_or_violation()
    # translator tie: the integer / index / dispatch logic of the CURRENT source (patch indices, their cache, the
    # rounding split, object shape and padding arithmetic, target selection, detector operator chain) is translated
    # and proved equal to the model on every run (coq/gen_proofs/C02_Gen*.v); a broken tie is reported by the framework
    from ..c02_tie import run_tie
    run_tie(ctx, random.Random(ctx.rng.randrange(1 << 30)))

    import gc
    import torch  # noqa: F401  (import cost ~5 s)
    # one thread: the arrays are tiny, and several torch threads on a loaded machine cost 10-20x
    torch.set_num_threads(1)
    r = ctx.rng
    large_object_indices(ctx, r)
    plan = [("main", ctx.budget(30, 320)), ("odd", ctx.budget(10, 90)), ("half", ctx.budget(8, 70)),
            ("line", ctx.budget(6, 40)), ("constant", ctx.budget(8, 60)), ("odd-constant", ctx.budget(4, 24)),
            ("constant-control", ctx.budget(2, 8))]
    corr_quota = {"main": ctx.budget(6, 30), "odd": ctx.budget(3, 12), "half": ctx.budget(4, 16), "line": ctx.budget(2, 8),
                  "constant": ctx.budget(3, 12), "odd-constant": ctx.budget(1, 6)}
    kinds = ["complex", "pure_phase", "potential"]
    max_ratio = {"no_shift": {lt: 0.0 for lt in LOSSES}, "constant": {lt: 0.0 for lt in LOSSES}}
    step_max = {k: 0.0 for k in STEP_TOL}
    unclaimed_report = []
    precond = []
    half_stats = {"cases": 0, "exact_ties": 0, "positions_not_exact": 0}
    corr_items = []
    corr_used = {}

    def stream():
        from ..common import VERIF
        cp = VERIF / "corpus" / "C02" / "cases.json"
        if cp.exists():
            corpus = json.loads(cp.read_text()).get("cases", [])
            ctx.log("corpus: %d regression cases" % len(corpus))
            for c0 in corpus:
                ctx.dist("corpus")
                yield c0["family"], dict(c0)
        for family, count in plan:
            ctx.log("family %s: %d cases" % (family, count))
            for k in range(count):
                c = gen_case(r, family, quick=ctx.quick)
                if k < 8:
                    c["batch_mode"] = BATCH_MODES[k % 4]
                if family == "odd-constant" and k % 2 == 0:
                    c["descan"] = [0, 0]
                if family == "main" and k < 12:
                    c["kind"], c["slices"], c["modes"] = kinds[k % 3], 1 + k % 4, 1 + (k // 2) % 3
                    c["thick"] = [round(r.uniform(1.0, 12.0), 3) for _ in range(c["slices"] - 1)]
                    w = [0.6 ** i * r.uniform(0.6, 1.0) for i in range(c["modes"])]
                    c["weights"] = [x / sum(w) for x in w]
                # what was done to the same dataset / ptychography object before (sub-stream of the case seed: the
                # experiments of a given VERIF_SEED are the ones of the earlier rounds)
                c["history"] = gen_history(random.Random(c["seed"] + 101), c, k)
                # the order / relative strength of the modes as the caller hands them over (sub-stream of the case seed)
                gen_mode_order(random.Random(c["seed"] + 211), c, multi_mode[0])
                multi_mode[0] += c["modes"] > 1
                yield family, c

    multi_mode = [0]
    frozen = False
    for family, c in stream():
        keep = corr_used.get(family, 0) < corr_quota.get(family, 0)
        try:
            res = run_case(c, want_arrays=keep)
        except Exception as e:  # the library (or the simulator) crashed on a generated experiment
            import traceback
            tb = traceback.format_exc()
            where = "harness" if "c02_sim.py" in tb.splitlines()[-3] else "library"
            ctx.count(case_key(c), nontrivial=False)
            ctx.dist("crash/%s" % type(e).__name__)
            ctx.violation("pipeline-exception/%s/%s" % (where, type(e).__name__),
                          "the %s raised %s: %s on a simulated experiment [roi %s, scan %s step %s px, padding %s, %s]" % (
                              where, type(e).__name__, str(e)[:200], c["roi"], c["gpts"],
                              [round(s, 3) for s in c["step_px"]], c["pad"], c["com"]),
                          {"kind": "case", "case": c, "traceback": tb[-1500:]})
            continue
        if not frozen:
            # Ptychography.reconstruct() calls gc.collect() twice per epoch; with torch and the library imported a full
            # collection costs ~0.2 s.  Freezing the objects that exist now (modules, code) keeps later collections cheap.
            gc.collect()
            gc.freeze()
            frozen = True
        npos = c["gpts"][0] * c["gpts"][1]
        frac_step = any(abs(s - round(s)) > 1e-6 for s in c["step_px"])
        bsz = res["batch"]["l2_amplitude"]["batch"]
        ctx.count(case_key(c), nontrivial=(npos >= 4 and (frac_step or c["slices"] > 1 or c["modes"] > 1))
                  or family in ("line", "half"))
        ctx.dist("family/%s" % family)
        ctx.dist("object_type/%s" % c["kind"])
        ctx.dist("slices/%d" % c["slices"])
        ctx.dist("aperture/%s" % ("reaches-or-overfills-detector" if c.get("overfill") else "inside-detector"))
        ctx.dist("modes/%d" % c["modes"])
        ctx.dist("roi/%s" % ("odd" if (c["roi"][0] % 2 or c["roi"][1] % 2) else "square" if c["roi"][0] == c["roi"][1] else "non-square"))
        ctx.dist("scan_step/%s" % ("below one pixel" if min(c["step_px"]) < 1 and npos > 1 else "fractional" if frac_step else "integer"))
        ctx.dist("scan_grid/%s" % ("single pattern" if npos == 1 else "single line" if 1 in c["gpts"] else "2-D"))
        ctx.dist("padding_requested/%s" % ("zero" if c["pad"] == [0, 0] else "large (> 10 px)" if max(c["pad"]) > 10 else "nonzero"))
        ctx.dist("object/%s" % ("square" if res["obj_shape"][0] == res["obj_shape"][1] else "non-square"))
        ctx.dist("object_vs_roi/%s" % ("smaller than the ROI on an axis (window wraps onto itself)"
                                       if (res["obj_shape"][0] < c["roi"][0] or res["obj_shape"][1] < c["roi"][1]) else "holds the ROI"))
        ctx.dist("batch_size/%s" % ("one" if bsz == 1 and npos > 1 else "whole scan" if bsz == npos else
                                    "divides" if npos % bsz == 0 else "non-dividing"))
        ctx.dist("orthogonalize_probe/%s" % c["orthogonalize"])
        mo, ms = mode_order_class(c)
        ctx.dist("mode_order/%s" % mo)
        ctx.dist("mode_strength/%s" % ms)
        if c["modes"] > 1:
            ctx.dist("mode_order_x_constraint/%s, orthogonalize_probe %s" % (mo, "on" if c["orthogonalize"] else "off"))
        h_ = c.get("history")
        if not h_:
            ctx.dist("history/none recorded (corpus case: fresh objects, fixed loss order)")
        else:
            ctx.dist("history/dataset preprocessed %d time(s) with other options before the final one" % len(h_["dset"]))
            ctx.dist("history/earlier Ptychography.preprocess or reconstruct(0) calls: %d" % len(h_["pt"]))
            ctx.dist("history/losses selected before the first evaluation: %d" % len(h_["warm"]))
            ctx.dist("history/first evaluated loss: %s" % h_["order"][0])
            for hl in res.get("history_log", []):
                if "raised" in hl:
                    ctx.dist("history/earlier call %s (skipped)" % hl.split(": ", 1)[1])
            for hd in h_["dset"]:
                ctx.dist("history/earlier dataset com_fit_function: %s" % hd["com"])
            if h_["dset"] and "amplitude" in h_["order"][0] and not any("intensity" in w_ for w_ in h_["warm"]) and not any(
                    x.get("op") == "reconstruct0" for x in h_["pt"]):
                ctx.dist("history/re-preprocessed dataset AND amplitude loss evaluated before any intensity loss")
        ctx.dist("probe_perturbation/%s" % ("observable" if res.get("probe_pert_observable", 1.0) > PROBE_OBSERVABLE
                                            else "unobservable (clause not judged)"))
        claim, pre = judge(res)
        if pre is not None:
            precond.append(pre)
            ctx.dist("constant/%s/precondition_%s" % (family, "met" if pre["met"] else "unmet"))
            if c["descan"] != [0, 0] and pre["met"]:
                ctx.dist("constant/injected_integer_descan_claimed/%d px" % max(abs(c["descan"][0]), abs(c["descan"][1])))
        if family == "half":
            half_stats["cases"] += 1
            half_stats["exact_ties"] += res.get("exact_ties", 0)
            half_stats["positions_not_exact"] += 0 if res.get("positions_exact") else 1
            ctx.dist("half/%s" % ("exact ties present" if res.get("exact_ties", 0) and res.get("positions_exact") else "no exact tie"))
        bad = oracle(res, claim_zero=claim)
        if not claim:
            bad = restrict_unclaimed(bad)
            unclaimed_report.append(_summary(res))
        else:
            rt = _ratios(res)
            for lt in LOSSES:
                max_ratio[c["com"]][lt] = max(max_ratio[c["com"]][lt], rt[lt])
            for k_ in step_max:
                step_max[k_] = max(step_max[k_], float(res["steps"][k_]))
        for key, what in bad:
            ctx.violation(key, what, {"kind": "case", "case": c, "observed": _summary(res)})
        if keep and claim and "_pt" in res:
            corr_used[family] = corr_used.get(family, 0) + 1
            for it in correspondence_items(res, r):
                corr_items.append((it, c))
        if claim:
            ctx.sample(_summary(res), limit=7)
        for kk in [x for x in res if x.startswith("_")]:
            del res[kk]
    ctx.cov["max_ratio"] = {k: {lt: float("%.3g" % v) for lt, v in d.items()} for k, d in max_ratio.items()}
    # measured margin per loss type = threshold / largest ratio seen this run (the smallest margin is the l1 one)
    ctx.cov["margin"] = {k: {lt: (float("%.3g" % (ZERO_RATIO[k][lt] / v)) if v > 0 else None) for lt, v in d.items()}
                         for k, d in max_ratio.items()}
    ctx.cov["step_max"] = {k: float("%.3g" % v) for k, v in step_max.items()}
    n_met = sum(1 for p_ in precond if p_["met"])
    ctx.cov["constant_precondition"] = {
        "text": "fitted origin (mean centre of mass) = zero-frequency pixel floor(n/2) + injected integer descan, to %.0e px; measured "
                "on the simulated data before they reach the library. Met -> the case is claimed (all oracle clauses); unmet -> "
                "reported only. The l1 ratio of the unmet cases grows with the deviation (sub-pixel interpolation of the "
                "measured amplitudes), which is why the claim needs the precondition." % COM_PRECONDITION,
        "checked": len(precond), "met": n_met, "unmet": len(precond) - n_met, "cases": precond[:40]}
    ctx.cov["half_integer_positions"] = half_stats
    ctx.cov["not_claimed_report"] = {
        "text": "`constant` cases whose fitted origin is not zero-frequency pixel + integer (incl. the constant-control family, "
                "which is built to miss it) and half-integer cases whose library positions are not the exact half-integers. "
                "None of these count as violations; odd ROI sizes ARE claimed now.",
        "cases": unclaimed_report[:12]}
    ctx.log("oracle: %d cases evaluated; max ratio %s; margins %s" % (ctx.cov["evaluations"], ctx.cov["max_ratio"], ctx.cov["margin"]))
    ctx.log("per-step maxima %s; constant precondition met %d / %d; half-integer %s" % (
        ctx.cov["step_max"], n_met, len(precond), half_stats))

    # ---- correspondence
    items = [(it, None) for it in static_correspondence_items()] + corr_items
    try:
        vals = ctx.coq_eval("corr", PRE, [it[0][1] for it in items], shard=20)
    except Exception as e:
        ctx.violation("model-evaluation-failed", "the Coq model could not be evaluated: %s" % str(e)[-400:], {"kind": "corr"}, found_input=False)
        vals = []
    nd = 0
    for (it, c), v in zip(items, vals):
        ctx.cov["traces_validated_against_impl"] += 1
        ctx.dist("correspondence/%s%s" % (it[0], "/exact-tie" if it[4].get("exact_tie") else ""))
        msg = compare_item(it, v)
        if msg:
            nd += 1
            ctx.cov["disagreements_checked"] += 1
            ctx.violation("%s-correspondence" % it[0],
                          "library and Z-level model disagree on %s (%s): %s" % (it[0], it[4], msg),
                          {"kind": "corr", "label": it[0], "expr": it[1], "info": it[4], "case": c}, found_input=False)
    ctx.log("correspondence: %d items, %d disagreements" % (len(vals), nd))


def replay(ctx: Ctx, path):
    import torch
    torch.set_num_threads(1)
    rp = json.loads(open(path).read())
    if rp.get("kind") != "case":
        print("replay of kind %r: re-run ./check C02 (expr: %s)" % (rp.get("kind"), rp.get("expr")))
        return 0
    c = rp["case"]
    try:
        res = run_case(c)
    except Exception as e:
        import traceback
        traceback.print_exc()
        print("the pipeline raised %s on this experiment: the property fails here" % type(e).__name__)
        return 1
    claim, pre = judge(res)
    bad = oracle(res, claim_zero=claim)
    if not claim:
        bad = restrict_unclaimed(bad)
    print(json.dumps(_summary(res), indent=1))
    if pre is not None:
        print("  `constant` precondition:", json.dumps(pre))
    if "steps" in res:
        print("  per-step differences (library vs simulator):", {k: v for k, v in res["steps"].items()})
    for lt, v in res.get("losses", {}).items():
        print("  %-13s ground truth %.6g   perturbed object %.6g   perturbed probe %.6g" % (lt, v["gt"], v["pert_obj"], v["pert_probe"]))
    for k, wht in bad:
        print("  FAILS [%s]: %s" % (k, wht))
    print("oracle:", "property fails on this case" if bad else "property holds on this case")
    return 1 if bad else 0
