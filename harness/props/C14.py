"""C14 — serializer skip lists.  Theorems: coq/props/C14_Properties.v (model shared with C01).

Tie: generated attribute-nested object graphs with random subsets of skip names (present at
several depths, absent) and skip types, given at save time, at load time or both.  Per case,
inside one vm_compute:
  enc : node_eqb (save_file sn st v) observed_store         (incl. the recorded skip lists)
  dec : load_file usn [] observed_store = loaded object
  thm : load_file usn [] (save_file sn st v) = prune_load (usn ++ sn) st (norm (prune_save sn st v))
  rt  : that prediction = loaded object
Oracle (the property text on the real objects): the loaded object has exactly the surviving
attributes at every attribute-nested level, each equal to the one loaded without any skipping;
skipping names at load time == at save time; recorded lists suffice on a later plain load;
absent names change nothing; a store holding every attribute whose root metadata gets skip lists
(names and types) written into it afterwards loads like an explicit load-time skip.  Plus Ptychography.save's own skip=["_dset","dset"] on a toy
reconstruction object, and the library's OWN CALLER of the skip machinery as a family (gen_ptycho_cases): Ptychography.save(skip=<caller's
names / types>, save_raw_data=False|True) on a toy reconstruction carrying extra attribute-nested levels, loaded by load(skip=names) /
load / Ptychography.from_file, both stores: the same oracle clauses (oracle only; impl_C01.run_ptycho_skip_case)."""
from __future__ import annotations

import hashlib
import json

from ..common import Ctx
from .. import gen_C01 as G
from .C01 import ASSUMPTIONS, TRUSTED

PRE = """From QV.lib Require Import Prelude.
From QV.model Require Import C01_Model C14_Hybrid_Model.
From QV.proof Require Import C01_Proofs_Store.
From Coq Require Import String.
Local Open Scope string_scope.
Definition chk14 (sn st usn ust : list string) (v : value) (obs : node) (ld : value) :=
  let expect := prune_load (usn ++ sn) (ust ++ filter (fun t => negb (mem t ust)) st) (norm (prune_save sn st v)) in
  [wf_obj v; attr_nested v; node_eqb (save_file sn st v) obs; res_eqb (load_file usn ust obs) (RVal ld);
   res_eqb (load_file usn ust (save_file sn st v)) (RVal expect); value_eqb expect ld;
   (* names only: skipping at load time = skipping at save time = pruning norm v *)
   match st, ust with [], [] => value_eqb (prune_load (usn ++ sn) [] (norm v)) expect | _, _ => true end;
   (* save-time types only: what is left is exactly norm of the save-pruned graph (C14_skip_types_save) *)
   match sn, usn, ust with [], [], [] => value_eqb (norm (prune_save [] st v)) expect | _, _, _ => true end;
   wf_node (save_file sn st v)].
(* nn.Module + AutoSerialize hybrid as the ROOT object: model/C14_Hybrid_Model.v (load_file_hyb = load_file followed by
   the final hasattr / delattr loop acting on torch's registries); theorems C14_hybrid_* *)
Definition chk14h (sn st usn ust : list string) (v : value) (obs : node) (ld : value) :=
  let d := hyb_delattr (usn ++ sn) in
  let expect := d (prune_load (usn ++ sn) (ust ++ filter (fun t => negb (mem t ust)) st) (norm (prune_save sn st v))) in
  [wf_obj v; attr_nested v; node_eqb (save_file sn st v) obs; res_eqb (load_file_hyb usn ust obs) (RVal ld);
   res_eqb (load_file_hyb usn ust (save_file sn st v)) (RVal expect); value_eqb expect ld;
   match st, ust with [], [] => value_eqb (d (prune_load (usn ++ sn) [] (norm v))) expect | _, _ => true end;
   true; wf_node (save_file sn st v)].
"""

NAMES = ["a", "b", "x", "data", "_dset", "dset", "w0", "meta"]
ABSENT = ["zzz", "missing", "_nope", "a.b", "0"]
# abstract base classes of the model's virtual-subclass table (C01_Model.abc_domain): membership by registration
ABC_TYPES = ["numbers.Number", "numbers.Integral", "numbers.Real", "numbers.Complex", "numbers.Rational",
             "collections.abc.Sequence", "collections.abc.MutableSequence", "collections.abc.Mapping",
             "collections.abc.MutableMapping", "collections.abc.Set", "collections.abc.MutableSet"]
TYPES = ["numpy.ndarray", "builtins.int", "builtins.float", "builtins.str", "builtins.list", "builtins.dict",
         "torch.Tensor", "harness.c01_classes.NodeB", "builtins.bool", "builtins.tuple", "builtins.set"]


HYB_NAMES = NAMES + ["linear", "head", "scale", "running"]
HYB_CLASSES = ["HybridNet", "HybridNetB"]
# attribute names that are PREFIXES OF EACH OTHER (a listed name removes exactly the attribute of that name, never one whose
# name merely starts with it, at save time and at load time, in both stores): short names, the same name plus a suffix
# (letters, '_', '.', digits), digit names, and short names that occur nowhere but are a prefix of names that do
PREFIX_FAMILIES = [
    ["a", "a_b", "a.b", "ab", "a0", "a_", "a_b_c"],
    ["x", "x1", "x10", "x_model", "x.y"],
    ["data", "data_raw", "dataset", "data.meta", "dat", "data0"],
    ["_dset", "_dset_meta", "dset", "dset2", "_d", "dset_"],
    ["w0", "w0_init", "w", "w00", "w0.bias"],
    ["meta", "metadata", "meta_path", "met", "meta_"],
    ["b", "b_model", "bb", "b1", "b_model_state"],
    ["0", "00", "01", "0_a", "1", "10", "100"],
]


# LOOK-ALIKE VALUES x TYPE LISTS.  "every attribute that is an INSTANCE of a listed type" is decided on the object being
# saved; the file holds normalised values (a NumPy scalar is stored as a JSON number and loads as a Python number, a Path
# as a flagged string, an all-numeric list as an array).  Families of values that look alike across that boundary:
# per family the Python-side types, the NumPy / pathlib-side types (to be listed against the values of the OTHER side)
PY_PRIMS = ["builtins.int", "builtins.float", "builtins.bool", "builtins.str", "builtins.complex", "builtins.list",
            "builtins.tuple", "builtins.dict", "builtins.set"]
NP_TYPES = ["numpy.ndarray", "numpy.generic", "numpy.number", "numpy.integer", "numpy.signedinteger", "numpy.unsignedinteger",
            "numpy.floating", "numpy.inexact", "numpy.complexfloating", "numpy.bool", "numpy.int8", "numpy.int32", "numpy.int64",
            "numpy.uint8", "numpy.uint64", "numpy.float16", "numpy.float32", "numpy.float64", "numpy.complex64",
            "numpy.complex128", "pathlib.Path", "pathlib.PurePath", "pathlib.PosixPath"]
NONE_TYPE = "builtins.NoneType"
LOOKALIKE = {
    "int": (["builtins.int"], ["numpy.integer", "numpy.signedinteger", "numpy.unsignedinteger", "numpy.int64", "numpy.int32", "numpy.number", "numpy.generic"]),
    "float": (["builtins.float"], ["numpy.floating", "numpy.float64", "numpy.float32", "numpy.inexact", "numpy.number", "numpy.generic"]),
    "bool": (["builtins.bool", "builtins.int"], ["numpy.bool", "numpy.generic"]),
    "complex": (["builtins.complex"], ["numpy.complexfloating", "numpy.complex128", "numpy.complex64", "numpy.inexact"]),
    "str": (["builtins.str"], ["pathlib.Path", "pathlib.PurePath", "pathlib.PosixPath"]),
    "seq": (["builtins.list", "builtins.tuple", "builtins.set"], ["numpy.ndarray"]),
    "none": ([NONE_TYPE], ["numpy.generic"]),
}
INT_DT = ["int8", "int16", "int32", "int64", "uint8", "uint16", "uint32", "uint64"]


def gen_lookalike_value(r):
    """(family, side, spec): side 'py' = Python value, 'np' = NumPy scalar / pathlib.Path, 'arr' = 0-d (or 1-d) array"""
    fam = r.choice(["int", "int", "float", "float", "bool", "bool", "complex", "str", "seq", "none"])
    side = r.choice(["py", "np", "np", "arr"])
    sd = r.randrange(10 ** 6)
    if fam == "int":
        dt = r.choice(INT_DT)
        v = {"py": ["int", r.choice([0, 1, -3, 41, 256, 2 ** 40])], "np": ["np", dt, r.choice([0, 1, 7, 41, 100])],
             "arr": ["arr", dt, [], sd, "C"]}[side]
    elif fam == "float":
        dt = r.choice(["float16", "float32", "float32", "float64"])
        v = {"py": ["float", r.choice([0.75, -2.5, 0.0, 1e22]).hex()], "np": ["np", dt, r.choice([0.5, 1.5, -2.0, 0.125]).hex()],
             "arr": ["arr", dt, [], sd, "C"]}[side]
    elif fam == "bool":
        v = {"py": ["bool", r.random() < 0.5], "np": ["np", "bool", r.random() < 0.5], "arr": ["arr", "bool", [], sd, "C"]}[side]
    elif fam == "complex":
        dt = r.choice(["complex64", "complex128"])
        v = {"py": ["complex", r.choice([0.0, 1.5]), r.choice([1.0, -0.5])], "np": ["np", dt, [r.choice([0.0, 1.5]), r.choice([1.0, -0.5])]],
             "arr": ["arr", dt, [], sd, "C"]}[side]
    elif fam == "str":
        s = r.choice(["a/b", "rel/x.txt", "x", "data dir/y"])
        v = {"py": ["str", s], "np": ["path", s], "arr": ["arr", "<U3", [], sd, "C"]}[side]
    elif fam == "seq":
        items = [["int", r.randint(-9, 9)] for _ in range(r.randint(0, 3))]
        if side == "py":
            v = [r.choice(["list", "tuple", "set"]), items if r.random() < 0.7 else [["str", "s"], ["int", 1]]]
        elif side == "np":
            v = ["dict", [["k", ["int", 1]]]] if r.random() < 0.3 else [r.choice(["list", "tuple"]), [["np", "int16", 3], ["np", "float32", (0.5).hex()]]]
        else:
            v = ["arr", r.choice(["int64", "float64", "bool"]), r.choice([[3], [0], [2, 2]]), sd, "C"]
    else:
        side, v = "py", ["none"]
    return fam, side, v


def gen_lookalike_graph(r, depth, width, acc, path=""):
    """attribute-nested graph whose attribute values are look-alike values (80%) or ordinary ones; acc collects
    (path, family, side) of every look-alike attribute, at every level"""
    fields = []
    for nm in r.sample(NAMES, r.randint(3, width)):
        if depth > 0 and r.random() < 0.3:
            v = gen_lookalike_graph(r, depth - 1, width, acc, path + nm + ".")
        elif r.random() < 0.8:
            fam, side, v = gen_lookalike_value(r)
            acc.append((path + nm, fam, side))
        else:
            v = G.gen_value(r, 1, False, 3, allow_obj=False, torch_ok=False)
        fields.append([nm, v])
    return ["obj", r.choice(["NodeA", "NodeB", "NodeC"]), fields]


def gen_lookalike_types(r, acc):
    """a type list AGAINST the look-alikes present: for 1-3 attributes of the graph a type of the OTHER side of their
    family (NumPy scalar / 0-d array present -> the Python type; Python value present -> a NumPy type; str <-> Path;
    list <-> ndarray), plus 0-2 types drawn from all Python primitive and NumPy / pathlib types"""
    out = []
    np_scal = [a for a in acc if a[2] == "np" and a[1] in ("int", "float", "bool", "complex")]     # true NumPy scalars
    np_side = [a for a in acc if a[2] != "py" and a not in np_scal]                               # 0-d arrays, Paths, arrays
    py_side = [a for a in acc if a[2] == "py"]
    for pool_a, idx, p in ((np_scal, 0, 0.85), (np_side, 0, 0.4), (py_side, 1, 0.5)):
        if pool_a and r.random() < p:
            _, fam, _ = r.choice(pool_a)
            out.append(r.choice(LOOKALIKE[fam][idx]))
    out += r.sample(PY_PRIMS + NP_TYPES, r.choice([0, 1, 1, 2]))
    if not out:
        out = r.sample(PY_PRIMS, 1)
    seen = []
    for t in out:
        if t not in seen:
            seen.append(t)
    return seen


def _strict_prefix_pairs(names):
    """(short, long) pairs among `names` with long starting with short"""
    return [(s, l) for s in names for l in names if l != s and l.startswith(s)]


def gen_prefix_pool(r):
    """name pool of one prefix-sharing case: two families (+ two ordinary names)"""
    fams = r.sample(PREFIX_FAMILIES, 2)
    return [n for f in fams for n in f] + r.sample(["k", "n", "shape", "cfg"], 2)


def gen_hybrid(r, depth, width, child=False, names=None):
    """nn.Module + AutoSerialize hybrid: entries (name, role, value); sub-modules (plain torch modules or hybrids, saved
    whole), parameters, buffers, plain attributes (any value kind; below a ROOT hybrid also attribute-nested pure
    AutoSerialize objects, which _recursive_save / _recursive_load descend into).  Names come from the same pool as
    everywhere else, so a skipped name can be a parameter here and a plain attribute one level down."""
    ent = []
    # (torch rejects '.' in the names of parameters / buffers / sub-modules, which plain setattr on a Module also registers)
    pool_h = HYB_NAMES if names is None else [n for n in names if "." not in n] + ["linear", "head"]
    for nm in r.sample(pool_h, r.randint(3, min(len(pool_h), width + 2))):
        role = r.choice(["module", "param", "buffer", "plain", "plain"])
        sd = r.randrange(10 ** 6)
        if role == "module":
            v = gen_hybrid(r, 0, 3, True, names) if (depth > 0 and r.random() < 0.3) else ["module", r.choice(["linear", "seq", "tiny", "tiny-nobuf"]), sd]
        elif role == "param":
            v = ["tensor", r.choice(["float32", "float64"]), r.choice([[2], [3], [2, 2], []]), r.random() < 0.8, True, sd]
        elif role == "buffer":
            v = ["tensor", r.choice(["float32", "int64", "bool"]), r.choice([[2], [3], [1, 2], []]), False, False, sd]
        elif not child and depth > 0 and r.random() < 0.35:
            v = gen_skip_graph(r, depth - 1, width, names=names)
        else:
            v = G.gen_value(r, 1, False, 3, allow_obj=False)
            if v[0] == "obj":
                v = ["int", 1]
        ent.append([nm, role, v])
    return ["hyb", r.choice(HYB_CLASSES), ent]


def gen_skip_graph(r, depth, width, cont_obj=False, names=None):
    fields = []
    pool_n = names
    names = r.sample(pool_n or NAMES, r.randint(2, width if pool_n is None else width + 2))
    cls = r.choice(["NodeA", "NodeB", "NodeC"])
    if pool_n is None and r.random() < 0.15:
        # attrs-decorated class (with or without slots): declared fields only; a skipped field is simply unset after load
        cls = r.choice(G.ATTRS_CLASSES)
        names = r.sample(G.ATTRS_FIELDS, r.randint(2, min(width, len(G.ATTRS_FIELDS))))
    for nm in names:
        if depth > 0 and r.random() < (0.4 if pool_n is None else 0.25):
            v = gen_skip_graph(r, depth - 1, width, cont_obj, pool_n)
        elif r.random() < 0.06:
            v = gen_hybrid(r, 0, 3, child=True, names=pool_n)       # a hybrid below the root: _serialize_value saves it whole (module kind)
        elif cont_obj and r.random() < 0.3:
            v = [r.choice(["list", "tuple"]), [gen_skip_graph(r, 0, 3), ["str", "s"]]] if r.random() < 0.6 else \
                ["dict", [["k", gen_skip_graph(r, 0, 3)]]]
        else:
            v = G.gen_value(r, 1, False, 3, allow_obj=False)
            if v[0] == "obj":
                v = ["int", 1]
        fields.append([nm, v])
    return ["obj", cls, fields]


def rekey_dicts(r, spec, pool_n):
    """dict-valued attributes of a prefix-sharing case get their keys from the same pool (in place)"""
    if spec[0] in ("obj", "hyb"):
        for ent in spec[2]:
            rekey_dicts(r, ent[-1], pool_n)
    elif spec[0] in ("list", "tuple"):
        for v in spec[1]:
            rekey_dicts(r, v, pool_n)
    elif spec[0] == "dict":
        keys = r.sample(pool_n, min(len(pool_n), len(spec[1])))
        for ent, k in zip(spec[1], keys):
            ent[0] = k
            rekey_dicts(r, ent[1], pool_n)


def level_names(spec, acc):
    """attribute names per attribute-nested object, root first"""
    if spec[0] in ("obj", "hyb"):
        acc.append([ent[0] for ent in spec[2]])
        for ent in spec[2]:
            level_names(ent[-1], acc)
    return acc


def prefix_survivors(spec, skipped, acc):
    """value kinds of the attributes that survive next to a skipped name that is a strict prefix of theirs (same object)"""
    if spec[0] in ("obj", "hyb"):
        for ent in spec[2]:
            nm, v = ent[0], ent[-1]
            if nm in skipped:
                continue
            if any(nm.startswith(s) and nm != s for s in skipped):
                acc.append(v[0] if spec[0] == "obj" else "hybrid-" + ent[1])
            prefix_survivors(v, skipped, acc)
    return acc


def names_in(spec, acc):
    if spec[0] == "hyb":
        for k, _, v in spec[2]:
            acc.add(k)
            names_in(v, acc)
    if spec[0] == "obj":
        for k, v in spec[2]:
            acc.add(k)
            names_in(v, acc)
    return acc


# THE LIBRARY'S OWN CALLER of the skip machinery: Ptychography.save(skip=..., save_raw_data=...) merges the caller's list with
# its default ["_dset", "dset"]; the property's clauses hold for that caller exactly as for a plain AutoSerialize object
PT_ROOT_NAMES = ["_rng_seed", "_obj_fov_mask", "_val_ratio", "_iter_losses", "_batch_size", "_obj_padding_px", "_propagators",
                 "_rng", "_val_mode", "_preprocessed", "_detector_model", "_notes"]
PT_NESTED_NAMES = ["depth_note", "gain", "_rng_seed", "weights", "gen", "label", "_val_ratio", "data"]   # two recur at the root
PT_KINDS = ["int", "float", "str", "ndarray", "tensor", "gen", "list"]
PT_TYPES = ["numpy.random.Generator", "torch.Tensor", "numpy.ndarray", "builtins.float", "builtins.list"]
PT_GRID = [(True, "save"), (False, "save"), (True, "both"), (False, "load"), (True, "load"), (False, "both")]


def gen_ptycho_cases(ctx: Ctx):
    r = ctx.rng
    cases = []
    for j in range(ctx.budget(6, 36)):
        raw, when = PT_GRID[j % len(PT_GRID)]
        ent = lambda k: [[nm, r.choice(PT_KINDS), r.randrange(10 ** 6)] for nm in r.sample(PT_NESTED_NAMES, k)]  # noqa: E731
        hang = {"det": ent(r.randint(2, 3)), "notes": ent(r.randint(3, 4)), "inner": ent(r.randint(2, 4))}
        nested = sorted({e[0] for lv in hang.values() for e in lv} | {"inner"})
        pick = lambda: r.sample(PT_ROOT_NAMES, r.randint(1, 2)) + r.sample(nested, r.randint(1, 2)) + \
            r.sample(ABSENT, r.choice([0, 1]))  # noqa: E731
        form = r.choice(["list", "list", "tuple", "scalar"])
        sn = pick() if when in ("save", "both") else []
        ln = pick() if when in ("load", "both") else []
        st = r.sample(PT_TYPES, r.choice([1, 1, 2])) if (when != "load" and (j % len(PT_GRID) == 0 or r.random() < 0.5)) else []
        if form == "scalar":                     # a single name (or type) given as such, not in a list
            if sn and r.random() < 0.5 and st:
                sn, st = [], st[:1]
            else:
                sn, st = sn[:1], []
            ln = ln[:1]
        cases.append({"id": "p%03d" % j, "prop": "C14", "label": "ptycho-own-caller", "raw": raw, "store": r.choice(["zip", "dir"]),
                      "when": when, "save_names": sn, "save_types": st, "load_names": ln, "hang": hang,
                      "scalar_form": form == "scalar", "tuple_form": form == "tuple",
                      "via": r.choice(["load", "from_file"])})
    return cases


def gen_cases(ctx: Ctx):
    r = ctx.rng
    cases = []
    n = ctx.budget(44, 900)
    for j in range(n):
        cont_obj = j % 11 == 10
        hyb_root = (not cont_obj) and j % 4 == 1
        # 40% of the cases: names that are prefixes of each other, a short one (present or not) in every skip list
        pool_n = gen_prefix_pool(r) if j % 5 in (2, 4) else None
        spec = gen_hybrid(r, r.choice([1, 2]), r.choice([3, 4, 5]), names=pool_n) if hyb_root else \
            gen_skip_graph(r, r.choice([1, 2, 2, 3]), r.choice([3, 4, 5]), cont_obj, pool_n)
        if pool_n:
            rekey_dicts(r, spec, pool_n)
        present = sorted(names_in(spec, set()))
        # names of the root hybrid that live in its registries (parameters, buffers, sub-modules): 1-2 of them in every pick
        reg = [nm for nm, role, v in spec[2] if role != "plain" or v[0] in ("module", "hyb") or (v[0] == "tensor" and v[4])] if hyb_root else []
        pick = lambda: (r.sample(reg, r.randint(1, min(2, len(reg)))) if reg else []) + \
            r.sample(present, r.randint(0, min(3, len(present)))) + r.sample(ABSENT, r.choice([0, 0, 1, 2]))  # noqa: E731
        mode = r.choice(["save", "load", "both", "both", "none-absent"])
        if hyb_root and mode == "none-absent":
            mode = r.choice(["save", "load", "both"])
        if pool_n:
            # short names first: names that are a strict prefix of another name of the SAME object (root first), then of any
            # level; names of the pool that occur nowhere but are a prefix of one that does
            lv = level_names(spec, [])
            sh_same = sorted({a for nms in lv[:1] for a, _ in _strict_prefix_pairs(nms)}) or \
                sorted({a for nms in lv for a, _ in _strict_prefix_pairs(nms)})
            sh_any = sorted({a for a, _ in _strict_prefix_pairs(present)})
            sh_abs = [a for a in pool_n if a not in present and any(b.startswith(a) for b in present)]
            base = pick
            pick = lambda: (r.sample(sh_same, r.randint(1, min(2, len(sh_same)))) if sh_same else []) + \
                (r.sample(sh_any, 1) if sh_any and r.random() < 0.5 else []) + \
                (r.sample(sh_abs, 1) if sh_abs and r.random() < 0.4 else []) + \
                [x for x in base() if x not in ABSENT or r.random() < 0.3]  # noqa: E731
            mode = r.choice(["save", "load", "load", "both", "both"])
        sn_s = pick() if mode in ("save", "both") else []
        sn_l = pick() if mode in ("load", "both") else []
        if mode == "none-absent":
            sn_s, sn_l = r.sample(ABSENT, r.randint(0, 2)), r.sample(ABSENT, r.randint(1, 3))
        st_s = r.sample(TYPES, r.choice([1, 1, 2])) if (r.random() < 0.4 and mode != "none-absent" and not hyb_root) else []
        abc = False
        if mode != "none-absent" and j % 9 == 4 and not hyb_root:
            # abstract base classes: "every attribute that is an INSTANCE of a listed type" includes virtual
            # subclasses (int is a numbers.Number, list a collections.abc.Sequence) that no MRO lists: the model
            # decides them through its virtual-subclass table abcs_of (tied to isinstance() by C01's dispatch rows)
            st_s, abc = r.sample(ABC_TYPES, r.choice([1, 1, 2])), True
            if r.random() < 0.5:
                st_s = st_s + r.sample(TYPES, 1)          # an abstract base class next to a concrete type
        # load-time TYPE skipping (exact type in the code; not part of the property text: correspondence only)
        st_l = r.sample(TYPES + ["torch.nn.parameter.Parameter", "torch.nn.modules.linear.Linear", "builtins.complex"],
                        r.choice([1, 1, 2])) if (j % 7 == 3 and not hyb_root) else []
        cases.append({"id": "s%04d" % j, "prop": "C14", "label": "graph", "spec": spec, "cfg": G.gen_cfg(r),
                      "skip_save_names": sn_s, "skip_save_types": st_s, "skip_load_names": sn_l, "skip_load_types": st_l,
                      "save_eq_load": (not st_s) and (not st_l) and not cont_obj and (j % 2 == 0 or bool(pool_n)), "container_objects": cont_obj,
                      "prefix_names": bool(pool_n),
                      "mode14": mode, "dispatch": False, "abc_types": abc, "hybrid_root": hyb_root, "hybrid_registry_names": reg})
    # LOOK-ALIKE cases (appended: the stream of the cases above is unchanged): type lists of Python primitive types and
    # NumPy / pathlib types against graphs holding the look-alike values of the other side, at every nesting level;
    # types at save time (oracle + model), repeated at load time (oracle + model: a recorded list that is repeated changes
    # nothing), at load time only / other types at load time (the property text has no clause: model only)
    for j in range(ctx.budget(16, 320)):
        acc = []
        spec = gen_lookalike_graph(r, r.choice([0, 1, 1, 2, 3]), r.choice([4, 5, 6]), acc)
        present = sorted(names_in(spec, set()))
        tmode = ["save", "both-same", "save", "load", "both-other"][j % 5]
        types = gen_lookalike_types(r, acc)
        st_s = types if tmode != "load" else []
        st_l = {"save": [], "both-same": list(types), "load": types + ([NONE_TYPE] if r.random() < 0.3 else []),
                "both-other": gen_lookalike_types(r, acc) + ([NONE_TYPE] if r.random() < 0.3 else [])}[tmode]
        nmode = r.choice(["none", "none", "save", "load", "both"])
        pickn = lambda: r.sample(present, r.randint(1, min(2, len(present)))) + r.sample(ABSENT, r.choice([0, 0, 1]))  # noqa: E731
        cases.append({"id": "t%04d" % j, "prop": "C14", "label": "graph", "spec": spec, "cfg": G.gen_cfg(r),
                      "skip_save_names": pickn() if nmode in ("save", "both") else [], "skip_save_types": st_s,
                      "skip_load_names": pickn() if nmode in ("load", "both") else [], "skip_load_types": st_l,
                      "load_types_repeat_saved": tmode == "both-same",
                      "save_eq_load": False, "container_objects": False, "prefix_names": False, "mode14": "types-" + tmode + "/names-" + nmode,
                      "dispatch": False, "abc_types": False, "hybrid_root": False, "hybrid_registry_names": [],
                      "lookalike": tmode})
    return cases


def run(ctx: Ctx):
    ctx.hash_sources("core/io/serialize.py", ["AutoSerialize.save", "AutoSerialize._recursive_save",
                                              "AutoSerialize._recursive_load", "AutoSerialize._serialize_container",
                                              "AutoSerialize._deserialize_container", "load"])
    ctx.hash_sources("diffractive_imaging/ptychography.py", ["Ptychography.save"])
    ctx.cov["rule"] = (
        "cases: attribute-nested object graphs (depth<=3, 8 attribute names recurring at several depths - in 40% of the cases instead names and dict keys "
        "from two of eight PREFIX-SHARING families (name / name+suffix / name.x / digits / short absent names) with 1-2 strict prefixes of sibling "
        "names in every skip list -, plain classes and 15% "
        "attrs-decorated classes with/without slots; every 4th root is an nn.Module + AutoSerialize HYBRID with sub-modules, "
        "parameters, buffers (registry entries) and plain attributes incl. attribute-nested plain objects, 1-2 registry names in "
        "every skip list, names only; 6% of the other attribute values are hybrids saved whole) x skip configuration (names present/absent at save time, load time or both; "
        "0-2 types out of 11 concrete at save time; every 9th case 1-2 of 11 abstract base classes, half of them next to a concrete "
        "type; every 7th case 1-2 types at LOAD time: correspondence only) x (store, compression, "
        "str|Path, mode); every 11th graph has objects inside containers (outside the quantifier: asymmetry recorded only); "
        "distinct by (spec, skip lists, configuration), non-trivial when at least one present name or type is skipped; "
        "plus Ptychography.save's own skip on a toy reconstruction; plus 6 (thorough 36) OWN-CALLER cases: Ptychography.save(skip=caller's list, save_raw_data) "
        "on a toy reconstruction with 2-3 attributes hung on its detector model and a two-level NodeA/NodeB tree (8 names, two of them also root "
        "attributes of the reconstruction; int/float/str/ndarray/tensor/Generator/list values) x grid (save_raw_data True|False) x (skip at save, load, both) "
        "x store x skip given as list / tuple / single str-or-type x 1-2 root names + 1-2 nested names + 0-1 absent names per list x (save, both) 0-2 of 5 types "
        "x plain load by load() or Ptychography.from_file: listed names / instances of listed types absent at every attribute-nested level, the rest equal to "
        "the load of a save without the caller's list, _dset follows save_raw_data, load(skip=names) of that save == save(skip=names) + load (oracle only); "
        "plus 16 (thorough 320) LOOK-ALIKE cases: graphs (depth 0-3) whose attributes hold Python numbers / "
        "str / None / containers next to NumPy scalars of every dtype, pathlib.Path and 0-d arrays of the same families x type lists of Python primitive "
        "and NumPy / pathlib types, 1-2 chosen against look-alikes present, at save time (oracle), save + repeated at load (oracle), load only and "
        "different lists (model only), with and without name lists")
    ctx.assumptions += ASSUMPTIONS + [
        "skip types are given by importable classes; the type list recorded in the file is re-imported by name on load"]
    ctx.cov["trusted_base"] += TRUSTED
    ctx.proofs_or_violation()
    # source tie: serialize.py is translated NOW and proved equal to what the model assumes (harness/c01_tie.py):
    # skip condition, skip-list threading, name / type filters of the loaders, recorded keys, marker chains
    from ..c01_tie import run_tie
    ctx.tie_ok = run_tie(ctx)
    try:
        _run(ctx)
    finally:
        G.shutdown()


def _run(ctx: Ctx):
    from ..impl_C01 import run_ptycho_case
    cases = gen_cases(ctx)
    ctx.log("running %d cases (+ the Ptychography.save corpus case) on the implementation" % len(cases))
    from ..impl_C01 import run_ptycho_skip_case
    pcases = gen_ptycho_cases(ctx)
    fut = G.pool().submit(run_ptycho_case)
    pfuts = [G.pool().submit(run_ptycho_skip_case, pc) for pc in pcases]
    results = G.run_cases(cases)
    exprs, idx = [], []
    n_sel = n_asym = n_asym_seen = n_rec = n_hyb_child = n_hyb_child_surv = 0
    for case, res in zip(cases, results):
        if res.get("harness_exc"):
            # an exception inside one of the extra save/load runs of the skip oracle (e.g. save() raising on a
            # value kind the store cannot hold): judged like every other oracle finding, i.e. only if the model
            # places the graph inside the quantified domain wf_obj; otherwise the graph is outside the claim
            res["diffs"].append(("%s:extra-run-raises" % case.get("label", "graph"),
                                 "a save/load of the skip oracle raised: %s" % res["harness_exc"].strip().splitlines()[-1][:200]))
        cfg = case["cfg"]
        present = names_in(case["spec"], set())
        skipped_present = (set(case["skip_save_names"]) | set(case["skip_load_names"])) & present
        ctx.dist("skip-time/" + case["mode14"])
        if case.get("lookalike"):
            ctx.dist("lookalike-cases/types-at-" + case["lookalike"])
            ctx.dist("lookalike-cases/store/" + cfg["store"])
            for t in case["skip_load_types"]:
                ctx.dist("lookalike-load-type/" + t)
            for k, n in res.get("la_stats", {}).items():
                ctx.dist("lookalike/" + k, n)
        ctx.dist("names/" + ("prefix-sharing" if case.get("prefix_names") else "disjoint"))
        for where, sk in (("save", case["skip_save_names"]), ("load", case["skip_load_names"])):
            for kd in prefix_survivors(case["spec"], set(sk), []):
                ctx.dist("prefix-survivor/at-%s/%s/%s" % (where, cfg["store"], kd))
        if case.get("prefix_names") and res.get("save_eq_load_done"):
            for kd in prefix_survivors(case["spec"], set(case["skip_save_names"]) | set(case["skip_load_names"]), []):
                ctx.dist("prefix-survivor/save-vs-load/%s/%s" % (cfg["store"], kd))
        ctx.dist("skip-types/%d" % len(case["skip_save_types"]))
        ctx.dist("skip-load-types/%d" % len(case.get("skip_load_types", [])))
        if case.get("abc_types"):
            ctx.dist("skip-types/abstract-base-class")
        if case["spec"][1] in G.ATTRS_CLASSES:
            ctx.dist("class/" + case["spec"][1])
        skipped_all = set(case["skip_save_names"]) | set(case["skip_load_names"])
        ctx.dist("root/" + ("hybrid-nn.Module+AutoSerialize" if case.get("hybrid_root") else "plain"))
        if case.get("hybrid_root"):
            for nm, role, v in case["spec"][2]:
                if nm in skipped_all:
                    where = ("save+load" if nm in case["skip_save_names"] and nm in case["skip_load_names"] else
                             "save" if nm in case["skip_save_names"] else "load")
                    ctx.dist("hybrid-root-skipped/%s/at-%s" % (role if nm in case["hybrid_registry_names"] or role == "plain" else role, where))
        n_hyb_child += int(res.get("hybrid_children", 0))
        n_hyb_child_surv += int(res.get("hybrid_child_skipped_names_surviving", 0))
        for t in case["skip_save_types"]:
            ctx.dist("skip-type/" + t)
        ctx.dist("store/" + cfg["store"])
        ctx.dist("compression/%s" % cfg["compression"])
        ctx.dist("names-skipped-present/%d" % len(skipped_present))
        ctx.dist("depth/%d" % G.spec_depth(case["spec"]))
        for k, v in res["stats"].items():
            ctx.dist("kind/" + k, v)
        n_sel += bool(res.get("save_eq_load_done"))
        n_rec += bool(res.get("recorded_only_done"))
        ctx.count(G.case_hash(case), nontrivial=bool(skipped_present or case["skip_save_types"]))
        if case["container_objects"]:
            n_asym += 1
            n_asym_seen += bool(res.get("asymmetry"))
            # only the attribute-level oracle applies; save-vs-load equality is outside the quantifier
        if not res["v"]:
            for key, msg in res["diffs"]:       # no model term to decide the domain with: report at once
                ctx.violation(key, "skip lists [%s]: %s" % (case["id"], msg),
                              {"kind": "case", "case": case, "diffs": res["diffs"][:8]})
        if res["v"] and res["obs"] and res["ld"] and not res.get("harness_exc"):
            from ..impl_C01 import cs, clist
            exprs.append("%s %s %s %s %s %s %s %s" % (
                "chk14h" if case.get("hybrid_root") else "chk14",
                clist(cs(x) for x in res["sn_order"]), clist(cs(x) for x in case["skip_save_types"]),
                clist(cs(x) for x in case["skip_load_names"]), clist(cs(x) for x in case.get("skip_load_types", [])),
                res["v"], res["obs"], res["ld"]))
            idx.append((case, res))
        elif res["v"]:
            exprs.append("[wf_obj %s]" % res["v"])      # only the domain question
            idx.append((case, res))
    ctx.dist("runs/save-eq-load", n_sel)
    ctx.dist("runs/recorded-lists-only", n_rec)
    ctx.cov["observed_asymmetry"] = {
        "what": "objects nested in containers are pruned by save(skip=names) but not by load(skip=names) "
                "(_deserialize_container calls _recursive_load without skip lists); outside C14's quantifier",
        "graphs_with_objects_in_containers": n_asym, "save_vs_load_results_differ_on": n_asym_seen}
    ctx.cov["observed_hybrid_children"] = {
        "what": "an nn.Module + AutoSerialize hybrid BELOW the root is saved whole by torch.save (the nn.Module test of "
                "_serialize_value precedes the AutoSerialize test): skip names are not applied inside it; it is a value of the "
                "module kind, not an attribute-nested AutoSerialize level; recorded, never judged",
        "hybrid_children_loaded": n_hyb_child, "skipped_names_surviving_inside_them": n_hyb_child_surv}
    try:
        pt = fut.result()
    except Exception as e:  # noqa  (the pool was broken by a worker killed from outside and rebuilt by run_cases)
        if type(e).__name__ not in ("BrokenProcessPool", "CancelledError"):
            raise
        pt = G.pool().submit(run_ptycho_case).result()
    if pt.get("harness_exc"):
        raise RuntimeError("harness failure on the Ptychography corpus case: " + pt["harness_exc"])
    ctx.count("ptycho-corpus", nontrivial=True)
    ctx.dist("corpus/ptychography-save")
    for key, msg in pt["diffs"]:
        ctx.violation(key, "Ptychography.save skip: " + msg, {"kind": "ptycho", "diffs": pt["diffs"][:8]})
    # the library's own caller: save_raw_data x store x caller skip lists at save time / load time / both (oracle only)
    for pc, pf in zip(pcases, pfuts):
        try:
            pr = pf.result()
        except Exception as e:  # noqa  (pool broken by a worker killed from outside)
            if type(e).__name__ not in ("BrokenProcessPool", "CancelledError"):
                raise
            pr = run_ptycho_skip_case(pc)
        if pr.get("harness_exc"):
            raise RuntimeError("harness failure on the Ptychography skip case %s: %s" % (pc["id"], pr["harness_exc"]))
        ctx.count("ptycho-own-caller/" + hashlib.sha1(json.dumps(pc, sort_keys=True).encode()).hexdigest(), nontrivial=pr.get("n_removed_present", 0) > 0)
        ctx.dist("ptycho-own-caller/save_raw_data=%s/skip-at-%s" % (pc["raw"], pc["when"]))
        ctx.dist("ptycho-own-caller/store/" + pc["store"])
        ctx.dist("ptycho-own-caller/skip-form/" + ("scalar" if pc["scalar_form"] else "tuple" if pc["tuple_form"] else "list"))
        ctx.dist("ptycho-own-caller/plain-load-via/" + ("load(skip=names)" if pc["load_names"] else pc["via"]))
        for t in pc["save_types"]:
            ctx.dist("ptycho-own-caller/save-type/" + t)
        for k, n in pr["stats"].items():
            ctx.dist("ptycho-own-caller/" + k, n)
        for key, msg in pr["diffs"]:
            ctx.violation(key, "Ptychography.save skip [%s]: %s" % (pc["id"], msg),
                          {"kind": "ptycho-skip", "case": pc, "diffs": pr["diffs"][:8]})
    ctx.log("oracle done; %d model evaluations" % len(exprs))
    vals = ctx.coq_eval("skip", PRE, exprs, shard=8, timeout=900)
    names = ["wf", "attr_nested", "encode", "decode", "model-skip", "skip-roundtrip", "names-commute", "types-at-save", "written-unique-names"]
    nd = 0
    n_outside = 0
    for (case, res), v in zip(idx, vals):
        ctx.cov["traces_validated_against_impl"] += 1
        oracle_failed = bool(res["diffs"])
        if not v[0]:
            # outside the quantified domain: neither the oracle nor the theorems speak about this graph
            n_outside += 1
            ctx.dist("outside-domain/" + ("oracle-differs" if oracle_failed else "fine"))
            continue
        for key, msg in res["diffs"]:
            ctx.violation(key, "skip lists [%s]: %s" % (case["id"], msg),
                          {"kind": "case", "case": case, "diffs": res["diffs"][:8]})
        if len(v) == 1:
            continue
        if v[1] is False and not case["container_objects"]:
            ctx.violation("generator-not-attr-nested", "graph %s has objects inside containers" % case["id"],
                          {"kind": "case", "case": case}, found_input=False)
        for nm, ok in list(zip(names, v))[2:]:
            if nm == "names-commute" and not v[1]:
                continue            # holds only on the quantified (attribute-nested) graphs
            if not ok:
                nd += 1
                ctx.cov["disagreements_checked"] += 1
                what = {"encode": "the store written by save(skip=...) differs from the model's save_file",
                        "decode": "load(skip=...) of the written store differs from the model's load_file",
                        "model-skip": "the model's save/load with skipping is not the pruned normal form (theorem instance false)",
                        "skip-roundtrip": "the loaded object differs from the pruned normal form predicted by the model",
                        "names-commute": "pruning before and after norm differ in the model (theorem instance false)",
                        "types-at-save": "save-time type skipping is not norm of the save-pruned graph in the model (theorem instance false)",
                        "written-unique-names": "the model's written tree has a duplicate member name (theorem instance false)"}[nm]
                ctx.violation(nm + "-correspondence", "%s [case %s: save names %s types %s, load names %s types %s]" % (
                    what, case["id"], case["skip_save_names"], case["skip_save_types"], case["skip_load_names"], case.get("skip_load_types", [])),
                    {"kind": "case", "case": case, "diffs": res["diffs"][:8]}, found_input=oracle_failed)
    for case, res in zip(cases, results):
        if G.spec_size(case["spec"]) < 14:
            ctx.sample({"case": case["id"], "spec": case["spec"], "save_names": case["skip_save_names"],
                        "save_types": case["skip_save_types"], "load_names": case["skip_load_names"], "cfg": case["cfg"],
                        "oracle_diffs": res["diffs"][:3]}, limit=4)
    ctx.cov["outside_domain"] = {"cases": n_outside, "of": len(idx), "meaning": "generated graphs outside wf_obj; not judged"}
    ctx.log("correspondence: %d evaluations, %d disagreements; asymmetry seen on %d/%d container-object graphs" % (
        len(exprs), nd, n_asym_seen, n_asym))


def replay(ctx: Ctx, path):
    from ..impl_C01 import run_case, run_ptycho_case, cs, clist
    rp = json.loads(open(path).read())
    if rp.get("kind") == "ptycho":
        pt = run_ptycho_case()
        for k, m in pt["diffs"]:
            print("oracle: [%s] %s" % (k, m))
        return 1 if pt["diffs"] else 0
    if rp.get("kind") == "ptycho-skip":
        from ..impl_C01 import run_ptycho_skip_case
        pc = rp["case"]
        pr = run_ptycho_skip_case(pc)
        print("Ptychography.save(skip=names %s + types %s, save_raw_data=%s, store=%s); load skip names %s; hung attributes %s" % (
            pc["save_names"], pc["save_types"], pc["raw"], pc["store"], pc["load_names"], json.dumps(pc["hang"])))
        if pr.get("harness_exc"):
            print(pr["harness_exc"])
        for k, m in pr["diffs"]:
            print("oracle: [%s] %s" % (k, m))
        if not pr["diffs"]:
            print("oracle: property holds on this case")
        return 1 if pr["diffs"] else 0
    if rp.get("kind") != "case":
        print("replay of kind %r: re-run ./check C14" % rp.get("kind"))
        return 0
    case = rp["case"]
    res = run_case(case)
    print("spec:", json.dumps(case["spec"]))
    print("save skip names/types:", case["skip_save_names"], case["skip_save_types"], "load skip names/types:", case["skip_load_names"],
          case.get("skip_load_types", []))
    for k, m in res["diffs"]:
        print("oracle: [%s] %s" % (k, m))
    if not res["diffs"]:
        print("oracle: property holds on this case")
    if res.get("v") and res.get("obs") and res.get("ld"):
        v = ctx.coq_eval("replay", PRE, ["%s %s %s %s %s %s %s %s" % (
            "chk14h" if case.get("hybrid_root") else "chk14", clist(cs(x) for x in res["sn_order"]), clist(cs(x) for x in case["skip_save_types"]),
            clist(cs(x) for x in case["skip_load_names"]), clist(cs(x) for x in case.get("skip_load_types", [])),
            res["v"], res["obs"], res["ld"])])[0]
        print("model: wf=%s attr_nested=%s encode=%s decode=%s model-skip=%s skip-roundtrip=%s names-commute=%s types-at-save=%s "
              "written-unique-names=%s" % tuple(v))
    return 1 if res["diffs"] else 0
