"""C19 — configuration store.  Theorems: coq/props/C19_Properties.v.
Tie: random op sequences (set in mapping / keyword / dotted forms, update_defaults, refresh,
`with set(...)`) run on quantem.core.config — on a private (config dict, defaults list) pair
in this process and, for a smaller stream, on the real module globals in a fresh subprocess
— and on model/C19_Model.v; after every statement the whole tree, the outcome, the number of
stored defaults and `get` of every touched key in both spellings are compared.  The oracle
(harness/oracle_C19.py) evaluates the property text on the implementation alone."""
from __future__ import annotations

import json
import os
import random
import re
import subprocess
import sys

from ..common import COQ, COQ_FLAGS, SRC, VERIF, Ctx, ast_hash, sh, _baseline_hashes
from .. import gen_C19 as G
from ..impl_C19 import (ENV_PROBE, Impl, Tables, calias, carg, ccfg, cdepr, citems, cop, cprobe, cstmt, cstore, cstr,
                        from_coq_cfg, from_coq_outcome, from_coq_res, probes, run_impl, sort_tree, touched_keys)
from ..oracle_C19 import Oracle, op_in_domain, oracle_findings, respell_ops, respelling_findings

LEVEL = "proof"

PRE = """From QV.lib Require Import Prelude.
From QV.model Require Import C19_Model C19_Model2.
From Coq Require Import String.
Definition probe := (string * option cfg * option cfg)%type.
Definition show (keys : list string) (ps : list probe) (tr : list (list (store * option err))) :=
  map (map (fun se : store * option err =>
              (Node (conf (fst se)), snd se, map (fun k => C19_Model.get k (conf (fst se))) keys,
               Z.of_nat (List.length (dflts (fst se))),
               map (fun p : probe => get_full (fst (fst p)) (snd (fst p)) (snd p) (conf (fst se))) ps))) tr.
Definition go (keys : list string) (ps : list probe) (ops : list op) (s : store) :=
  (show keys ps (trace validate_nogpu ops s), map Node (dflts (run validate_nogpu ops s))).
Fixpoint run_t (ts : list stmt) (s : store) : store :=
  match ts with [] => s | t :: r => run_t r (fst (fst (exec validate_nogpu t s))) end.
Definition got (keys : list string) (ps : list probe) (ts : list stmt) (s : store) :=
  (show keys ps (exec_all validate_nogpu ts s), map Node (dflts (run_t ts s))).
"""


def is_tree_seq(ops):
    return any(o[0] in ("block", "reuse") for o in ops)


def flat_as_tree(o):
    """a flat op as a statement tree (used when a sequence mixes both)"""
    if o[0] == "with":
        return ["block", False, o[1], o[2], o[3]]
    if o[0] == "withx":
        return ["block", True, o[1], o[2], o[3]]
    return o


def seq_expr(ops, keys, init_conf=None, init_dflts=None):
    ps = "; ".join(cprobe(k, m) for k, m in probes(keys))
    ks = "; ".join(cstr(k) for k in keys)
    st = cstore(init_conf or {}, init_dflts or [])
    if is_tree_seq(ops):
        return "got [%s] [%s] [%s] %s" % (ks, ps, "; ".join(cstmt(flat_as_tree(o)) for o in ops), st)
    return "go [%s] [%s] [%s] %s" % (ks, ps, "; ".join(cop(o) for o in ops), st)


def model_trace(v):
    tr, dfl = v
    out = []
    for group in tr:
        g = []
        for tree, oc, gets, nd, gets2 in group:
            g.append({"tree": sort_tree(from_coq_cfg(tree)), "out": from_coq_outcome(oc),
                      "gets": [from_coq_res(x) for x in gets], "ndflts": nd,
                      "gets2": [from_coq_res(x) for x in gets2]})
        out.append(g)
    return out, [from_coq_cfg(d) for d in dfl]


def first_difference(ops, keys, itr, idf, mtr, mdf):
    """None, or (op index, op kind, description)"""
    for i, (o, gi, gm) in enumerate(zip(ops, itr, mtr)):
        if len(gi) != len(gm):
            return i, o[0], "op %d %r: implementation made %d observable steps (%r), model %d (%r)" % (
                i, o, len(gi), [x["out"] for x in gi], len(gm), [x["out"] for x in gm])
        for j, (a, b) in enumerate(zip(gi, gm)):
            for f in ("out", "tree", "ndflts"):
                if a[f] != b[f]:
                    return i, o[0], "op %d %r step %d: %s differs: implementation %r, model %r" % (i, o, j, f, a[f], b[f])
            for k, x, y in zip(keys, a["gets"], b["gets"]):
                if tuple(x) != tuple(y):
                    return i, o[0], "op %d %r step %d: get(%r): implementation %r, model %r" % (i, o, j, k, x, y)
            for (k, m), x, y in zip(probes(keys), a.get("gets2", []), b["gets2"]):
                if tuple(x) != tuple(y):
                    return i, o[0], "op %d %r step %d: get(%r%s): implementation %r, model %r" % (
                        i, o, j, k, {"d": ", default", "o": ", override_with=5", "n": ", default, override_with=None"}[m], x, y)
    if [sort_tree(d) for d in idf] != [sort_tree(d) for d in mdf]:
        return len(ops) - 1, "upd", "stored defaults differ: implementation %r, model %r" % (idf, mdf)
    return None


def shrink(ops, pred, budget=200):
    """greedy removal of ops / body statements / items while pred stays true"""
    ops = json.loads(json.dumps(ops))
    changed = True
    while changed and budget > 0:
        changed = False
        for i in range(len(ops)):
            cand = ops[:i] + ops[i + 1:]
            budget -= 1
            if cand and pred(cand):
                ops, changed = cand, True
                break
            if ops[i][0] in ("with", "withx") and ops[i][3]:
                for j in range(len(ops[i][3])):
                    c2 = json.loads(json.dumps(ops))
                    del c2[i][3][j]
                    budget -= 1
                    if pred(c2):
                        ops, changed = c2, True
                        break
                if changed:
                    break
    return ops


def corpus():
    p = VERIF / "corpus" / "C19" / "corpus.json"
    return json.loads(p.read_text()) if p.exists() else []


def seq_stats(ctx, mode, ops, itr):
    for o, g in zip(ops, itr):
        ctx.dist("%s/op=%s" % (mode, o[0]))
        for x in g:
            ctx.dist("%s/outcome=%s" % (mode, x["out"] or "ok"))
        if o[0] in ("with", "withx"):
            ctx.dist("%s/with-body=%s" % (mode, "empty" if not o[3] else "raise-only" if all(b[0] == "raise" for b in o[3])
                                          else "statements+raise" if o[3][-1][0] == "raise" else "statements"))
        if o[0] in ("set", "with", "withx"):
            if o[2]:
                ctx.dist("%s/set-form=keyword" % mode)
            if isinstance(o[1], dict):
                ctx.dist("%s/set-form=mapping" % mode)
                if any("." in k for k in o[1]):
                    ctx.dist("%s/set-form=dotted" % mode)
                if any(isinstance(v, dict) for v in o[1].values()):
                    ctx.dist("%s/set-value=mapping" % mode)
    ctx.dist("%s/len=%d" % (mode, min(len(ops), 15)))


def check_private(ctx: Ctx):
    r = ctx.rng
    cases = []
    for c in corpus():
        if c.get("kind", "private") == "private":
            cases.append((c.get("mode", "schema"), c["ops"]))
    for _ in range(ctx.budget(160, 3000)):
        cases.append(("schema", G.gen_schema_seq(r)))
    for _ in range(ctx.budget(80, 1800)):
        cases.append(("wild", G.gen_wild_seq(r)))
    exprs, keep = [], []
    n_or = 0
    for mode, ops in cases:
        keys = touched_keys(ops)
        finds = oracle_findings(ops)
        ops2 = None
        if mode == "schema" and all(op_in_domain(o) for o in ops):
            ops2 = respell_ops(ops, random.Random(r.randrange(1 << 30)))
            finds = finds + respelling_findings(ops, ops2)
        for key, what in finds:
            if key in ctx._seen_keys:
                continue
            n_or += 1
            if key == "spelling-sensitive-history":
                def pred(c, key=key):
                    c2 = respell_ops(c, random.Random(12345))
                    return any(k == key for k, _ in respelling_findings(c, c2))
                small = shrink(ops, pred) if pred(ops) else ops
                s2 = respell_ops(small, random.Random(12345)) if pred(ops) else ops2
                f2 = respelling_findings(small, s2)
                ctx.violation(key, (f2 or [(key, what)])[0][1], {"kind": "private", "mode": mode, "ops": small, "ops2": s2})
            else:
                def pred(c, key=key):
                    return any(k == key for k, _ in oracle_findings(c))
                small = shrink(ops, pred)
                w2 = [w for k, w in oracle_findings(small) if k == key]
                ctx.violation(key, (w2 or [what])[0], {"kind": "private", "mode": mode, "ops": small})
        itr, idf = run_impl(ops, keys)
        seq_stats(ctx, mode, ops, itr)
        nontrivial = sum(1 for g in itr for x in g if x["out"] is None) >= 3 and len({o[0] for o in ops}) >= 2
        ctx.count((mode, json.dumps(ops, sort_keys=True)), nontrivial=nontrivial)
        exprs.append(seq_expr(ops, keys))
        keep.append((mode, ops, keys, itr, idf, bool(finds)))
    vals = ctx.coq_eval("private", PRE, exprs, shard=ctx.budget(14, 40))
    nd = 0
    for (mode, ops, keys, itr, idf, bad), v in zip(keep, vals):
        mtr, mdf = model_trace(v)
        ctx.cov["traces_validated_against_impl"] += 1
        d = first_difference(ops, keys, itr, idf, mtr, mdf)
        if d:
            nd += 1
            ctx.cov["disagreements_checked"] += 1
            ctx.violation("%s-correspondence" % d[1],
                          "quantem.core.config and the model disagree (the theorems no longer speak about this "
                          "code): " + d[2], {"kind": "private", "mode": mode, "ops": ops}, found_input=bad)
    mid = keep[len(keep) // 2]
    ctx.sample({"kind": "private", "mode": mid[0], "ops": mid[1], "final_tree": mid[3][-1][-1]["tree"]})
    ctx.log("private pair: %d sequences, %d oracle findings, %d disagreements" % (len(keep), n_or, nd))


# ------------------------------------------------------------------------------ statement trees (round 3)
def tree_stats(ctx, t, depth=1):
    if t[0] == "block":
        ctx.dist("nest/block-depth=%d" % depth)
        ctx.dist("nest/block-%s" % ("propagating" if t[1] else "catching"))
        for b in t[4]:
            tree_stats(ctx, b, depth + 1)
    elif t[0] == "reuse":
        ctx.dist("nest/reuse-at-depth=%d" % depth)
        for b in t[3] + t[4]:
            tree_stats(ctx, b, depth + 1)


def check_nest(ctx: Ctx):
    """with-blocks nested to depth 3 (both exception disciplines per level) and context manager
    objects entered twice, on a private pair"""
    from ..oracle_C19 import clean_shape, nest_findings
    r = ctx.rng
    cases = [c["ops"] for c in corpus() if c.get("kind") == "nest"]
    cases += [G.gen_nest_seq(r) for _ in range(ctx.budget(70, 1200))]
    exprs, keep = [], []
    for ops in cases:
        keys = touched_keys(ops)
        finds = nest_findings(ops)
        for key, what in finds:
            def pred(c, key=key):
                return any(k == key for k, _ in nest_findings(c))
            small = shrink(ops, pred)
            w2 = [w for k, w in nest_findings(small) if k == key]
            ctx.violation(key, (w2 or [what])[0], {"kind": "nest", "ops": small})
        itr, idf = run_impl(ops, keys)
        for o, g in zip(ops, itr):
            ctx.dist("nest/op=%s" % o[0])
            tree_stats(ctx, o)
            if o[0] in ("block", "reuse") and clean_shape(o):
                ctx.dist("nest/clean-tree")
            for x in g:
                ctx.dist("nest/outcome=%s" % (x["out"] or "ok"))
        ctx.count(("nest", json.dumps(ops, sort_keys=True)),
                  nontrivial=sum(1 for g in itr for x in g if x["out"] is None) >= 3)
        exprs.append(seq_expr(ops, keys))
        keep.append((ops, keys, itr, idf, bool(finds)))
    vals = ctx.coq_eval("nest", PRE, exprs, shard=ctx.budget(10, 40))
    nd = 0
    for (ops, keys, itr, idf, bad), v in zip(keep, vals):
        mtr, mdf = model_trace(v)
        ctx.cov["traces_validated_against_impl"] += 1
        d = first_difference(ops, keys, itr, idf, mtr, mdf)
        if d:
            nd += 1
            ctx.cov["disagreements_checked"] += 1
            ctx.violation("%s-correspondence" % d[1],
                          "quantem.core.config and the model disagree (statement trees): " + d[2],
                          {"kind": "nest", "ops": ops}, found_input=bad)
    if keep:
        big = max(keep, key=lambda k: len(json.dumps(k[0])))
        ctx.sample({"kind": "nest", "ops": big[0], "final_tree": big[2][-1][-1]["tree"]})
    ctx.log("statement trees: %d sequences, %d disagreements" % (len(keep), nd))


# ------------------------------------------------------------------------------ the shipped yaml (round 3)
GEN_DIR = COQ / "gen_proofs"


def yaml_phase(ctx: Ctx):
    """regenerates build/C19/C19_Yaml.v from the CURRENT quantem.yaml, re-runs the fixed proof script
    on it (coq/gen_proofs/C19_YamlProofs.v, C19_YamlProperties.v) and returns (probe, yaml) as
    abstract values for the import correspondence"""
    import hashlib
    import importlib.util
    import yaml
    from ..impl_C19 import to_abstract, tree_wf
    yf = SRC / "quantem" / "core" / "quantem.yaml"
    gen_props = GEN_DIR / "C19_YamlProperties.v"
    gen_proofs = GEN_DIR / "C19_YamlProofs.v"
    gen_theorems = re.findall(r"(?m)^\s*Theorem\s+(\w+)", gen_props.read_text())
    problems = []

    def not_checked(why):
        ctx.cov["obligations"] += len(gen_theorems)
        for t in gen_theorems:
            ctx.cov["theorems"][t] = "NOT CHECKED (%s)" % why

    try:
        parsed = yaml.safe_load(yf.read_text())
        if not isinstance(parsed, dict):
            raise ValueError("top-level object is %s" % type(parsed).__name__)
    except Exception as e:  # noqa
        problems.append("quantem.yaml cannot be read as a mapping: %r" % e)
        not_checked("yaml unreadable")
        ctx.broken_obligation = "; ".join(filter(None, [ctx.broken_obligation] + problems))
        return None, None
    y_abs = to_abstract(parsed)
    probe = {"has_torch": importlib.util.find_spec("torch") is not None,
             "has_cupy": importlib.util.find_spec("cupy") is not None}
    h = {"parsed": hashlib.sha256(json.dumps(y_abs, sort_keys=False).encode()).hexdigest()[:16]}
    ctx.cov["source_ast_hashes"]["core/quantem.yaml"] = h
    extra = ast_hash(SRC / "quantem" / "core/config.py", ["collect_env", "collect_yaml", "interpret_value", "_load_config_file"])
    ctx.cov["source_ast_hashes"]["core/config.py (round 3)"] = extra
    base = _baseline_hashes().get(ctx.prop, {})
    for rel, cur in (("core/quantem.yaml", h), ("core/config.py (round 3)", extra)):
        b = base.get(rel)
        if b is not None and "__error__" not in b and b != cur:      # (gen_baseline cannot ast-hash a yaml file)
            ctx.escalated = True
            ctx.cov.setdefault("drift", {})[rel] = sorted(k for k in cur if b.get(k) != cur[k])
            ctx.log("drift guard: %s changed -> quick budget escalated" % rel)
    ctx.cov["yaml"] = {"keys": len(list(G_leaf_paths(y_abs))), "well_formed": tree_wf(y_abs)}
    gen = ctx.dir / "C19_Yaml.v"
    gen.write_text("(* generated by harness/props/C19.py from %s on every run *)\n"
                   "From QV.lib Require Import Prelude.\nFrom QV.model Require Import C19_Model.\n"
                   "From Coq Require Import String.\n"
                   "Definition probe_defaults : items := %s.\nDefinition yaml_defaults : items := %s.\n"
                   % (yf, citems(probe), citems(y_abs)))
    for stale in ("C19_Yaml.vo", "C19_YamlProofs.vo", "C19_YamlProperties.vo"):
        if (ctx.dir / stale).exists():
            (ctx.dir / stale).unlink()
    flags = COQ_FLAGS + ["-Q", str(ctx.dir), "Gen19"]
    bad = ctx.static_scan([gen, gen_proofs, gen_props])
    if bad:
        problems.append("forbidden declarations: %s" % bad[:5])
    rc, out = sh(["timeout", "300", "coqc"] + flags + [str(gen)], cwd=ctx.dir, timeout=330)
    if rc != 0:
        problems.append("generated C19_Yaml.v does not compile:\n" + "\n".join(out.strip().splitlines()[-10:]))
        not_checked("generated file does not compile")
    else:
        rc, out = sh(["timeout", "300", "coqc"] + flags + ["-o", str(ctx.dir / "C19_YamlProofs.vo"), str(gen_proofs)],
                     cwd=ctx.dir, timeout=330)
        if rc != 0:
            problems.append("the current quantem.yaml no longer satisfies the fixed proof script C19_YamlProofs.v "
                            "(its mappings must spell every key once and purely, import must not raise, the device must "
                            "be the cpu, refresh must reproduce the import):\n" + "\n".join(out.strip().splitlines()[-12:]))
            not_checked("fixed proof script fails on the current yaml")
        else:
            cmd1 = ctx.cov["checker_cmd"]
            if not ctx.require_proofs(props_name="C19_YamlProperties", props_path=gen_props,
                                      extra_flags=["-Q", str(ctx.dir), "Gen19"], make_targets=[]):
                problems += ctx._proof_problems
            ctx.cov["checker_cmd"] = (cmd1 + "  ;  [yaml -> build/C19/C19_Yaml.v] coqc %s C19_Yaml.v && coqc ... -o "
                                      "build/C19/C19_YamlProofs.vo coq/gen_proofs/C19_YamlProofs.v && coqc ... "
                                      "coq/gen_proofs/C19_YamlProperties.v" % " ".join(flags))
    if problems:
        ctx.broken_obligation = "; ".join(filter(None, [ctx.broken_obligation] + problems))
        ctx.log("PROOF OBLIGATION BROKEN (yaml):", ctx.broken_obligation[:2000])
    return probe, y_abs


def G_leaf_paths(t):
    from ..impl_C19 import leaf_paths
    return leaf_paths(t)


# ------------------------------------------------------------------------------ translator tie (round 4)
def tie_phase(ctx: Ctx):
    """config.py -> build/C19/Gen_C19.v (harness/translate_C19.py, fail closed), the FIXED scripts
    coq/gen_proofs/C19_GenProofs.v + C19_GenProperties.v re-proved on it (generated functions = the model's
    definitions for all arguments), then the translator's own cross-test: the generated functions evaluated by
    vm_compute against the real Python functions."""
    import time
    from .. import translate_C19 as T
    t0 = time.time()
    rec = {"status": "ok"}
    ctx.cov["translator_tie"] = rec
    for t in T.TRUSTED:
        if t not in ctx.cov["trusted_base"]:
            ctx.cov["trusted_base"].append(t)
    gen_props = GEN_DIR / "C19_GenProperties.v"
    gen_proofs = GEN_DIR / "C19_GenProofs.v"
    gen_theorems = re.findall(r"(?m)^\s*Theorem\s+(\w+)", gen_props.read_text())
    problems = []

    def not_checked(why):
        ctx.cov["obligations"] += len(gen_theorems)
        for t in gen_theorems:
            ctx.cov["theorems"][t] = "NOT CHECKED (%s)" % why

    flags = COQ_FLAGS + ["-Q", str(ctx.dir), "Gen19"]
    ok = False
    try:
        text, info = T.translate(SRC)
        rec.update(info)
    except T.Reject as e:
        problems.append("translator tie: harness/translate_C19.py (fail closed) rejected the current source of "
                        "quantem/core/config.py: %s" % e)
        not_checked("translator rejected the source")
        text = None
    if text is not None:
        gen = ctx.dir / "Gen_C19.v"
        for stale in ("Gen_C19.vo", "C19_GenProofs.vo", "C19_GenProperties.vo"):
            if (ctx.dir / stale).exists():
                (ctx.dir / stale).unlink()
        gen.write_text(text)
        bad = ctx.static_scan([gen, gen_proofs, gen_props])
        if bad:
            problems.append("forbidden declarations: %s" % bad[:5])
        rc, out = ctx.coq_make(["model/C19_PyLib.vo", "proof/C19_Proofs_PyLib.vo", "proof/C19_Proofs_Update.vo"])
        if rc != 0:
            problems.append("translator tie: library build failed:\n" + "\n".join(out.strip().splitlines()[-10:]))
        rc, out = sh(["timeout", "300", "coqc"] + flags + [str(gen)], cwd=ctx.dir, timeout=330)
        if rc != 0:
            problems.append("translator tie: generated Gen_C19.v does not compile (a construct changed its type):\n"
                            + "\n".join(out.strip().splitlines()[-12:]))
            not_checked("generated file does not compile")
        else:
            ok = True
            rc, out = sh(["timeout", "300", "coqc"] + flags + ["-o", str(ctx.dir / "C19_GenProofs.vo"), str(gen_proofs)],
                         cwd=ctx.dir, timeout=330)
            if rc != 0:
                problems.append("translator tie: the functions translated from the current quantem/core/config.py no longer "
                                "equal the model's definitions (fixed proof script C19_GenProofs.v fails):\n"
                                + "\n".join(out.strip().splitlines()[-14:]))
                not_checked("fixed proof script fails on the current source")
            else:
                cmd1 = ctx.cov["checker_cmd"]
                saved = list(getattr(ctx, "_proof_problems", []))
                if not ctx.require_proofs(props_name="C19_GenProperties", props_path=gen_props,
                                          extra_flags=["-Q", str(ctx.dir), "Gen19"], make_targets=[]):
                    problems += ["translator tie: " + x for x in ctx._proof_problems]
                ctx._proof_problems = saved
                ctx.cov["checker_cmd"] = (cmd1 + "  ;  [config.py -> build/C19/Gen_C19.v] python -m harness.translate_C19 && coqc "
                                          "Gen_C19.v && coqc -o build/C19/C19_GenProofs.vo coq/gen_proofs/C19_GenProofs.v && "
                                          "coqc coq/gen_proofs/C19_GenProperties.v")
    rec["wall_s_proofs"] = round(time.time() - t0, 2)
    if ok:
        tie_crosstest(ctx, flags, rec)
    rec["wall_s"] = round(time.time() - t0, 2)
    if problems:
        rec["status"] = "broken"
        rec["problems"] = [x[:1500] for x in problems]
        ctx.broken_obligation = "; ".join(filter(None, [ctx.broken_obligation] + problems))
        ctx.log("PROOF OBLIGATION BROKEN (translator tie):", ("; ".join(problems))[:2500])
    else:
        ctx.log("translator tie: %d functions of config.py translated and proved equal to the model (%.1fs incl. cross-test)"
                % (len(rec.get("functions", {})), rec["wall_s"]))


TIE_PRE = """From QV.lib Require Import Prelude.
From QV.model Require Import C19_Model C19_Model2 C19_PyLib.
From Gen19 Require Import Gen_C19.
From Coq Require Import String.
Definition V := validate_nogpu.
Definition D0 : depr_t := [].
Definition A0 : alias_t := [].
Definition upd (o n : items) (p : string) (d : cfg) := (fun r => (Node (fst r), snd r)) (gen_update V D0 A0 40 o n p d).
Definition mrg (ds : list items) := match gen_merge V D0 A0 40 ds with inr m => (Node m, None) | inl e => (Node [], Some e) end.
Definition gt (k : string) (d : items) := gen_get V D0 A0 k None (Node d) py_none.
Definition cn (k : string) (c : cfg) := gen_canonical_name V D0 A0 k c.
Definition ckv (k : string) (v : cfg) := match gen_check_key_val V D0 A0 k v with inr (k', v') => (inr (Node [(k', v')]) : err + cfg) | inl e => inl e end.
Definition sx (k : string) (v : cfg) (d : items) :=
  match gen_assign V D0 A0 40 (py_split_dot k) v d [] true [] with
  | ((d1, recs), oe) => (Node d1, oe, match gen_exit V D0 A0 d1 recs with (d2, oe2) => (Node d2, oe2) end)
  end.
"""


def tie_crosstest(ctx: Ctx, flags, rec):
    """translator cross-test: gen_* (vm_compute) against the real functions"""
    import copy
    from quantem.core import config as C
    from ..impl_C19 import classify, to_abstract, leaf_paths
    r = random.Random(ctx.rng.randrange(1 << 30))
    cases = []
    for _ in range(ctx.budget(45, 500)):
        cases.append(G.gen_direct(r))

    def safe(f):
        try:
            return (None, f())
        except Exception as e:  # noqa
            return (classify(e), None)
    exprs, want = [], []
    for c in cases:
        if c[0] == "merge":
            out, tree = direct_impl(c)
            exprs.append("mrg [%s]" % "; ".join(citems(d) for d in c[1]))
            want.append(("merge", c, (out, tree)))
            trees = c[1]
        else:
            out, tree = direct_impl(c)
            dv = "py_none" if c[4] is None else "(Node %s)" % citems(c[4])
            exprs.append("upd %s %s %s %s" % (citems(c[1]), citems(c[2]), cstr(c[3]), dv))
            want.append(("update", c, (out, tree)))
            trees = [c[1], c[2]]
        base = copy.deepcopy(trees[0])
        paths = [p for t in trees for p, _ in leaf_paths(t) if p]
        if paths:
            p = r.choice(paths)
            key = ".".join(p if r.random() < 0.7 else list(p) + ["zz"])
            if r.random() < 0.3:
                key = key.replace("_", "-") if "_" in key else key.replace("-", "_")
            # get
            o, v = safe(lambda: C.get(key, config=copy.deepcopy(base)))
            exprs.append("gt %s %s" % (cstr(key), citems(base)))
            want.append(("get", [key, base], (o, None if o else to_abstract(v))))
            # canonical_name on the dict and on scalars
            k0 = key.split(".")[0]
            for cont in (base, r.choice([None, 3, "a_b-" + k0, True])):
                exprs.append("cn %s %s" % (cstr(k0), ccfg(cont)))
                want.append(("canonical_name", [k0, cont], (None, C.canonical_name(k0, copy.deepcopy(cont)))))
            # set._assign + set.__exit__ through set(...) on a private dict
            if "device" not in key.split("."):
                conf = copy.deepcopy(base)
                val = r.choice([7, "x", {"q": 1}])
                st = {}

                def do_set():
                    st["s"] = C.set({key: copy.deepcopy(val)}, config=conf)
                    return sort_tree(to_abstract(conf))
                o1, t1 = safe(do_set)
                if o1 is None:
                    o2, t2 = safe(lambda: (st["s"].__exit__(None, None, None), sort_tree(to_abstract(conf)))[1])
                else:
                    o2, t2 = None, None
                exprs.append("sx %s %s %s" % (cstr(key), ccfg(val), citems(base)))
                want.append(("set._assign/__exit__", [key, val, base], (o1, t1, o2, t2)))
        dev = r.choice(["cpu", "cpu:0", "cpu:x", "gpu", 3, None, "CPU", "xcpu", {"a": 1}, True])
        kk = r.choice(["device", "device", "viz"])
        o, v = safe(lambda: C.check_key_val(kk, copy.deepcopy(dev)))
        exprs.append("ckv %s %s" % (cstr(kk), ccfg(dev)))
        want.append(("check_key_val", [kk, dev], (o, None if o else {v[0]: to_abstract(v[1])})))
    vals = ctx.coq_eval("tiex", TIE_PRE, exprs, shard=ctx.budget(90, 150), extra_flags=["-Q", str(ctx.dir), "Gen19"])
    nd = 0
    for (fn, c, w), v in zip(want, vals):
        ctx.dist("tie-crosstest/%s" % fn)
        if fn in ("update", "merge"):
            got = (from_coq_outcome(v[1]), sort_tree(from_coq_cfg(v[0])))
            same = got[0] == w[0] and (w[1] is None or got[1] == w[1])
        elif fn in ("get", "check_key_val"):
            g = from_coq_res(v)
            got = tuple(g)
            same = (g[0] == "err" and g[1] == w[0]) if w[0] else (g[0] == "ok" and sort_tree(g[1]) == sort_tree(w[1]))
        elif fn == "canonical_name":
            got = v
            same = v[0] == "inr" and v[1] == w[1]
        else:
            t1, oe1, (t2, oe2) = v
            got = (from_coq_outcome(oe1), sort_tree(from_coq_cfg(t1)), from_coq_outcome(oe2), sort_tree(from_coq_cfg(t2)))
            same = got[0] == w[0] and (w[0] is not None or (got[1] == w[1] and got[2] == w[2] and (w[2] is not None or got[3] == w[3])))
        if not same:
            nd += 1
            if nd <= 3:
                ctx.violation("translator-crosstest-%s" % fn.split("/")[0].replace(".", "-"),
                              "the Gallina translation of quantem.core.config.%s (harness/translate_C19.py) and the real "
                              "function disagree on %r: implementation %r, translation %r" % (fn, c, w, got),
                              {"kind": "tiex", "fn": fn, "case": c}, found_input=False)
    rec["crosstest_cases"] = len(want)
    rec["crosstest_disagreements"] = nd
    ctx.cov["traces_validated_against_impl"] += len(want)


# ------------------------------------------------------------------------------ update / merge called directly
def direct_impl(c):
    """(outcome, resulting tree) of the real helper"""
    import copy
    from quantem.core import config as C
    from ..impl_C19 import classify, to_abstract
    if c[0] in ("ckv", "set_t", "update_t", "collect_env"):
        return direct_impl3(c)
    try:
        if c[0] == "merge":
            res = C.merge(*copy.deepcopy(c[1]))
        else:
            old = copy.deepcopy(c[1])
            res = old
            ret = C.update(old, copy.deepcopy(c[2]), priority=c[3], defaults=copy.deepcopy(c[4]))
            if ret is not old:
                return ("NotInPlace", sort_tree(to_abstract(old)))
        return (None, sort_tree(to_abstract(res)))
    except Exception as e:  # noqa
        return (classify(e), sort_tree(to_abstract(res)) if c[0] == "update" else None)


def direct_impl3(c):
    """round 3: check_key_val / set / update with the deprecations and aliases tables installed;
    collect_env on a given environment"""
    import copy
    from quantem.core import config as C
    from ..impl_C19 import classify, to_abstract
    if c[0] == "collect_env":
        try:
            return (None, sort_tree(to_abstract(C.collect_env({n: txt for n, txt, _ in c[1]}))))
        except Exception as e:  # noqa
            return (classify(e), None)
    depr, alias = c[1], c[2]
    res = None
    with Tables(depr, alias):
        try:
            if c[0] == "ckv":
                k, v = C.check_key_val(c[3], copy.deepcopy(c[4]))
                if k != c[3]:
                    return ("KeyRenamed:%s" % k, None)
                return (None, {"val": sort_tree(to_abstract(v))})
            if c[0] == "set_t":
                res = copy.deepcopy(c[5])
                arg = copy.deepcopy(c[3])
                if arg is None:
                    C.set(config=res, **{k: copy.deepcopy(v) for k, v in c[4]})
                else:
                    C.set(arg, config=res, **{k: copy.deepcopy(v) for k, v in c[4]})
            else:
                res = copy.deepcopy(c[3])
                C.update(res, copy.deepcopy(c[4]), priority=c[5], defaults=copy.deepcopy(c[6]))
            return (None, sort_tree(to_abstract(res)))
        except Exception as e:  # noqa
            return (classify(e), sort_tree(to_abstract(res)) if res is not None else None)


def direct_expr(c):
    wrap = "(fun r => (Node (fst r), snd r))"
    if c[0] == "collect_env":
        return "%s (collect_env validate_nogpu %s)" % (wrap, citems([(n, v) for n, _, v in c[1]]))
    if c[0] == "ckv":
        return ("(fun r => match r with inl e => (Node [], Some e) | inr v => (Node [(\"val\"%%string, v)], None) end) "
                "(check_key_val_t validate_nogpu %s %s %s %s)" % (cdepr(c[1]), calias(c[2]), cstr(c[3]), ccfg(c[4])))
    if c[0] == "set_t":
        return "(fun r => (Node (fst (fst r)), snd r)) (set_call_t validate_nogpu %s %s %s %s %s)" % (
            cdepr(c[1]), calias(c[2]), carg(c[3]), citems(c[4]), citems(c[5]))
    if c[0] == "update_t":
        prio = {"old": "POld", "new": "PNew", "new-defaults": "PNewDefaults"}[c[5]]
        dv = "None" if c[6] is None else "(Some (Node %s))" % citems(c[6])
        return "%s (update_items_t validate_nogpu %s %s %s %s %s %s)" % (
            wrap, cdepr(c[1]), calias(c[2]), prio, citems(c[4]), citems(c[3]), dv)
    if c[0] == "merge":
        return "(fun r => (Node (fst r), snd r)) (merge validate_nogpu [%s])" % "; ".join(citems(d) for d in c[1])
    prio = {"old": "POld", "new": "PNew", "new-defaults": "PNewDefaults"}[c[3]]
    dv = "None" if c[4] is None else "(Some (Node %s))" % citems(c[4])
    return "(fun r => (Node (fst r), snd r)) (update_items validate_nogpu %s %s %s %s)" % (
        prio, citems(c[2]), citems(c[1]), dv)


def direct_findings(c, out, tree):
    """the docstring contract of update / merge, on shape-compatible inputs: 'new' lets the new
    values win, 'old' keeps every existing value and only adds missing ones, 'new-defaults'
    replaces exactly the values still equal to the given defaults; nothing else is touched"""
    from ..oracle_C19 import ref_get, ref_merge
    from ..impl_C19 import leaf_paths, npath, comparable, norm_tree
    if c[0] == "ckv":
        # what holds with non-empty tables: a removed key is refused; the key itself is never renamed
        if c[3] in c[1] and not c[1][c[3]] and out != "ValueErr":
            return [("tables-removed-key-accepted", "check_key_val(%r) with deprecations %r gives %r / %r" % (c[3], c[1], out, tree))]
        if c[3] == "device" and out is None and tree["val"] != "cpu":
            return [("stored-device-invalid", "check_key_val('device', %r) with aliases %r gives %r on a cpu-only host" % (c[4], c[2], tree))]
        return []
    if c[0] in ("set_t", "update_t", "collect_env"):
        return []
    if out is not None:
        return []
    if c[0] == "merge":
        want = ref_merge(c[1])
        return [] if norm_tree(want) == norm_tree(tree) else [
            ("merge-not-last-writer", "merge(%r) gives %r, expected %r" % (c[1], tree, sort_tree(want)))]
    old, new, prio, dfl = c[1], c[2], c[3], c[4]
    finds, written = [], []
    for p, x in leaf_paths(new):
        if not p:
            continue
        written.append(npath(p))
        if isinstance(x, dict):
            continue
        had, b = ref_get(old, p)
        shape_ok = all(not ref_get(old, p[:i])[0] or isinstance(ref_get(old, p[:i])[1], dict) for i in range(1, len(p))) \
            and not isinstance(b, dict)
        if not shape_ok:
            continue
        if prio == "new" or not had:
            want = x
        elif prio == "old":
            want = b
        else:
            dhad, dv = ref_get(dfl or {}, p)
            if isinstance(dv, dict) or (dhad and (dv == b) != (type(dv) is type(b) and dv == b)):
                continue
            dshape = all(not ref_get(dfl or {}, p[:i])[0] or isinstance(ref_get(dfl or {}, p[:i])[1], dict)
                         for i in range(1, len(p)))
            if not dshape:
                continue
            want = x if (dhad and dv == b) else b
        found, got = ref_get(tree, p)
        if not found or got != want or type(got) is not type(want):
            finds.append(("update-priority-%s" % prio,
                          "update(%r, %r, priority=%r, defaults=%r): %s should be %r afterwards, got %s"
                          % (old, new, prio, dfl, ".".join(p), want, repr(got) if found else "missing")))
            break
    for p, x in leaf_paths(old):
        if not p or any(comparable(npath(p), q) for q in written):
            continue
        found, y = ref_get(tree, p)
        if not found or y != x:
            finds.append(("sibling-dropped", "update(%r, %r, priority=%r): %s was %r, now %s"
                          % (old, new, prio, ".".join(p), x, repr(y) if found else "missing")))
            break
    return finds


def check_direct(ctx: Ctx):
    r = ctx.rng
    cases = [c["case"] for c in corpus() if c.get("kind") == "direct"]
    cases += [G.gen_direct(r) for _ in range(ctx.budget(160, 2400))]
    for _ in range(ctx.budget(120, 1500)):
        c = G.gen_tables_case(r)
        c[2] = {k: [[a, b] for a, b in {a: b for a, b in tbl}.items()] for k, tbl in c[2].items()}   # as the dict holds it
        cases.append(c)
    cases += [G.gen_env_case(r) for _ in range(ctx.budget(40, 500))]
    exprs, keep = [], []
    for c in cases:
        out, tree = direct_impl(c)
        finds = direct_findings(c, out, tree)
        for key, what in finds:
            ctx.violation(key, what, {"kind": "direct", "case": c})
        ctx.dist("direct/%s" % (c[0] if c[0] != "update" else "update-" + c[3]))
        if c[0] in ("ckv", "set_t", "update_t"):
            ctx.dist("direct/tables=%s" % ("empty" if not (c[1] or c[2]) else "+".join(
                (["deprecations"] if c[1] else []) + (["aliases"] if c[2] else []))))
        ctx.dist("direct/outcome=%s" % (out or "ok"))
        ctx.count(("direct", json.dumps(c, sort_keys=True)), nontrivial=out is None and bool(tree))
        exprs.append(direct_expr(c))
        keep.append((c, out, tree, bool(finds)))
    vals = ctx.coq_eval("direct", PRE, exprs, shard=ctx.budget(40, 120))
    nd = 0
    for (c, out, tree, bad), v in zip(keep, vals):
        mtree, mout = sort_tree(from_coq_cfg(v[0])), from_coq_outcome(v[1])
        ctx.cov["traces_validated_against_impl"] += 1
        if mout != out or (tree is not None and mtree != tree):
            nd += 1
            ctx.cov["disagreements_checked"] += 1
            ctx.violation("%s-correspondence" % c[0],
                          "quantem.core.config.%s and the model disagree on %r: implementation %r / %r, model %r / %r"
                          % (c[0], c, out, tree, mout, mtree), {"kind": "direct", "case": c}, found_input=bad)
    ctx.sample({"kind": "direct", "case": keep[len(keep) // 2][0], "result": keep[len(keep) // 2][2]})
    ctx.log("update/merge called directly: %d cases, %d disagreements" % (len(keep), nd))


# ------------------------------------------------------------------------------ real module globals
def globals_child():
    """runs in a fresh interpreter: op sequences on the module globals (default-argument
    binding, _initialize and the shipped yaml are exercised)"""
    import copy
    req = json.loads(sys.stdin.read())
    os.environ.update(ENV_PROBE)          # collect() must not read these (collect_env is switched off)
    from quantem.core import config as C
    from ..impl_C19 import to_abstract
    im = Impl(use_globals=True)
    at_import = sort_tree(to_abstract(C.config))
    init_dflts_py = copy.deepcopy(C.defaults)
    init_dflts = [to_abstract(d) for d in init_dflts_py]
    out = {"at_import": at_import, "init_dflts": init_dflts, "seqs": [],
           "device_fn": None}
    for ops in req["seqs"]:
        def reset():
            C.defaults[:] = copy.deepcopy(init_dflts_py)
            C.refresh(path=im.empty_dir)
        reset()
        init_conf = to_abstract(C.config)
        keys = touched_keys(ops)
        if any(o[0] in ("block", "reuse") for o in ops):
            from ..oracle_C19 import nest_findings
            finds = nest_findings(ops, impl=im)
        else:
            orc = Oracle(impl=im)
            finds = orc.run(ops)
        reset()
        itr, idf = run_impl(ops, keys, impl=im)
        # set_device / get_device wrappers
        reset()
        try:
            C.set_device("cpu")
            dev = [C.get_device(), C.device()]
        except Exception as e:  # noqa
            dev = repr(e)
        out["device_fn"] = dev
        out["seqs"].append({"ops": ops, "keys": keys, "init_conf": init_conf, "trace": itr, "dflts": idf,
                            "findings": finds})
    reset()
    sys.stdout.write("\n@@C19@@" + json.dumps(out))


def check_globals(ctx: Ctx, probe=None, y_abs=None):
    r = ctx.rng
    seqs = [c["ops"] for c in corpus() if c.get("kind") == "globals"]
    seqs += [G.gen_globals_seq(r) for _ in range(ctx.budget(30, 400))]
    seqs += [G.gen_globals_nest_seq(r) for _ in range(ctx.budget(8, 120))]
    env = dict(os.environ)
    p = subprocess.run([sys.executable, "-W", "ignore", "-c",
                        "from harness.props.C19 import globals_child; globals_child()"],
                       input=json.dumps({"seqs": seqs}), capture_output=True, text=True, env=env, cwd=str(VERIF),
                       timeout=600)
    if p.returncode != 0 or "@@C19@@" not in p.stdout:
        raise RuntimeError("globals subprocess failed: %s" % (p.stderr[-2000:],))
    res = json.loads(p.stdout.split("@@C19@@", 1)[1])
    if res["device_fn"] != ["cpu", "cpu"]:
        ctx.violation("set-device-wrapper", "set_device('cpu'); get_device(), device() gives %r" % (res["device_fn"],),
                      {"kind": "globals", "ops": []})
    d0 = res["init_dflts"]
    if y_abs is not None:
        # the model's initial state comes from the FILE (parsed on this run), not from the module
        if [sort_tree(d) for d in d0] != [sort_tree(probe), sort_tree(y_abs)]:
            ctx.violation("initialize-correspondence",
                          "the defaults stack after import is not [probe defaults, parsed quantem.yaml]: implementation %r, "
                          "expected %r" % (d0, [probe, y_abs]), {"kind": "globals", "ops": []}, found_input=False)
        exprs = ["Node (conf (fst (import_store validate_nogpu %s %s)))" % (citems(probe), citems(y_abs))]
    else:
        exprs = ["Node (conf (fst (refresh validate_nogpu [] %s)))" % cstore({}, d0)]
    for s in res["seqs"]:
        for key, what in s["findings"]:
            ctx.violation(key, "[module globals] " + what, {"kind": "globals", "ops": s["ops"]})
        exprs.append(seq_expr(s["ops"], s["keys"], s["init_conf"], d0))
        seq_stats(ctx, "globals", s["ops"], s["trace"])
        ctx.count(("globals", json.dumps(s["ops"], sort_keys=True)),
                  nontrivial=sum(1 for g in s["trace"] for x in g if x["out"] is None) >= 3)
    vals = ctx.coq_eval("globals", PRE, exprs, shard=ctx.budget(7, 30))
    m0 = sort_tree(from_coq_cfg(vals[0]))
    if m0 != res["at_import"]:
        ctx.violation("initialize-correspondence",
                      "the configuration at import differs from the model's refresh of the initial defaults: "
                      "implementation %r, model %r" % (res["at_import"], m0), {"kind": "globals", "ops": []},
                      found_input=False)
    nd = 0
    for s, v in zip(res["seqs"], vals[1:]):
        mtr, mdf = model_trace(v)
        keys = s["keys"]
        itr = [[{"tree": x["tree"], "out": x["out"], "gets": [tuple(g) for g in x["gets"]], "ndflts": x["ndflts"],
                 "gets2": [tuple(g) for g in x["gets2"]]}
                for x in g] for g in s["trace"]]
        ctx.cov["traces_validated_against_impl"] += 1
        d = first_difference(s["ops"], keys, itr, s["dflts"], mtr, mdf)
        if d:
            nd += 1
            ctx.cov["disagreements_checked"] += 1
            ctx.violation("%s-correspondence" % d[1], "[module globals] quantem.core.config and the model disagree: " + d[2],
                          {"kind": "globals", "ops": s["ops"]}, found_input=bool(s["findings"]))
    if res["seqs"]:
        ctx.sample({"kind": "globals", "ops": res["seqs"][0]["ops"],
                    "device_after": res["seqs"][0]["trace"][-1][-1]["tree"].get("device")})
    ctx.log("module globals (fresh subprocess): %d sequences, %d disagreements" % (len(res["seqs"]), nd))


def run(ctx: Ctx):
    ctx.hash_sources("core/config.py", ["set", "set.__init__", "set._assign", "set.__enter__", "set.__exit__",
                                         "refresh", "get", "update_defaults", "_initialize", "canonical_name",
                                         "update", "merge", "collect", "check_key_val", "validate_device",
                                         "set_device", "get_device"])
    ctx.cov["rule"] = (
        "cases: op sequences (5-13 statements) over set [mapping / double-underscore keyword / dotted keys, scalar and "
        "nested-mapping values, device strings and indices], update_defaults, refresh (optionally with yaml files "
        "present) and `with set(...)` blocks; schema stream (pure '-'/'_' spellings drawn per occurrence, well-formed "
        "mappings: all oracle clauses + respelled twin history), wild stream (shape conflicts, mixed spellings, both "
        "spellings in one mapping, nested 'device', malformed arguments: correspondence + device clause), and a "
        "stream on the real module globals in a fresh subprocess. A case is distinct by its op list; non-trivial when "
        ">= 3 statements succeed and >= 2 op kinds occur. Outside the claim (stated): mixed spellings such as "
        "'a_b-c', a mapping value that itself holds both spellings of one key, hosts with CUDA/MPS. Also: update / "
        "merge called directly (all three priorities; docstring contract as oracle), with-blocks whose body raises "
        "(exception leaves the block through __exit__), one call writing the same entry twice or a parent and a "
        "child, bodies that rebuild the store under the other spelling.")
    ctx.assumptions += [
        "host without CUDA and MPS: validate_device is instantiated with validate_nogpu (checked against the real "
        "validate_device by every device case of the correspondence run)",
        "QUANTEM_CONFIG / the `path` handed to refresh names a directory whose yaml files are exactly the ones the case lists",
        "values are None/bool/int/str/mappings; list-valued defaults of quantem.yaml are opaque leaves that no case writes below",
        "callers hand fresh dict objects to set/update_defaults (no aliasing between arguments and the store)",
    ]
    ctx.cov["trusted_base"] += [
        "Coq 8.16.1 kernel incl. vm_compute (used to run the model); no native_compute",
        "hand-written model coq/model/C19_Model.v tied to /repo by this correspondence run",
        "harness/props/C19.py, harness/impl_C19.py, harness/gen_C19.py, harness/oracle_C19.py, harness/common.py",
    ]
    ctx.proofs_or_violation()
    probe, y_abs = yaml_phase(ctx)
    tie_phase(ctx)
    check_private(ctx)
    check_nest(ctx)
    check_direct(ctx)
    check_globals(ctx, probe, y_abs)


def replay(ctx: Ctx, path):
    rp = json.loads(open(path).read())
    if rp.get("kind") == "tiex":
        # a disagreement between the Gallina translation of one function and the real function (translator bug or a
        # construct given a wrong fixed meaning): re-run the translator and its cross-test
        print("translator cross-test case:", rp.get("fn"), json.dumps(rp.get("case")))
        tie_phase(ctx)
        t = ctx.cov.get("translator_tie", {})
        print("translator tie:", t.get("status"), "cross-test disagreements:", t.get("crosstest_disagreements"))
        return 1 if (t.get("status") != "ok" or t.get("crosstest_disagreements")) else 0
    if rp.get("kind") == "direct":
        c = rp["case"]
        print("case:", json.dumps(c))
        out, tree = direct_impl(c)
        finds = direct_findings(c, out, tree)
        v = ctx.coq_eval("replay", PRE, [direct_expr(c)])[0]
        mtree, mout = sort_tree(from_coq_cfg(v[0])), from_coq_outcome(v[1])
        print("   impl :", out, tree)
        print("   model:", mout, mtree)
        agree = mout == out and (tree is None or mtree == tree)
        print("correspondence:", "model and implementation agree" if agree else "DIFFERENT")
        for k, w in finds:
            print("oracle: [%s] %s" % (k, w))
        if not finds:
            print("oracle: property holds on this case")
        return 1 if (finds or not agree) else 0
    ops = rp.get("ops") or []
    print("ops:")
    for o in ops:
        print("  ", json.dumps(o))
    if rp.get("kind") == "globals":
        p = subprocess.run([sys.executable, "-W", "ignore", "-c",
                            "from harness.props.C19 import globals_child; globals_child()"],
                           input=json.dumps({"seqs": [ops]}), capture_output=True, text=True, cwd=str(VERIF), timeout=600)
        res = json.loads(p.stdout.split("@@C19@@", 1)[1])
        s = res["seqs"][0]
        finds = [tuple(f) for f in s["findings"]]
        keys, itr, idf, ic, d0 = s["keys"], s["trace"], s["dflts"], s["init_conf"], res["init_dflts"]
        itr = [[dict(x, gets=[tuple(g) for g in x["gets"]]) for x in g] for g in itr]
    elif rp.get("kind") == "nest" or is_tree_seq(ops):
        from ..oracle_C19 import nest_findings
        finds = nest_findings(ops)
        keys = touched_keys(ops)
        itr, idf = run_impl(ops, keys)
        ic, d0 = None, None
    else:
        finds = oracle_findings(ops)
        if rp.get("ops2"):
            finds += respelling_findings(ops, rp["ops2"])
        keys = touched_keys(ops)
        itr, idf = run_impl(ops, keys)
        ic, d0 = None, None
    v = ctx.coq_eval("replay", PRE, [seq_expr(ops, keys, ic, d0)])[0]
    mtr, mdf = model_trace(v)
    for i, (o, gi, gm) in enumerate(zip(ops, itr, mtr)):
        print("op %d %s" % (i, json.dumps(o)))
        print("   impl :", [(x["out"], x["tree"]) for x in gi])
        print("   model:", [(x["out"], x["tree"]) for x in gm])
    d = first_difference(ops, keys, itr, idf, mtr, mdf)
    print("correspondence:", d[2] if d else "model and implementation agree")
    for k, w in finds:
        print("oracle: [%s] %s" % (k, w))
    if not finds:
        print("oracle: property holds on this case")
    return 1 if (finds or d) else 0
