"""C06 — Dataset.bin / fourier_resample / pad / crop obey conservation laws.

Theorems: coq/props/C06_Properties.v (exact rationals Qc for bin / pad / crop / calibration; an
abstract commutative ring with roots of unity for the Fourier pipeline).  Tie to /repo:

* memory layout — from_array keeps the caller's array, so every case hands its values over in one of nine layouts
  (C, Fortran, transposed / permuted views, strided, window, negative strides, offset, read-only): the results must
  depend on the values only (oracles, model, and the same call on np.ascontiguousarray of the array);
* oracle — the property text evaluated directly on the real Dataset methods: independent strided
  block sums, block-mean coordinates in exact Fractions, an independent signed-frequency DFT
  interpolation matrix, mean / centre / extent / linearity / identity / band-limited up-down round
  trip, pad-then-crop round trip; the same oracles for the 2nd..4th call on one source dataset, against its ORIGINAL
  calibration, with the source re-read after every copying call;
* correspondence — the Coq model (vm_compute) on the same inputs: exact for bin / pad / crop and
  the calibration (integer and dyadic inputs), the PrimFloat instance of the SAME `resample`
  definition (twiddle table from numpy) with a relative tolerance for the resampled data.
"""
from __future__ import annotations

import itertools
import json
import math
import re
from fractions import Fraction

import numpy as np

from ..common import Ctx, cfloat, cq, parse_coq_value

LEVEL = "proof"

PRE_Q = """From QV.lib Require Import Prelude FinSum.
From QV.model Require Import C06_Model.
From Coq Require Import QArith Qcanon PrimFloat.
Local Close Scope Q_scope.
Local Close Scope Qc_scope.
Definition nn (l : list (Z * Z)) : list (nat * nat) := map (fun p => (Z.to_nat (fst p), Z.to_nat (snd p))) l.
Definition q8 (l : list Z) : list Qc := map (fun z => Q2Qc (z # 8)) l.
Definition bin_case (mean : bool) (afs : list (Z * Z)) (sh : list Z) (x : list Z) (o s : list (Z * Z)) :=
  (show_t (bin mean (nn afs) (mkT (nl sh) (q8 x))), show_m (bin_meta (nn afs) (mkM (qcl o) (qcl s)))).
Definition pad_case (fill : Z) (sp : pad_spec) (sh : list Z) (x : list Z) :=
  let t := mkT (nl sh) x in
  let w := widths_of_spec (shape t) sp in
  let p := pad fill sp t in
  (show_ti p, map (fun ba => (Z.of_nat (fst ba), Z.of_nat (snd ba))) w,
   show_ti (crop_nd (uncrop_specs w) p), show_ti (crop_nd (uncrop_abs_from 0 (shape t) w) p)).
Definition crop_case (specs : list (Z * (Z * Z))) (sh : list Z) (x : list Z) :=
  show_ti (crop_nd (map (fun s => (Z.to_nat (fst s), snd s)) specs) (mkT (nl sh) x)).
Definition rsmeta_case (anm : list (Z * (Z * Z))) (o s : list (Z * Z)) :=
  show_m (resample_meta (map (fun t => (Z.to_nat (fst t), (Z.to_nat (fst (snd t)), Z.to_nat (snd (snd t))))) anm)
                        (mkM (qcl o) (qcl s))).
Definition outlen_case (l : list (Z * float)) := map (fun p => out_len_of_factor (fst p) (snd p)) l.
Open Scope Z_scope.
"""

PRE_F = """From QV.lib Require Import Prelude FinSum DFT DFT_Float.
From QV.model Require Import C06_Model C06_ModelND.
From Coq Require Import PrimFloat.
Fixpoint tab_of (tabs : list (Z * list cf)) (N : nat) : list cf :=
  match tabs with [] => [] | (k, t) :: r => if (k =? Z.of_nat N)%Z then t else tab_of r N end.
Definition ftwf (tabs : list (Z * list cf)) : nat -> Z -> cf := fun N => ftw N (tab_of tabs N).
Definition fhalf : cf := (0x1p-1%float, 0%float).
Definition fresample (tabs : list (Z * list cf)) (ams : list (Z * Z)) (isreal : bool) (sh : list Z) (x : list cf) : tensor cf :=
  let t := resample_nd cf0 cf1 cfadd cfmul (ftwf tabs) fNinv
             (map (fun p => (Z.to_nat (fst p), Z.to_nat (snd p))) ams) (mkT (nl sh) x) in
  if isreal then mkT (shape t) (map (re cfadd cfmul cfconj fhalf) (data t)) else t.
Definition rs_case tabs ams isreal sh (x want : list cf) :=
  let t := fresample tabs ams isreal sh x in
  (zl (shape t), fZZ (maxerr1 (data t) want), fZZ (maxabs1 want), map show_cf (firstn 3 (data t))).
Definition fpipeline (tabs : list (Z * list cf)) (ams : list (Z * Z)) (isreal : bool) (sh : list Z) (x : list cf) : tensor cf :=
  let t := pipeline_nd cf0 cf1 cfadd cfmul (ftwf tabs) fNinv
             (map (fun p => (Z.to_nat (fst p), Z.to_nat (snd p))) ams) (mkT (nl sh) x) in
  if isreal then mkT (shape t) (map (re cfadd cfmul cfconj fhalf) (data t)) else t.
Definition ps_case tabs ams isreal sh (x want : list cf) :=
  let t := fpipeline tabs ams isreal sh x in
  (zl (shape t), fZZ (maxerr1 (data t) want), fZZ (maxabs1 want), map show_cf (firstn 3 (data t))).
Definition src_case (l : list (Z * Z)) :=
  map (fun p => map show_on (src_bins (Z.to_nat (fst p)) (Z.to_nat (snd p)))) l.
Open Scope Z_scope.
"""

INT_DTYPES = ["int8", "int16", "int32", "int64", "uint8", "uint16"]
FLOAT_DTYPES = ["float32", "float64"]
CPLX_DTYPES = ["complex64", "complex128"]
ALL_DTYPES = INT_DTYPES + FLOAT_DTYPES + CPLX_DTYPES

# numpy.fft keeps single precision for float32 / complex64 input (numpy >= 2): eps 6e-8, transforms
# of <= 4 axes of length <= 12: measured worst relative error 3e-6 (stated tolerance ~60x above);
# double precision: measured 4e-15, stated 1e-9 (DESIGN section 5 C06)
TOL64 = 1e-9
TOL32 = 2e-4


def tol_of(dtype: str) -> float:
    return TOL32 if dtype in ("float32", "complex64") else TOL64


# ------------------------------------------------------------------------------------------
# glue

def coq_vals(ctx: Ctx, name, pre, exprs, shard):
    raw = ctx.coq_eval(name, pre, exprs, shard=shard, parse=False)
    out = []
    for v in raw:
        v = re.sub(r"\s+", " ", v)
        v = re.sub(r"\(\s*(-\d+)\s*\)\s*(%Z)?", r"\1", v)
        out.append(parse_coq_value(v))
    return out


def zlist(xs) -> str:
    return "[" + "; ".join(str(int(x)) for x in xs) + "]%Z"


def zpairs(ps) -> str:
    return "[" + "; ".join("(%d, %d)" % (int(a), int(b)) for a, b in ps) + "]%Z"


def frac8(v) -> Fraction:
    return Fraction(int(v), 8)


def qpairs(fs) -> str:
    return "[" + "; ".join("(%d, %d)" % (Fraction(f).numerator, Fraction(f).denominator) for f in fs) + "]%Z"


def fr_of_pair(p) -> Fraction:
    return Fraction(int(p[0]), int(p[1]))


def float_of_zz(p) -> float:
    m, e = int(p[0]), int(p[1])
    if e == 99999:
        return float("nan") if m == 0 else math.copysign(float("inf"), m)
    return math.ldexp(m, e)


def make_array(case) -> np.ndarray:
    """values are eighths: data8 / 8 (int dtypes use multiples of 8)"""
    sh = tuple(case["shape"])
    a = np.array(case["data8"], dtype=np.float64).reshape(sh) / 8.0
    if case.get("data8_im") is not None:
        a = a + 1j * (np.array(case["data8_im"], dtype=np.float64).reshape(sh) / 8.0)
    return a.astype(case["dtype"])


# ------------------------------------------------------------------------------------------
# MEMORY LAYOUT of the array handed to from_array (which keeps the caller's array as it is).  The property speaks
# about the VALUES of the array ("for all array shapes, dtypes"): the same values stored C-contiguous, column-major,
# as a transposed / axis-permuted view, as a strided or windowed view of a larger buffer, with negative strides, at
# an offset inside its buffer, or read-only, are the same input.

LAYOUT_KINDS = (["C"] * 6 + ["F"] * 4 + ["transposed"] * 2 + ["permuted"] * 2 + ["strided"] * 2 + ["window"] * 2
                + ["negative"] * 2 + ["offset"] + ["readonly"])


def layout_rng(ctx: Ctx):
    """the layouts are an independent dimension laid over the generated cases: their generator is seeded from the
    state of ctx.rng (VERIF_SEED) without drawing from it, so the logical cases of a seed are the same with and
    without this dimension"""
    import random
    import zlib
    if getattr(ctx, "_c06_layout_rng", None) is None:
        ctx._c06_layout_rng = random.Random(zlib.crc32(repr(ctx.rng.getstate()).encode()))
    return ctx._c06_layout_rng


def gen_layout(lr, nd):
    """a layout description (JSON): kind + its parameters; None = a fresh C-contiguous array"""
    kind = lr.choice(LAYOUT_KINDS)
    if kind == "C":
        return None
    lay = {"kind": kind}
    if kind == "permuted":
        perm = list(range(nd))
        lr.shuffle(perm)
        lay["perm"] = perm
    elif kind == "strided":
        lay["steps"] = [lr.choice([1, 2, 2, 3]) for _ in range(nd)]
        if all(s == 1 for s in lay["steps"]):
            lay["steps"][lr.randrange(nd)] = 2
    elif kind == "window":
        lay["before"] = [lr.randint(0, 2) for _ in range(nd)]
        lay["after"] = [lr.randint(0, 2) for _ in range(nd)]
        if not any(lay["before"] + lay["after"]):
            lay["after"][lr.randrange(nd)] = 1
        lay["order"] = lr.choice(["C", "C", "F"])
    elif kind == "negative":
        lay["flip"] = [lr.random() < 0.6 for _ in range(nd)]
        if not any(lay["flip"]):
            lay["flip"][lr.randrange(nd)] = True
        lay["order"] = lr.choice(["C", "C", "F"])
    elif kind == "offset":
        lay["lead"] = lr.randint(1, 5)
        lay["order"] = lr.choice(["C", "C", "F"])
    if kind != "readonly" and lr.random() < 0.12:
        lay["readonly"] = True
    return lay


def lay_out(a: np.ndarray, lay) -> np.ndarray:
    """an array with the values, shape and dtype of `a` stored as `lay` says; whatever else lives in the underlying
    buffer (gaps of a strided view, surroundings of a window, lead of an offset) is filled with a junk value"""
    a = np.ascontiguousarray(a)
    if not lay:
        return a.copy()
    kind, nd = lay["kind"], a.ndim
    junk = np.asarray(7, dtype=a.dtype)
    if kind == "F":
        x = np.array(a, order="F", copy=True)
    elif kind == "transposed":
        x = np.ascontiguousarray(a.T).T
    elif kind == "permuted":
        perm = [int(p) for p in lay["perm"]]
        x = np.ascontiguousarray(a.transpose(perm)).transpose([perm.index(i) for i in range(nd)])
    elif kind == "strided":
        st = [int(s) for s in lay["steps"]]
        big = np.full([n * s for n, s in zip(a.shape, st)], junk, dtype=a.dtype)
        sl = tuple(slice(0, n * s, s) for n, s in zip(a.shape, st))
        big[sl] = a
        x = big[sl]
    elif kind == "window":
        b, e = lay["before"], lay["after"]
        big = np.full([int(p) + n + int(q) for p, n, q in zip(b, a.shape, e)], junk, dtype=a.dtype, order=lay["order"])
        sl = tuple(slice(int(p), int(p) + n) for p, n in zip(b, a.shape))
        big[sl] = a
        x = big[sl]
    elif kind == "negative":
        sl = tuple(slice(None, None, -1) if f else slice(None) for f in lay["flip"])
        x = np.array(a[sl], order=lay["order"], copy=True)[sl]
    elif kind == "offset":
        k = int(lay["lead"])
        buf = np.full(k + a.size, junk, dtype=a.dtype)
        buf[k:] = a.reshape(-1, order=lay["order"])
        x = buf[k:].reshape(a.shape, order=lay["order"])
    elif kind == "readonly":
        x = a.copy()
    else:
        raise ValueError("unknown layout %r" % (lay,))
    if kind == "readonly" or lay.get("readonly"):
        x.setflags(write=False)
    assert x.shape == a.shape and x.dtype == a.dtype and np.array_equal(x, a, equal_nan=True)
    return x


def layout_text(lay) -> str:
    if not lay:
        return "a fresh C-contiguous array"
    k = lay["kind"]
    t = {"F": "a Fortran-contiguous (column-major) copy, np.asfortranarray(x)",
         "transposed": "the transposed view y.T of the C-contiguous array y = x.T.copy()",
         "permuted": "an axis-permuted view: ascontiguousarray(x.transpose(%s)) transposed back" % (lay.get("perm"),),
         "strided": "a strided view big[::s] of a larger buffer, steps %s" % (lay.get("steps"),),
         "window": "a window big[b:b+n] inside a larger %s-ordered buffer, margins before %s after %s"
                   % (lay.get("order"), lay.get("before"), lay.get("after")),
         "negative": "a view with negative strides: %s-ordered copy of x[flip] flipped back, flipped axes %s"
                     % (lay.get("order"), [i for i, f in enumerate(lay.get("flip", [])) if f]),
         "offset": "a %s-ordered view starting %s elements into its buffer" % (lay.get("order"), lay.get("lead")),
         "readonly": "a C-contiguous array"}[k]
    return t + (", read-only (writeable=False)" if (k == "readonly" or lay.get("readonly")) else "")


def layout_flags(x: np.ndarray) -> str:
    c, f = bool(x.flags.c_contiguous), bool(x.flags.f_contiguous)
    return "C+F" if c and f else "C" if c else "F" if f else "non-contiguous"


def layout_dist(ctx: Ctx, tag, case):
    """share of the layouts among the cases of one kind, by description and by what NumPy's flags say of the array"""
    lay = case.get("layout")
    x = lay_out(make_array(case), lay)
    ctx.dist("%s/layout=%s" % (tag, lay["kind"] if lay else "C"))
    ctx.dist("%s/layout-flags=%s%s" % (tag, layout_flags(x), "" if x.flags.writeable else ",read-only"))
    ctx.dist("layout/%s" % ("C-contiguous fresh array" if not lay else "other"))
    if x.ndim >= 2 and x.flags.f_contiguous and not x.flags.c_contiguous:
        ctx.dist("layout/strictly-Fortran-contiguous,ndim>=2")


def layout_note(case) -> str:
    return (" [input array given as %s]" % layout_text(case["layout"])) if case.get("layout") else ""


def same_values(x, y, rel=0.0, scale=1.0):
    """results of one operation on two layouts of the same values: exact (rel = 0) or within rel * scale"""
    if isinstance(x, str) or isinstance(y, str):
        return isinstance(x, str) and isinstance(y, str), None
    if tuple(x.shape) != tuple(y.shape):
        return False, None
    if rel == 0.0:
        return exact_eq(x, y), _first_diff(x, y)
    ok, _ = close_arr(x, y, rel, scale)
    return ok, _first_diff(x, y, rel * scale)


def layout_compare(case, obs, impl, name, fields, rel=0.0):
    """"the result depends on the values only": the same call on np.ascontiguousarray(x) (the case without its
    layout) must give the same data and calibration.  -> [(key, what)]"""
    if not case.get("layout"):
        return []
    ref = impl(dict(case, layout=None))
    scale = max(1.0, float(np.max(np.abs(make_array(case)))) if make_array(case).size else 1.0)
    for f in fields:
        if f in ("origin", "sampling"):
            same, where = list(obs[f]) == list(ref[f]), None
        else:
            same, where = same_values(obs[f], ref[f], rel, scale)
        if not same:
            return [("%s-depends-on-memory-layout" % name,
                     "%s of the SAME values gives a different %s when the array is %s than when it is "
                     "np.ascontiguousarray of it%s: %s vs %s" % (
                         name, {"array": "result", "padded": "padded array", "rt_rel": "pad/crop round trip",
                                "rt_abs": "pad/crop round trip", "rt_axes": "pad/crop round trip"}.get(f, f),
                         layout_text(case["layout"]),
                         "" if where is None else " (first difference at %s)" % (where,),
                         _brief(obs[f], where), _brief(ref[f], where)))]
    return []


def layout_guard(ctx: Ctx, name, impl, case):
    """impl(case); when it raises for a laid-out array although the same call on np.ascontiguousarray of the same
    values succeeds, that is a failing input of its own (reported, then the case goes on with the contiguous array);
    any other exception is left to the framework as before"""
    try:
        return case, impl(case)
    except Exception as e:  # noqa
        if not case.get("layout"):
            raise
        plain = dict(case, layout=None)
        obs = impl(plain)                    # raises again when the layout is not the reason
        ctx.violation("%s-raises-on-memory-layout" % name,
                      "%s raises %s: %s when the array is %s; the same call on np.ascontiguousarray of the same values "
                      "succeeds" % (name, type(e).__name__, e, layout_text(case["layout"])), dict(case))
        return plain, obs


def _brief(v, where):
    if isinstance(v, str):
        return v
    if isinstance(v, list):
        return str(v)
    if where is not None:
        return _at(v, where)
    return "shape %s" % (list(np.shape(v)),)


SUBCLASSES = {2: ["Dataset2d"], 3: ["Dataset3d"], 4: ["Dataset4d", "Dataset4dstem"]}


def gen_cls(r, nd):
    """the methods are inherited by every Dataset subclass: 40 % of the 2/3/4-D cases run on the subclass of
    that dimension (Dataset2d / Dataset3d / Dataset4d / Dataset4dstem)"""
    if nd in SUBCLASSES and r.random() < 0.4:
        return r.choice(SUBCLASSES[nd])
    return "Dataset"


CALIB_FORMS = ["default", "default", "default", "float-list", "float-list", "float-array", "float-array", "scalar",
               "int-tuple", "int-tuple", "int-array", "mixed", "float32-array"]
INT_CALIB = ("int-tuple", "int-array")


def gen_calib(r, nd):
    """how origin / sampling reach from_array: not at all (its defaults np.zeros / np.ones), python floats, a float64 /
    float32 / int64 ndarray, python ints, one float scalar for all axes, ints for the origin and floats for the sampling"""
    form = r.choice(CALIB_FORMS)
    if form == "default":
        return form, [0] * nd, [8] * nd
    o8, s8 = gen_meta(r, nd)
    if form in INT_CALIB:
        o8, s8 = [8 * r.randint(-5, 5) for _ in range(nd)], [8 * r.choice([1, 1, 2, 3, 5]) for _ in range(nd)]
    elif form == "mixed":
        o8 = [8 * r.randint(-5, 5) for _ in range(nd)]
    elif form == "scalar":
        o8, s8 = [o8[0]] * nd, [s8[0]] * nd
    return form, o8, s8


def calib_args(case, nd):
    form = case.get("calib") or "float-list"
    if form == "default":
        return {}
    o8, s8 = case.get("origin8", [0] * nd), case.get("sampling8", [8] * nd)
    of, sf = [float(frac8(v)) for v in o8], [float(frac8(v)) for v in s8]
    if form == "float-array":
        return {"origin": np.array(of, dtype=np.float64), "sampling": np.array(sf, dtype=np.float64)}
    if form == "float32-array":
        return {"origin": np.array(of, dtype=np.float32), "sampling": np.array(sf, dtype=np.float32)}
    if form == "scalar":
        return {"origin": of[0], "sampling": sf[0]}
    if form in INT_CALIB or form == "mixed":
        oi = [int(v) // 8 for v in o8]
        si = [int(v) // 8 for v in s8]
        if form == "int-tuple":
            return {"origin": tuple(oi), "sampling": tuple(si)}
        if form == "int-array":
            return {"origin": np.array(oi, dtype=np.int64), "sampling": np.array(si, dtype=np.int64)}
        return {"origin": tuple(oi), "sampling": sf}
    return {"origin": of, "sampling": sf}


def dataset_of(case, a=None):
    import quantem.core.datastructures as qd
    a = make_array(case) if a is None else a
    nd = a.ndim
    cls = getattr(qd, case.get("cls") or "Dataset")
    return cls.from_array(lay_out(a, case.get("layout")), name="c06", units=["A"] * nd, **calib_args(case, nd))


def passed_axes(case):
    """the axes as handed to the implementation: entries flagged in case["axes_neg"] are written the NumPy way,
    counted from the last axis (a - ndim); the oracle and the model always use the non-negative axis"""
    nd = len(case["shape"])
    neg = case.get("axes_neg") or [False] * len(case["axes"])
    return [int(a) - nd if g else int(a) for a, g in zip(case["axes"], neg)]


def gen_axes_neg(r, k):
    """15 % of the cases name some (or all) of their axes by negative index"""
    if r.random() >= 0.15:
        return None
    neg = [r.random() < 0.6 for _ in range(k)]
    if not any(neg):
        neg[r.randrange(k)] = True
    return neg


def gen_shape(r, ndim=None, max_elems=160, max_len=12):
    ndim = ndim or r.choice([1, 1, 2, 2, 2, 3, 3, 4])
    while True:
        hi = {1: max_len, 2: max_len, 3: 7, 4: 5}[ndim]
        sh = [r.randint(1, hi) for _ in range(ndim)]
        if int(np.prod(sh)) <= max_elems:
            return sh


def gen_data(r, shape, dtype, big=False):
    n = int(np.prod(shape))
    if dtype in INT_DTYPES:
        lo = 0 if dtype.startswith("u") else -9
        if big and dtype != "int64" and r.random() < 0.3:
            # counts near the top of a narrow integer dtype: a block sum must not wrap around in the
            # input dtype ("sums exactly the pixels of each block" for int data)
            hi = int(np.iinfo(dtype).max)
            d = [8 * r.randint(hi - hi // 8, hi) for _ in range(n)]
            return d, None
        d = [8 * r.randint(lo, 14) for _ in range(n)]
        return d, None
    d = [r.randint(-40, 72) for _ in range(n)]
    if dtype in CPLX_DTYPES:
        return d, [r.randint(-40, 72) for _ in range(n)]
    return d, None


def gen_meta(r, nd):
    return [r.randint(-40, 40) for _ in range(nd)], [r.choice([1, 2, 3, 4, 6, 8, 10, 12, 20]) for _ in range(nd)]


def exact_eq(impl: np.ndarray, want: np.ndarray) -> bool:
    return impl.shape == want.shape and bool(np.array_equal(np.asarray(impl).astype(np.complex128), want.astype(np.complex128)))


def close_arr(impl, want, rel, scale=None):
    if tuple(impl.shape) != tuple(want.shape):
        return False, float("inf")
    if impl.size == 0:
        return True, 0.0
    d = np.abs(np.asarray(impl).astype(np.complex128) - np.asarray(want).astype(np.complex128))
    if not np.all(np.isfinite(d)):
        return False, float("nan")
    sc = max(1.0, float(np.max(np.abs(want)))) if scale is None else scale
    e = float(np.max(d))
    return e <= rel * sc, e / sc


# ------------------------------------------------------------------------------------------
# BIN

def gen_bin_case(r, quick=True, base=None):
    """base: a source dataset (dtype, shape, data, calibration, class) the operation is generated FOR (sequences of
    operations on one source); the random stream of the stand-alone cases (base=None) is unchanged"""
    dtype = base["dtype"] if base else r.choice(ALL_DTYPES)
    shape = base["shape"] if base else gen_shape(r)
    nd = len(shape)
    d, di = (base["data8"], base["data8_im"]) if base else gen_data(r, shape, dtype, big=True)
    k = r.choice([nd, r.randint(1, nd), r.randint(1, nd)])
    axes = sorted(r.sample(range(nd), k))
    if r.random() < 0.3:
        r.shuffle(axes)
    facs = []
    for a in axes:
        n = shape[a]
        facs.append(n + 1 if r.random() < 0.04 else r.choice([1, 2, 2, 3, 3, 4, 5, n, max(1, n - 1), max(1, n // 2)]))
    form = "tuple"
    if k == nd and axes == list(range(nd)) and r.random() < 0.5:
        form = "none"
        if r.random() < 0.5:
            facs = [facs[0]] * nd
            form = "none-int"
    elif k == 1 and r.random() < 0.5:
        form = "int"
    o8, s8 = (base["origin8"], base["sampling8"]) if base else gen_meta(r, nd)
    case = {"kind": "bin", "dtype": dtype, "shape": shape, "data8": d, "data8_im": di, "axes": axes, "factors": facs,
            "form": form, "reducer": r.choice(["sum", "sum", "mean"]), "origin8": o8, "sampling8": s8,
            "inplace": r.random() < 0.25, "cls": base["cls"] if base else gen_cls(r, nd)}
    if form in ("int", "tuple"):
        neg = gen_axes_neg(r, k)
        if neg:
            case["axes_neg"] = neg
    return case


def bin_call(ds, case):
    form = case["form"]
    kw = {"reducer": case["reducer"]}
    if form == "none":
        args = (tuple(case["factors"]), None)
    elif form == "none-int":
        args = (int(case["factors"][0]), None)
    elif form == "int":
        args = (int(case["factors"][0]), passed_axes(case)[0])
    else:
        args = (tuple(case["factors"]), tuple(passed_axes(case)))
    if case.get("inplace"):
        r = ds.bin(*args, modify_in_place=True, **kw)
        return ds if r is None else r
    return ds.bin(*args, **kw)


def bin_impl(case, a=None):
    ds = dataset_of(case, a)
    out = bin_call(ds, case)
    return {"array": np.asarray(out.array), "origin": np.asarray(out.origin, dtype=np.float64).tolist(),
            "sampling": np.asarray(out.sampling, dtype=np.float64).tolist()}


def bin_seq_impl(case):
    ds = dataset_of(case)
    for ax, f in zip(case["axes"], case["factors"]):
        ds = ds.bin(int(f), axes=int(ax), reducer=case["reducer"])
    return {"array": np.asarray(ds.array), "origin": np.asarray(ds.origin, dtype=np.float64).tolist(),
            "sampling": np.asarray(ds.sampling, dtype=np.float64).tolist()}


def block_sums(a: np.ndarray, a2f: dict) -> np.ndarray:
    """the property text: out[J] = sum of the pixels of block J (blocks start at index 0 of every
    binned axis, trailing remainder dropped) — strided accumulation, no reshape"""
    nd = a.ndim
    nb = [a.shape[ax] // a2f[ax] if ax in a2f else a.shape[ax] for ax in range(nd)]
    acc = np.zeros(nb, dtype=np.complex128)
    axes = sorted(a2f)
    for offs in itertools.product(*[range(a2f[ax]) for ax in axes]):
        idx = [slice(None)] * nd
        for ax, off in zip(axes, offs):
            idx[ax] = slice(off, off + nb[ax] * a2f[ax], a2f[ax]) if nb[ax] > 0 else slice(0, 0)
        acc = acc + a[tuple(idx)].astype(np.complex128)
    return acc


def bin_oracle(case, obs, rerun=None):
    bad = []
    a = make_array(case)
    a2f = dict(zip(case["axes"], case["factors"]))
    nd = a.ndim
    arr = obs["array"]
    want_shape = tuple(a.shape[ax] // a2f[ax] if ax in a2f else a.shape[ax] for ax in range(nd))
    if tuple(arr.shape) != want_shape:
        bad.append(("bin-shape", "bin%s of shape %s%s gives shape %s, expected %s (n // f per binned axis)"
                    % (a2f, list(a.shape), _axes_note(case), list(arr.shape), list(want_shape))))
        return bad
    sums = block_sums(a, a2f)
    vol = 1
    for f in a2f.values():
        vol *= f
    if case["reducer"] == "sum":
        if not exact_eq(arr, sums):
            i = _first_diff(arr, sums)
            bad.append(("bin-block-sum", "bin%s (sum) of a %s %s array: output pixel %s = %s but the pixels of its block "
                        "sum to %s" % (a2f, list(a.shape), case["dtype"], i, _at(arr, i), _at(sums, i))))
        cov = a[tuple(slice(0, (a.shape[ax] // a2f[ax]) * a2f[ax]) if ax in a2f else slice(None) for ax in range(nd))]
        tot = complex(np.sum(cov.astype(np.complex128)))
        if complex(np.sum(arr.astype(np.complex128))) != tot:
            bad.append(("bin-counts", "bin%s (sum): total of the result %s differs from the total of the covered region %s"
                        % (a2f, complex(np.sum(arr.astype(np.complex128))), tot)))
    else:
        rel = 2.0 ** -21 if case["dtype"] in ("float32", "complex64") else 2.0 ** -50
        ok, e = close_arr(arr, sums / vol, rel)
        if not ok:
            i = _first_diff(arr, sums / vol, rel)
            bad.append(("bin-block-mean", "bin%s (mean) of a %s %s array: output pixel %s = %s but the mean of its block "
                        "is %s" % (a2f, list(a.shape), case["dtype"], i, _at(arr, i), _at(sums / vol, i))))
    # calibration, exact (dyadic inputs)
    o = [frac8(v) for v in case["origin8"]]
    s = [frac8(v) for v in case["sampling8"]]
    for ax in range(nd):
        no, ns = Fraction(obs["origin"][ax]), Fraction(obs["sampling"][ax])
        if ax not in a2f:
            if no != o[ax] or ns != s[ax]:
                bad.append(("bin-untouched-axis-calibration", "bin%s changed origin/sampling of the un-binned axis %d: "
                            "(%s, %s) -> (%s, %s)" % (a2f, ax, o[ax], s[ax], no, ns)))
            continue
        f = a2f[ax]
        if ns != f * s[ax]:
            bad.append(("bin-sampling", "bin factor %d on axis %d: sampling %s -> %s, expected %s"
                        % (f, ax, s[ax], ns, f * s[ax])))
        first = sum(o[ax] + i * s[ax] for i in range(f)) / f
        if no != first:
            bad.append(("bin-origin", "bin factor %d on axis %d (origin %s, sampling %s): new origin %s is not the mean "
                        "coordinate %s of the first block" % (f, ax, o[ax], s[ax], no, first)))
        for j in range(a.shape[ax] // f):
            centre = sum(o[ax] + (j * f + i) * s[ax] for i in range(f)) / f
            if no + j * ns != centre:
                bad.append(("bin-centres", "bin factor %d on axis %d: coordinate of binned pixel %d is %s but the mean "
                            "coordinate of its block is %s" % (f, ax, j, no + j * ns, centre)))
                break
    # one call over several axes = one call per axis, one after the other (C06_bin_sequential_calls)
    if rerun is not None and len(a2f) >= 2:
        seq = bin_seq_impl(case)
        if case["reducer"] == "sum":
            same = exact_eq(seq["array"], arr)
        else:
            same = close_arr(seq["array"], arr, 2.0 ** -20 if case["dtype"] in ("float32", "complex64") else 2.0 ** -49)[0]
        if not same or seq["origin"] != obs["origin"] or seq["sampling"] != obs["sampling"]:
            bad.append(("bin-sequential-calls", "bin%s in one call differs from binning the same axes one call after the "
                        "other: shapes %s / %s, origin %s / %s, sampling %s / %s, first data difference at %s"
                        % (a2f, list(arr.shape), list(seq["array"].shape), obs["origin"], seq["origin"], obs["sampling"],
                           seq["sampling"], _first_diff(seq["array"], arr))))
    # only the trailing remainder is dropped: overwriting it must not change the result
    if rerun is not None and any(a.shape[ax] % a2f[ax] for ax in a2f) and a.size:
        b = a.copy()
        for ax in a2f:
            n, f = a.shape[ax], a2f[ax]
            if n % f:
                idx = [slice(None)] * nd
                idx[ax] = slice((n // f) * f, n)
                b[tuple(idx)] = b[tuple(idx)] + np.asarray(8, dtype=b.dtype)
        obs2 = rerun(case, b)
        if not exact_eq(obs2["array"], arr):
            bad.append(("bin-depends-on-dropped-tail", "bin%s: changing only the trailing remainder (index >= (n//f)*f) "
                        "of the binned axes changes the result" % (a2f,)))
    return bad


def _axes_note(case):
    return (" (axes given as %s)" % (passed_axes(case),)) if case.get("axes_neg") else ""


def _first_diff(x, y, rel=0.0):
    x = np.asarray(x).astype(np.complex128)
    y = np.asarray(y).astype(np.complex128)
    if x.shape != y.shape:
        return None
    d = np.abs(x - y) > rel * np.maximum(1.0, np.abs(y))
    w = np.argwhere(d)
    return tuple(int(t) for t in w[0]) if len(w) else None


def _at(x, i):
    if i is None:
        return "<shape %s>" % (list(np.shape(x)),)
    v = complex(np.asarray(x)[i])
    return repr(v.real) if v.imag == 0 else repr(v)


def bin_expr(case, part="re"):
    data = case["data8"] if part == "re" else case["data8_im"]
    afs = zpairs(zip(case["axes"], case["factors"]))
    return "bin_case %s %s %s %s %s %s" % (
        "true" if case["reducer"] == "mean" else "false", afs, zlist(case["shape"]), zlist(data),
        qpairs([frac8(v) for v in case["origin8"]]), qpairs([frac8(v) for v in case["sampling8"]]))


def model_tensor(v):
    """parsed show_t / show_ti -> (shape, ndarray of Fractions as object)"""
    sh, data = v
    return [int(t) for t in sh], data


def bin_correspond(case, obs, vre, vim):
    bad = []
    sh, dre, (mo, ms) = vre          # Coq prints ((a, b), c) as (a, b, c)
    sh = [int(t) for t in sh]
    arr = obs["array"]
    if list(arr.shape) != sh:
        return [("bin-correspondence", "shape: implementation %s, model %s" % (list(arr.shape), sh))]
    fre = [fr_of_pair(p) for p in dre]
    fim = [fr_of_pair(p) for p in vim[1]] if vim is not None else [Fraction(0)] * len(fre)
    flat = np.asarray(arr).reshape(-1)
    single = case["dtype"] in ("float32", "complex64")
    rel = Fraction(2) ** (-21 if single else -50)
    for i, (mr, mi) in enumerate(zip(fre, fim)):
        z = complex(flat[i])
        for got, want in ((z.real, mr), (z.imag, mi)):
            g = Fraction(got)
            if g != want and (case["reducer"] == "sum" or abs(g - want) > rel * max(abs(want), Fraction(1, 8))):
                return [("bin-correspondence", "data: flat index %d: implementation %r, model %s (%s)"
                         % (i, z, mr, mi))]
    io = [Fraction(x) for x in obs["origin"]]
    isamp = [Fraction(x) for x in obs["sampling"]]
    if io != [fr_of_pair(p) for p in mo] or isamp != [fr_of_pair(p) for p in ms]:
        bad.append(("bin-meta-correspondence", "calibration: implementation origin %s sampling %s, model origin %s "
                    "sampling %s" % (obs["origin"], obs["sampling"], [str(fr_of_pair(p)) for p in mo],
                                     [str(fr_of_pair(p)) for p in ms])))
    return bad


def check_bin(ctx: Ctx):
    r = ctx.rng
    cases = [dict(c) for c in _corpus().get("bin", [])]
    lr = layout_rng(ctx)
    for _ in range(ctx.budget(110, 2500)):
        cases.append(dict(gen_bin_case(r, ctx.quick)))
        cases[-1]["layout"] = gen_layout(lr, len(cases[-1]["shape"]))
    obs_all, exprs, owners, failed = [], [], [], {}
    for ci in range(len(cases)):
        case, obs = layout_guard(ctx, "bin", bin_impl, cases[ci])
        cases[ci] = case
        obs_all.append(obs)
        bad = bin_oracle(case, obs, rerun=bin_impl)
        bad += layout_compare(case, obs, bin_impl, "bin", ("array", "origin", "sampling"),
                              0.0 if case["reducer"] == "sum" else 2.0 ** -20)
        failed[ci] = bool(bad)
        for key, what in bad:
            ctx.violation(key, what + layout_note(case), dict(case))
        layout_dist(ctx, "bin", case)
        a2f = dict(zip(case["axes"], case["factors"]))
        nondiv = any(case["shape"][a] % f for a, f in a2f.items())
        ctx.dist("bin/dtype=%s" % case["dtype"])
        ctx.dist("bin/class=%s" % (case.get("cls") or "Dataset"))
        ctx.dist("bin/axes-named=%s" % ("negative" if case.get("axes_neg") else "non-negative"))
        ctx.dist("bin/ndim=%d" % len(case["shape"]))
        ctx.dist("bin/axes=%s" % ("all" if len(a2f) == len(case["shape"]) else "subset"))
        ctx.dist("bin/factors=%s" % ("non-dividing" if nondiv else "dividing"))
        ctx.dist("bin/reducer=%s" % case["reducer"])
        ctx.count(("bin", json.dumps(case, sort_keys=True)),
                  nontrivial=any(f > 1 for f in case["factors"]) and obs["array"].size > 0)
        exprs.append(bin_expr(case, "re"))
        owners.append((ci, "re"))
        if case["data8_im"] is not None:
            exprs.append(bin_expr(case, "im"))
            owners.append((ci, "im"))
    vals = coq_vals(ctx, "bin", PRE_Q, exprs, 12 if ctx.quick else 40)
    by = {}
    for (ci, part), v in zip(owners, vals):
        by.setdefault(ci, {})[part] = v
    nd = 0
    for ci, case in enumerate(cases):
        ctx.cov["traces_validated_against_impl"] += 1
        for key, what in bin_correspond(case, obs_all[ci], by[ci]["re"], by[ci].get("im")):
            nd += 1
            ctx.cov["disagreements_checked"] += 1
            ctx.violation(key, "model and implementation disagree on Dataset.bin (the binning theorems no longer speak "
                          "about this code): " + what + layout_note(case), dict(case), found_input=failed[ci])
    c0 = cases[min(3, len(cases) - 1)]
    ctx.sample({"kind": "bin", "case": {k: c0[k] for k in ("dtype", "shape", "axes", "factors", "reducer")},
                "impl_shape": list(obs_all[min(3, len(cases) - 1)]["array"].shape),
                "impl_origin": obs_all[min(3, len(cases) - 1)]["origin"],
                "impl_sampling": obs_all[min(3, len(cases) - 1)]["sampling"]})
    ctx.log("bin: %d cases, %d model evaluations, %d disagreements" % (len(cases), len(exprs), nd))


# ------------------------------------------------------------------------------------------
# PAD / CROP

def gen_pad_case(r, base=None):
    dtype = base["dtype"] if base else r.choice(ALL_DTYPES)
    shape = base["shape"] if base else gen_shape(r, max_elems=90, max_len=9)
    nd = len(shape)
    d, di = (base["data8"], base["data8_im"]) if base else gen_data(r, shape, dtype)
    mode = r.choice(["shape", "shape", "shape", "shape", "int", "pair", "seq"])
    case = {"kind": "pad", "dtype": dtype, "shape": shape, "data8": d, "data8_im": di, "mode": mode,
            "inplace": r.random() < 0.2,
            # third crop call of the round trip: only the padded axes are named (axes=...), by non-negative or
            # by negative index
            "crop_axes": r.choice(["subset", "subset", "neg", "mixed"]), "cls": base["cls"] if base else gen_cls(r, nd),
            # np.pad keyword arguments handed through Dataset.pad: any fill must be removed again by the crop
            "pad_kw": r.choice([None, None, None, "edge", "reflect", "symmetric", "wrap", "linear_ramp", "mean", "empty",
                                "cv", "cv"])}
    if case["pad_kw"] == "cv":
        case["cv"] = r.randint(1, 5)
    if mode == "shape":
        grow = r.random() < 0.85                     # 15 %: some axis asks for less than it has
        case["out"] = [n + r.choice([0, 1, 1, 2, 3, 4, 5]) if (grow or r.random() < 0.5) else max(1, n - r.randint(1, 2))
                       for n in shape]
    elif mode == "int":
        case["pw"] = r.randint(0, 3)
    elif mode == "pair":
        case["pw"] = [r.randint(0, 3), r.randint(0, 3)]
    else:
        case["pw"] = [[r.randint(0, 3), r.randint(0, 3)] for _ in range(nd)]
    return case


def pad_widths_text(case):
    """the pad widths of the property text (symmetric padding to the output shape: floor before,
    ceil after), computed here independently"""
    shape = case["shape"]
    if case["mode"] == "shape":
        w = []
        for n, o in zip(shape, case["out"]):
            d = max(0, o - n)
            w.append((d // 2, d - d // 2))
        return w
    if case["mode"] == "int":
        return [(case["pw"], case["pw"])] * len(shape)
    if case["mode"] == "pair":
        return [tuple(case["pw"])] * len(shape)
    return [tuple(p) for p in case["pw"]]


def pad_kwargs(case):
    m = case.get("pad_kw")
    if not m:
        return {}
    if m == "cv":
        return {"mode": "constant", "constant_values": int(case["cv"])}
    return {"mode": m}


def pad_fill8(case, part):
    """fill value of the padding in eighths, or None when the mode does not pad with a constant"""
    m = case.get("pad_kw")
    if not m:
        return 0
    if m == "cv":
        return 8 * int(case["cv"]) if part == "re" else 0
    return None


def pad_impl(case):
    return pad_run(dataset_of(case), case)


def pad_run(ds, case):
    if case["mode"] == "shape":
        kw = {"output_shape": tuple(case["out"])}
    elif case["mode"] == "int":
        kw = {"pad_width": int(case["pw"])}
    elif case["mode"] == "pair":
        kw = {"pad_width": tuple(case["pw"])}
    else:
        kw = {"pad_width": tuple(tuple(p) for p in case["pw"])}
    kw.update(pad_kwargs(case))
    if case.get("inplace"):
        ds.pad(modify_in_place=True, **kw)
        p = ds
    else:
        p = ds.pad(**kw)
    w = pad_widths_text(case)
    padded = np.asarray(p.array).copy()
    obs = {"padded": padded}
    try:
        obs["rt_rel"] = np.asarray(p.crop(tuple((b, -a) for b, a in w)).array).copy()
    except Exception as e:  # noqa
        obs["rt_rel"] = "raises %s: %s" % (type(e).__name__, e)
    try:
        obs["rt_abs"] = np.asarray(p.crop(tuple((b, b + n) for (b, a), n in zip(w, case["shape"]))).array).copy()
    except Exception as e:  # noqa
        obs["rt_abs"] = "raises %s: %s" % (type(e).__name__, e)
    if case.get("crop_axes"):
        axs, cw = crop_axes_call(case, w)
        try:
            obs["rt_axes"] = np.asarray(p.crop(cw, axs).array).copy() if axs else padded
        except Exception as e:  # noqa
            obs["rt_axes"] = "raises %s: %s" % (type(e).__name__, e)
    return obs


def crop_axes_call(case, w):
    """crop only the axes that were padded, named explicitly: (axes, crop_widths)"""
    nd = len(case["shape"])
    axs = [ax for ax, (b, a) in enumerate(w) if b or a]
    how = case["crop_axes"]
    named = [ax - nd if (how == "neg" or (how == "mixed" and i % 2 == 0)) else ax for i, ax in enumerate(axs)]
    return tuple(named), tuple((w[ax][0], -w[ax][1]) for ax in axs)


def pad_oracle(case, obs):
    bad = []
    a = make_array(case)
    w = pad_widths_text(case)
    want_shape = tuple(b + n + a_ for (b, a_), n in zip(w, a.shape))
    if case["mode"] == "shape" and all(o >= n for o, n in zip(case["out"], a.shape)):
        if tuple(obs["padded"].shape) != tuple(case["out"]):
            bad.append(("pad-output-shape", "pad(output_shape=%s) of shape %s gives shape %s"
                        % (case["out"], list(a.shape), list(obs["padded"].shape))))
    elif tuple(obs["padded"].shape) != want_shape:
        bad.append(("pad-output-shape", "pad(%s) of shape %s gives shape %s, expected %s"
                    % (case.get("pw", case.get("out")), list(a.shape), list(obs["padded"].shape), list(want_shape))))
    forms = [("rt_rel", "(before, -after)"), ("rt_abs", "(before, before + n)")]
    if "rt_axes" in obs:
        forms.append(("rt_axes", "(before, -after) for the padded axes only, axes=%s" % (crop_axes_call(case, w)[0],)))
    for nm, form in forms:
        rt = obs[nm]
        if isinstance(rt, str) or not exact_eq(rt, a) or rt.dtype != a.dtype:
            bad.append(("pad-crop-roundtrip", "pad(%s) of a %s %s array followed by crop with the pad widths %s given as %s "
                        "does not return the original data: %s" % (
                            dict({"output_shape": case["out"]} if case["mode"] == "shape" else {"pad_width": case["pw"]},
                                 **pad_kwargs(case)),
                            list(a.shape), case["dtype"], w, form,
                            rt if isinstance(rt, str) else "shape %s, first difference at %s"
                            % (list(rt.shape), _first_diff(rt, a)))))
            break
    return bad


def pad_expr(case, part="re"):
    data = case["data8"] if part == "re" else case["data8_im"]
    if case["mode"] == "shape":
        sp = "(PadShape (nl %s))" % zlist(case["out"])
    elif case["mode"] == "int":
        sp = "(PadInt %d%%nat)" % case["pw"]
    elif case["mode"] == "pair":
        sp = "(PadPair %d%%nat %d%%nat)" % tuple(case["pw"])
    else:
        sp = "(PadSeq (nn %s))" % zpairs(case["pw"])
    fill = pad_fill8(case, part)
    return "pad_case %d %s %s %s" % (0 if fill is None else fill, sp, zlist(case["shape"]), zlist(data))


def arr8(x: np.ndarray, part):
    v = np.asarray(x).astype(np.complex128)
    v = (v.real if part == "re" else v.imag) * 8.0
    return [int(t) for t in np.rint(v).reshape(-1)], bool(np.all(v == np.rint(v)))


def ti_equal(x, mv, part):
    if isinstance(x, str):
        return False
    sh, data = mv
    got, integral = arr8(x, part)
    return integral and [int(t) for t in sh] == list(x.shape) and got == [int(t) for t in data]


def pad_correspond(case, obs, v, part):
    bad = []
    psh, pdata, mw, mrel, mabs = v   # Coq prints (((a, b), c), d) flattened on the left
    mp = (psh, pdata)
    if [(int(b), int(a)) for b, a in mw] != [tuple(p) for p in pad_widths_text(case)]:
        bad.append(("pad-widths-correspondence", "pad widths: property text %s, model %s" % (pad_widths_text(case), mw)))
    if pad_fill8(case, part) is None:
        # the fill of this np.pad mode is not modelled: shape only (the round trips below do not depend on it)
        if [int(t) for t in mp[0]] != list(obs["padded"].shape):
            bad.append(("pad-correspondence", "padded shape (mode %s): implementation %s, model %s"
                        % (case["pad_kw"], list(obs["padded"].shape), [int(t) for t in mp[0]])))
    elif not ti_equal(obs["padded"], mp, part):
        bad.append(("pad-correspondence", "padded array (%s part): implementation shape %s, model shape %s; contents differ"
                    % (part, list(obs["padded"].shape), [int(t) for t in mp[0]])))
    if not ti_equal(obs["rt_rel"], mrel, part) or not ti_equal(obs["rt_abs"], mabs, part):
        bad.append(("crop-correspondence", "crop of the padded array with the pad widths: implementation and model differ"))
    return bad


def gen_crop_case(r, base=None):
    dtype = base["dtype"] if base else r.choice(ALL_DTYPES)
    shape = base["shape"] if base else gen_shape(r, max_elems=90, max_len=9)
    nd = len(shape)
    d, di = (base["data8"], base["data8_im"]) if base else gen_data(r, shape, dtype)
    k = r.choice([nd, r.randint(1, nd)])
    axes = sorted(r.sample(range(nd), k))
    cw = []
    for a in axes:
        n = shape[a]
        b = r.choice([0, 0, 1, 2, r.randint(0, n), -1, -2, n + 1])
        e = r.choice([0, 0, -1, -2, n, n - 1, r.randint(0, n), n + 2, -n - 1])
        cw.append([b, e])
    case = {"kind": "crop", "dtype": dtype, "shape": shape, "data8": d, "data8_im": di, "axes": axes, "cw": cw,
            "axes_none": k == nd and r.random() < 0.5, "cls": base["cls"] if base else gen_cls(r, nd)}
    if not case["axes_none"]:
        neg = gen_axes_neg(r, k)
        if neg:
            case["axes_neg"] = neg
    return case


def crop_impl(case):
    ds = dataset_of(case)
    out = ds.crop(tuple(tuple(c) for c in case["cw"]), None if case["axes_none"] else tuple(passed_axes(case)))
    return np.asarray(out.array)


def check_padcrop(ctx: Ctx):
    r = ctx.rng
    cases = [dict(c) for c in _corpus().get("pad", [])]
    lr = layout_rng(ctx)
    for _ in range(ctx.budget(80, 1800)):
        cases.append(dict(gen_pad_case(r)))
        cases[-1]["layout"] = gen_layout(lr, len(cases[-1]["shape"]))
    obs_all, exprs, owners, failed = [], [], [], {}
    for ci in range(len(cases)):
        case, obs = layout_guard(ctx, "pad", pad_impl, cases[ci])
        cases[ci] = case
        obs_all.append(obs)
        bad = pad_oracle(case, obs)
        # the fill of the non-constant np.pad modes is outside the property: only the round trips are compared there
        bad += layout_compare(case, obs, pad_impl, "pad",
                              (("padded",) if pad_fill8(case, "re") is not None else ()) + tuple(
                                  f for f in ("rt_rel", "rt_abs", "rt_axes") if f in obs))
        failed[ci] = bool(bad)
        for key, what in bad:
            ctx.violation(key, what + layout_note(case), dict(case))
        layout_dist(ctx, "pad", case)
        w = pad_widths_text(case)
        ctx.dist("pad/mode=%s" % case["mode"])
        ctx.dist("pad/np.pad-mode=%s" % (case.get("pad_kw") or "default"))
        ctx.dist("pad/class=%s" % (case.get("cls") or "Dataset"))
        ctx.dist("pad/dtype=%s" % case["dtype"])
        ctx.dist("pad/ndim=%d" % len(case["shape"]))
        ctx.dist("pad/widths=%s" % ("asymmetric" if any(b != a for b, a in w) else "symmetric"))
        ctx.count(("pad", json.dumps(case, sort_keys=True)), nontrivial=any(b or a for b, a in w))
        for part in (["re", "im"] if case["data8_im"] is not None else ["re"]):
            exprs.append(pad_expr(case, part))
            owners.append((ci, part))
    vals = coq_vals(ctx, "pad", PRE_Q, exprs, 10 if ctx.quick else 40)
    nd = 0
    for (ci, part), v in zip(owners, vals):
        ctx.cov["traces_validated_against_impl"] += 1
        for key, what in pad_correspond(cases[ci], obs_all[ci], v, part):
            nd += 1
            ctx.cov["disagreements_checked"] += 1
            ctx.violation(key, "model and implementation disagree on Dataset.pad / crop: " + what + layout_note(cases[ci]),
                          dict(cases[ci]), found_input=failed[ci])
    # general crops: correspondence of the slicing model only (the property speaks of crop only through the
    # pad round trip)
    ccases = [dict(gen_crop_case(r)) for _ in range(ctx.budget(40, 800))]
    cexprs, cown, cobs = [], [], []
    for ci in range(len(ccases)):
        ccases[ci]["layout"] = gen_layout(lr, len(ccases[ci]["shape"]))
        case, got = layout_guard(ctx, "crop", crop_impl, ccases[ci])
        ccases[ci] = case
        cobs.append(got)
        layout_dist(ctx, "crop", case)
        # a crop is a selection of pixels: the same pixels whatever the layout of the array they are selected from
        for key, what in layout_compare(case, {"array": cobs[ci]}, lambda c: {"array": crop_impl(c)}, "crop", ("array",)):
            ctx.violation(key, what, dict(case))
        ctx.dist("crop/general")
        ctx.count(("crop", json.dumps(case, sort_keys=True)), nontrivial=True)
        for part in (["re", "im"] if case["data8_im"] is not None else ["re"]):
            specs = "[" + "; ".join("(%d, (%d, %d))" % (a, c[0], c[1]) for a, c in zip(case["axes"], case["cw"])) + "]%Z"
            cexprs.append("crop_case %s %s %s" % (specs, zlist(case["shape"]),
                                                  zlist(case["data8"] if part == "re" else case["data8_im"])))
            cown.append((ci, part))
    cvals = coq_vals(ctx, "crop", PRE_Q, cexprs, 25)
    for (ci, part), v in zip(cown, cvals):
        ctx.cov["traces_validated_against_impl"] += 1
        if not ti_equal(cobs[ci], v, part):
            nd += 1
            ctx.cov["disagreements_checked"] += 1
            ctx.violation("crop-correspondence", "model and implementation disagree on Dataset.crop(%s, axes=%s) of shape %s: "
                          "implementation shape %s, model shape %s%s" % (ccases[ci]["cw"], ccases[ci]["axes"], ccases[ci]["shape"],
                                                                         list(cobs[ci].shape), [int(t) for t in v[0]],
                                                                         layout_note(ccases[ci])),
                          dict(ccases[ci]), found_input=False)
    c0 = cases[min(2, len(cases) - 1)]
    ctx.sample({"kind": "pad", "case": {k: c0.get(k) for k in ("dtype", "shape", "mode", "out", "pw")},
                "pad_widths": pad_widths_text(c0), "padded_shape": list(obs_all[min(2, len(cases) - 1)]["padded"].shape)})
    ctx.log("pad/crop: %d pad cases, %d crop cases, %d disagreements" % (len(cases), len(ccases), nd))


# ------------------------------------------------------------------------------------------
# FOURIER RESAMPLE

def interp_matrix(n: int, m: int) -> np.ndarray:
    """the property text as one matrix: keep the signed frequencies common to both grids
    (-(k//2) .. k-k//2-1, numpy convention), evaluate the trigonometric polynomial on the new
    grid; the 1/n makes the mean invariant"""
    qs = [q for q in range(-(m // 2), m - m // 2) if -(n // 2) <= q < n - n // 2]
    Q = np.array(qs, dtype=np.float64)
    A = np.exp(-2j * np.pi * np.outer(Q, np.arange(n)) / n)
    B = np.exp(2j * np.pi * np.outer(np.arange(m), Q) / m)
    return (B @ A) / n


def dft_oracle(a: np.ndarray, axes, outs) -> np.ndarray:
    y = a.astype(np.complex128)
    for ax, m in zip(axes, outs):
        T = interp_matrix(y.shape[ax], m)
        y = np.moveaxis(np.tensordot(T, y, axes=([1], [ax])), 0, ax)
    return y if np.iscomplexobj(a) else y.real


def remove_nyquist(a: np.ndarray, axes) -> np.ndarray:
    """project out the Nyquist-frequency component along every listed even-length axis"""
    y = a.astype(np.complex128 if np.iscomplexobj(a) else np.float64)
    for ax in axes:
        n = y.shape[ax]
        if n % 2 == 0:
            sgn = (-1.0) ** np.arange(n)
            shp = [1] * y.ndim
            shp[ax] = n
            sgn = sgn.reshape(shp)
            comp = np.sum(y * sgn, axis=ax, keepdims=True) / n
            y = y - comp * sgn
    return y.astype(a.dtype)


def gen_rs_case(r, sub=None, base=None):
    sub = sub or r.choice(["out", "out", "out", "factors"])
    dtype = base["dtype"] if base else r.choice(ALL_DTYPES)
    shape = base["shape"] if base else gen_shape(r, ndim=r.choice([1, 1, 2, 2, 2, 3, 3, 4]), max_elems=100, max_len=11)
    nd = len(shape)
    d, di = (base["data8"], base["data8_im"]) if base else gen_data(r, shape, dtype)
    k = r.choice([nd, nd, r.randint(1, nd)])
    axes = sorted(r.sample(range(nd), k))
    if r.random() < 0.25:
        r.shuffle(axes)
    o8, s8 = (base["origin8"], base["sampling8"]) if base else gen_meta(r, nd)
    case = {"kind": "rs", "sub": sub, "dtype": dtype, "shape": shape, "data8": d, "data8_im": di, "axes": axes,
            "axes_none": k == nd and axes == list(range(nd)) and r.random() < 0.5,
            "origin8": o8, "sampling8": s8, "inplace": r.random() < 0.2, "cls": base["cls"] if base else gen_cls(r, nd)}
    if not case["axes_none"]:
        neg = gen_axes_neg(r, k)
        if neg:
            case["axes_neg"] = neg
            if k == 1 and r.random() < 0.5:
                case["axes_scalar"] = True            # axes=-1 rather than axes=(-1,)
    if sub == "factors":
        fs = [r.choice([0.5, 1.5, 2.0, 0.3, 1.25, 0.1, 0.75, 2.5, 1.0, 0.9, 1.1, 1 / 3, 0.6]) for _ in axes]
        if r.random() < 0.3:
            fs = [fs[0]] * len(axes)
            case["scalar_factor"] = True
        case["factors"] = fs
    else:
        lim = {1: 12, 2: 12, 3: 8, 4: 6}[nd]
        while True:
            case["out"] = [r.choice([max(1, n - 1), n + 1, max(1, n - 2), n + 2, n, r.randint(1, lim), r.randint(1, lim),
                                     min(lim, 2 * n), max(1, n // 2)]) for n in (shape[a] for a in axes)]
            tot = 1
            for ax in range(nd):
                tot *= dict(zip(axes, case["out"])).get(ax, shape[ax])
            if tot <= 260:
                break
    return case


def rs_call(ds, case, a_out=None):
    axes = None if case.get("axes_none") else tuple(passed_axes(case))
    if axes is not None and case.get("axes_scalar"):
        axes = axes[0]
    kw = {}
    if a_out is not None:
        kw["out_shape"] = tuple(a_out)
    elif case["sub"] == "factors":
        kw["factors"] = float(case["factors"][0]) if case.get("scalar_factor") else tuple(case["factors"])
    else:
        kw["out_shape"] = tuple(case["out"])
    if case.get("inplace"):
        ds.fourier_resample(axes=axes, modify_in_place=True, **kw)
        return ds
    return ds.fourier_resample(axes=axes, **kw)


def rs_impl(case, a=None, out=None):
    ds = dataset_of(case, a)
    o = rs_call(ds, case, out)
    return {"array": np.asarray(o.array).copy(), "origin": np.asarray(o.origin, dtype=np.float64).tolist(),
            "sampling": np.asarray(o.sampling, dtype=np.float64).tolist()}


def py_out_len(n, f):
    return max(1, int(round(n * float(f))))


def rs_outs(case):
    if case["sub"] == "factors":
        return [py_out_len(case["shape"][a], f) for a, f in zip(case["axes"], case["factors"])]
    return list(case["out"])


def rs_oracle(case, obs):
    bad = []
    a = make_array(case)
    nd = a.ndim
    axes, outs = case["axes"], rs_outs(case)
    a2m = dict(zip(axes, outs))
    want_shape = tuple(a2m.get(ax, a.shape[ax]) for ax in range(nd))
    arr = obs["array"]
    tol = tol_of(case["dtype"])
    if tuple(arr.shape) != want_shape:
        bad.append(("resample-shape", "fourier_resample(%s, axes=%s) of shape %s gives shape %s, expected %s"
                    % (_rs_args(case), passed_axes(case), list(a.shape), list(arr.shape), list(want_shape))))
        return bad
    scale = max(1.0, float(np.max(np.abs(a))))
    want = dft_oracle(a, axes, outs)
    ok, e = close_arr(arr, want, tol, scale)
    if not ok:
        i = _first_diff(arr, want, tol * scale)
        bad.append(("resample-vs-dft-oracle", "fourier_resample(%s, axes=%s) of a %s %s array differs from band-limited "
                    "interpolation (signed-frequency DFT oracle): relative error %.3g at %s: got %s, expected %s"
                    % (_rs_args(case), axes, list(a.shape), case["dtype"], e, i, _at(arr, i), _at(want, i))))
    m_in, m_out = complex(np.mean(a.astype(np.complex128))), complex(np.mean(arr.astype(np.complex128)))
    if not abs(m_in - m_out) <= tol * scale:
        bad.append(("resample-mean", "fourier_resample(%s, axes=%s) of a %s %s array changes the mean: %s -> %s"
                    % (_rs_args(case), axes, list(a.shape), case["dtype"], m_in, m_out)))
    if list(want_shape) == list(a.shape):
        ok, e = close_arr(arr, a, tol, scale)
        if not ok:
            bad.append(("resample-identity", "fourier_resample to the unchanged shape %s is not the identity (relative "
                        "error %.3g)" % (list(a.shape), e)))
    o = [frac8(v) for v in case["origin8"]]
    s = [frac8(v) for v in case["sampling8"]]
    for ax in range(nd):
        no, ns = Fraction(obs["origin"][ax]), Fraction(obs["sampling"][ax])
        if ax not in a2m:
            if no != o[ax] or ns != s[ax]:
                bad.append(("resample-untouched-axis-calibration", "axis %d is not resampled but its origin/sampling changed: "
                            "(%s, %s) -> (%s, %s)" % (ax, o[ax], s[ax], no, ns)))
            continue
        n, m = a.shape[ax], a2m[ax]
        ext_in, ext_out = n * s[ax], m * ns
        if abs(ext_out - ext_in) > Fraction(1, 10 ** 12) * abs(ext_in):
            bad.append(("resample-extent", "axis %d, %d -> %d samples: field of view %s -> %s (sampling %s -> %s)"
                        % (ax, n, m, float(ext_in), float(ext_out), float(s[ax]), float(ns))))
        c_in = o[ax] + Fraction(n - 1, 2) * s[ax]
        c_out = no + Fraction(m - 1, 2) * ns
        mag = abs(o[ax]) + abs(ext_in) + 1
        if abs(c_out - c_in) > Fraction(1, 10 ** 12) * mag:
            bad.append(("resample-centre", "axis %d, %d -> %d samples: physical centre %s -> %s (origin %s -> %s)"
                        % (ax, n, m, float(c_in), float(c_out), float(o[ax]), float(no))))
    return bad


def _rs_args(case):
    return ("factors=%s" % case["factors"]) if case["sub"] == "factors" else ("out_shape=%s" % case["out"])


def cf_list(a: np.ndarray) -> str:
    v = np.asarray(a).astype(np.complex128).reshape(-1)
    return "[" + "; ".join("(%s, %s)" % (cfloat(float(z.real)), cfloat(float(z.imag))) for z in v) + "]"


def twiddle_tabs(sizes) -> str:
    items = []
    for N in sorted(set(int(s) for s in sizes)):
        w = np.exp(-2j * np.pi * np.arange(N) / N)
        items.append("(%d%%Z, %s)" % (N, cf_list(w)))
    return "[" + "; ".join(items) + "]"


def rs_expr(case, obs):
    a = make_array(case)
    outs = rs_outs(case)
    sizes = [a.shape[ax] for ax in case["axes"]] + outs
    ams = zpairs(zip(case["axes"], outs))
    return "rs_case %s %s %s %s %s %s" % (twiddle_tabs(sizes), ams, "false" if np.iscomplexobj(a) else "true",
                                          zlist(a.shape), cf_list(a), cf_list(obs["array"]))


def rs_correspond(case, obs, v, key="resample-correspondence", which="float model"):
    sh, err, mx, head = v
    a = make_array(case)
    if [int(t) for t in sh] != list(obs["array"].shape):
        return [(key, "shape: implementation %s, %s %s" % (list(obs["array"].shape), which, sh))]
    e = float_of_zz(err)
    scale = max(1.0, float(np.max(np.abs(a))))
    if not e <= tol_of(case["dtype"]) * scale:
        return [(key, "data: max |implementation - %s| = %.3g (scale %.3g, tolerance %.1e relative)"
                 % (which, e, scale, tol_of(case["dtype"])))]
    return []


def rsmeta_expr(case):
    outs = rs_outs(case)
    anm = "[" + "; ".join("(%d, (%d, %d))" % (a, case["shape"][a], m) for a, m in zip(case["axes"], outs)) + "]%Z"
    return "rsmeta_case %s %s %s" % (anm, qpairs([frac8(v) for v in case["origin8"]]),
                                     qpairs([frac8(v) for v in case["sampling8"]]))


def rsmeta_correspond(case, obs, v):
    mo, ms = v
    for ax, (po, ps) in enumerate(zip(mo, ms)):
        wo, ws = fr_of_pair(po), fr_of_pair(ps)
        go, gs = Fraction(obs["origin"][ax]), Fraction(obs["sampling"][ax])
        mag = abs(wo) + abs(ws) * (max(case["shape"]) + 12) + abs(frac8(case["origin8"][ax])) + 1
        if abs(gs - ws) > Fraction(1, 10 ** 13) * abs(ws) or abs(go - wo) > Fraction(1, 10 ** 13) * mag:
            return [("resample-meta-correspondence", "axis %d: implementation (origin %r, sampling %r), exact model (%s, %s)"
                     % (ax, obs["origin"][ax], obs["sampling"][ax], wo, ws))]
    return []


def check_resample(ctx: Ctx):
    r = ctx.rng
    cases = [dict(c) for c in _corpus().get("rs", [])]
    lr = layout_rng(ctx)
    for _ in range(ctx.budget(85, 1500)):
        cases.append(dict(gen_rs_case(r)))
        cases[-1]["layout"] = gen_layout(lr, len(cases[-1]["shape"]))
    obs_all, exprs, mexprs, failed = [], [], [], {}
    flist = []
    for ci in range(len(cases)):
        case, obs = layout_guard(ctx, "resample", rs_impl, cases[ci])
        cases[ci] = case
        obs_all.append(obs)
        bad = rs_oracle(case, obs)
        bad += layout_compare(case, obs, rs_impl, "resample", ("array", "origin", "sampling"), tol_of(case["dtype"]))
        failed[ci] = bool(bad)
        for key, what in bad:
            ctx.violation(key, what + layout_note(case), dict(case))
        layout_dist(ctx, "resample", case)
        outs = rs_outs(case)
        ns = [case["shape"][a] for a in case["axes"]]
        ctx.dist("resample/dtype=%s" % case["dtype"])
        ctx.dist("resample/class=%s" % (case.get("cls") or "Dataset"))
        ctx.dist("resample/axes-named=%s" % ("negative" if case.get("axes_neg") else "non-negative"))
        ctx.dist("resample/ndim=%d" % len(case["shape"]))
        ctx.dist("resample/axes=%s" % ("all" if len(ns) == len(case["shape"]) else "subset"))
        ctx.dist("resample/spec=%s" % case["sub"])
        for n, m in zip(ns, outs):
            ctx.dist("resample/axis=%s,%s->%s" % ("up" if m > n else "down" if m < n else "same",
                                                  "even" if n % 2 == 0 else "odd", "even" if m % 2 == 0 else "odd"))
        ctx.count(("rs", json.dumps(case, sort_keys=True)), nontrivial=outs != ns and obs["array"].size > 1)
        exprs.append(rs_expr(case, obs))
        mexprs.append(rsmeta_expr(case))
        if case["sub"] == "factors":
            for k, (a, f) in enumerate(zip(case["axes"], case["factors"])):
                flist.append((ci, case["shape"][a], float(f), int(obs["array"].shape[a]) if a < obs["array"].ndim else -1))
    vals = coq_vals(ctx, "rs", PRE_F, exprs, 8)
    mvals = coq_vals(ctx, "rsmeta", PRE_Q, mexprs, 40)
    nd = 0
    # the STAGE-WISE model (fftn, fftshift, crop/pad, ifftshift, ifftn over all axes at once, one scale: pipeline_nd,
    # equal to the axis-after-axis model by C06_resample_nd_separable) on the cases with several resampled axes
    multi = [ci for ci, c in enumerate(cases) if len(c["axes"]) >= 2][: (30 if ctx.quick else 400)]
    pvals = coq_vals(ctx, "rsnd", PRE_F, [exprs[ci].replace("rs_case ", "ps_case ", 1) for ci in multi], 8) if multi else []
    for ci, v in zip(multi, pvals):
        ctx.cov["traces_validated_against_impl"] += 1
        ctx.dist("resample/stage-wise-model")
        for key, what in rs_correspond(cases[ci], obs_all[ci], v, "resample-stagewise-correspondence", "stage-wise float model"):
            nd += 1
            ctx.cov["disagreements_checked"] += 1
            ctx.violation(key, "stage-wise N-D model and implementation disagree on Dataset.fourier_resample: " + what
                          + layout_note(cases[ci]), dict(cases[ci]), found_input=failed[ci])
    for ci, (case, obs, v, mv) in enumerate(zip(cases, obs_all, vals, mvals)):
        ctx.cov["traces_validated_against_impl"] += 2
        for key, what in rs_correspond(case, obs, v) + rsmeta_correspond(case, obs, mv):
            nd += 1
            ctx.cov["disagreements_checked"] += 1
            ctx.violation(key, "model and implementation disagree on Dataset.fourier_resample (the resampling theorems no "
                          "longer speak about this code): " + what + layout_note(case), dict(case), found_input=failed[ci])
    # out_shape from factors: max(1, int(round(n * f))) vs the binary64 / round-half-even model
    if flist:
        ex = ["outlen_case [%s]" % "; ".join("(%d%%Z, %s)" % (n, cfloat(f)) for _, n, f, _ in flist)]
        got = coq_vals(ctx, "outlen", PRE_Q, ex, 1)[0]
        for (ci, n, f, im), g in zip(flist, got):
            gm = None if g is None else int(g[1])
            ctx.cov["traces_validated_against_impl"] += 1
            if gm != im:
                nd += 1
                ctx.violation("resample-outlen-correspondence", "factor %r on an axis of length %d: implementation output "
                              "length %d, model %s" % (f, n, im, gm), dict(cases[ci]), found_input=failed[ci])
    # which source bin feeds which destination bin (symbolic run of the crop / pad), vs the signed-frequency rule
    pairs = sorted({(n, m) for n in range(1, 13) for m in range(1, 13)}) if not ctx.quick else \
        sorted({(r.randint(1, 12), r.randint(1, 12)) for _ in range(30)})
    sv = coq_vals(ctx, "src", PRE_F, ["src_case %s" % zpairs(pairs)], 1)[0]
    for (n, m), bins in zip(pairs, sv):
        want = []
        for k in range(m):
            q = k if k < m - m // 2 else k - m
            want.append(q % n if -(n // 2) <= q < n - n // 2 else -1)
        ctx.count(("src", n, m), nontrivial=n != m)
        if [int(b) for b in bins] != want:
            nd += 1
            ctx.violation("resample-bins-model-internal", "symbolic crop/pad %d -> %d: model bins %s, signed-frequency rule %s"
                          % (n, m, bins, want), {"kind": "src", "n": n, "m": m}, found_input=False)
    mid = len(cases) // 2
    ctx.sample({"kind": "rs", "case": {k: cases[mid].get(k) for k in ("dtype", "shape", "axes", "out", "factors")},
                "impl_shape": list(obs_all[mid]["array"].shape), "impl_origin": obs_all[mid]["origin"],
                "impl_sampling": obs_all[mid]["sampling"],
                "model_max_abs_err": float_of_zz(vals[mid][1])})
    worst = max([float_of_zz(v[1]) / max(1.0, float(np.max(np.abs(make_array(c))))) for c, v in zip(cases, vals)
                 if c["dtype"] not in ("float32", "complex64")] or [0.0])
    worst32 = max([float_of_zz(v[1]) / max(1.0, float(np.max(np.abs(make_array(c))))) for c, v in zip(cases, vals)
                   if c["dtype"] in ("float32", "complex64")] or [0.0])
    ctx.cov["resample_model_vs_impl_worst_rel_err"] = {"double": worst, "single": worst32}
    ctx.log("resample: %d cases, %d disagreements; worst relative |impl - float model| %.2e (double) %.2e (single)"
            % (len(cases), nd, worst, worst32))


# ---- linearity and the band-limited round trip (oracle only: two / three calls per case)

def gen_lin_case(r):
    dtype = r.choice(["int32", "int64", "uint16", "float32", "float64", "complex64", "complex128"])
    case = gen_rs_case(r, sub="out")
    case["dtype"] = dtype
    d, di = gen_data(r, case["shape"], dtype)
    e, ei = gen_data(r, case["shape"], dtype)
    case.update({"kind": "lin", "data8": d, "data8_im": di, "y8": e, "y8_im": ei, "inplace": False})
    if dtype in INT_DTYPES:
        case["ab"] = [[r.randint(1, 3), 0], [r.randint(1, 3), 0]]
    elif dtype in FLOAT_DTYPES:
        case["ab"] = [[r.randint(-16, 24), 0], [r.randint(-16, 24), 0]]        # eighths
    else:
        case["ab"] = [[r.randint(-16, 24), r.randint(-16, 16)], [r.randint(-16, 24), r.randint(-16, 16)]]
    return case


def lin_run(case):
    x = make_array(case)
    y = make_array({**case, "data8": case["y8"], "data8_im": case["y8_im"]})
    if case["dtype"] in INT_DTYPES:
        al, be = case["ab"][0][0], case["ab"][1][0]
    else:
        al = complex(case["ab"][0][0], case["ab"][0][1]) / 8.0
        be = complex(case["ab"][1][0], case["ab"][1][1]) / 8.0
        if case["dtype"] in FLOAT_DTYPES:
            al, be = al.real, be.real
    z = (al * x.astype(np.complex128) + be * y.astype(np.complex128))
    z = (z if np.iscomplexobj(x) else z.real).astype(x.dtype)
    rx, ry, rz = (rs_impl(case, t)["array"] for t in (x, y, z))
    want = al * rx.astype(np.complex128) + be * ry.astype(np.complex128)
    scale = max(1.0, float(np.max(np.abs(z))), float(np.max(np.abs(x))) * abs(al), float(np.max(np.abs(y))) * abs(be))
    ok, e = close_arr(rz, want, 4 * tol_of(case["dtype"]), scale)
    if ok:
        return []
    return [("resample-linear", "fourier_resample(out_shape=%s, axes=%s) of %s %s arrays: R(a x + b y) differs from "
             "a R(x) + b R(y) with a=%s b=%s by %.3g (relative)" % (case["out"], case["axes"], case["shape"], case["dtype"],
                                                                     al, be, e))]


def gen_updown_case(r):
    dtype = r.choice(FLOAT_DTYPES + CPLX_DTYPES + ["float64", "complex128"])
    case = gen_rs_case(r, sub="out")
    case["dtype"] = dtype
    d, di = gen_data(r, case["shape"], dtype)
    lim = {1: 14, 2: 12, 3: 9, 4: 7}[len(case["shape"])]
    case.update({"kind": "updown", "data8": d, "data8_im": di, "inplace": False,
                 "out": [r.choice([n, n + 1, n + 2, n + 3, 2 * n, min(lim + n, 2 * n + 1)]) for n in
                         (case["shape"][a] for a in case["axes"])]})
    return case


def updown_run(case):
    a = remove_nyquist(make_array(case), case["axes"])
    up = rs_impl(case, a)["array"]
    back = rs_impl(case, up, out=[case["shape"][ax] for ax in case["axes"]])["array"]
    scale = max(1.0, float(np.max(np.abs(a))))
    ok, e = close_arr(back, a, 8 * tol_of(case["dtype"]), scale)
    bad = []
    if not ok:
        i = _first_diff(back, a, 8 * tol_of(case["dtype"]) * scale)
        bad.append(("resample-updown", "a %s %s signal without Nyquist content, up-sampled %s -> %s on axes %s and "
                    "down-sampled back, is not returned: relative error %.3g at %s: got %s, original %s"
                    % (case["dtype"], case["shape"], [case["shape"][ax] for ax in case["axes"]], case["out"], case["axes"],
                       e, i, _at(back, i), _at(a, i))))
    return bad


def check_resample_laws(ctx: Ctx):
    r = ctx.rng
    n1 = n2 = 0
    lr = layout_rng(ctx)
    for case in [dict(c) for c in _corpus().get("lin", [])] + [
            dict(gen_lin_case(r), new=True) for _ in range(ctx.budget(35, 700))]:
        if case.pop("new", False):
            case["layout"] = gen_layout(lr, len(case["shape"]))
        layout_dist(ctx, "linear", case)
        n1 += 1
        ctx.dist("linear/dtype=%s" % case["dtype"])
        ctx.count(("lin", json.dumps(case, sort_keys=True)), nontrivial=case["out"] != [case["shape"][a] for a in case["axes"]])
        for key, what in lin_run(case):
            ctx.violation(key, what + layout_note(case), dict(case))
    for case in [dict(c) for c in _corpus().get("updown", [])] + [
            dict(gen_updown_case(r), new=True) for _ in range(ctx.budget(45, 900))]:
        if case.pop("new", False):
            case["layout"] = gen_layout(lr, len(case["shape"]))
        layout_dist(ctx, "updown", case)
        n2 += 1
        ns = [case["shape"][a] for a in case["axes"]]
        ctx.dist("updown/dtype=%s" % case["dtype"])
        for n, m in zip(ns, case["out"]):
            ctx.dist("updown/axis=%s->%s" % ("even" if n % 2 == 0 else "odd", "even" if m % 2 == 0 else "odd"))
        ctx.count(("updown", json.dumps(case, sort_keys=True)), nontrivial=case["out"] != ns)
        for key, what in updown_run(case):
            ctx.violation(key, what + layout_note(case), dict(case))
    ctx.log("resample laws: %d linearity cases, %d up/down round trips" % (n1, n2))


# ------------------------------------------------------------------------------------------
# SEQUENCES: several operations on the SAME source dataset, one after the other

SRC_KEYS = ("dtype", "shape", "data8", "data8_im", "origin8", "sampling8", "cls", "calib", "layout")
OP_GEN = {"bin": lambda r, b: gen_bin_case(r, True, base=b), "rs": lambda r, b: gen_rs_case(r, base=b),
          "pad": lambda r, b: gen_pad_case(r, base=b), "crop": lambda r, b: gen_crop_case(r, base=b)}


def gen_seq_case(r):
    """one source (any dtype / shape / class, calibration handed to from_array in one of the CALIB_FORMS) and 2..4
    operations CALLED ON THAT SOURCE one after the other; all of them return a new dataset, except that a quarter of
    the sequences end with an in-place call; the last operation is a bin or a resample (the two whose clauses speak
    about the calibration), so that anything an earlier call did to the source has a consequence the property covers"""
    dtype = r.choice(ALL_DTYPES)
    shape = gen_shape(r, max_elems=90, max_len=9)
    nd = len(shape)
    d, di = gen_data(r, shape, dtype)
    form, o8, s8 = gen_calib(r, nd)
    src = {"kind": "seq", "dtype": dtype, "shape": shape, "data8": d, "data8_im": di, "origin8": o8, "sampling8": s8,
           "cls": gen_cls(r, nd), "calib": form}
    n = r.choice([2, 2, 3, 3, 4])
    ops = []
    for k in range(n):
        kind = r.choice(["bin", "rs"] if k == n - 1 else ["bin", "bin", "bin", "rs", "rs", "pad", "crop"])
        op = OP_GEN[kind](r, src)
        op = {key: v for key, v in op.items() if key not in SRC_KEYS}
        op["inplace"] = bool(k == n - 1 and r.random() < 0.25)
        ops.append(op)
    src["ops"] = ops
    return src


def seq_opcase(case, k):
    """operation k as a stand-alone case ON THE ORIGINAL SOURCE: what the oracles and the model judge it against"""
    return dict({key: case.get(key) for key in SRC_KEYS}, **case["ops"][k])


def _meta_of(ds):
    return (np.asarray(ds.origin, dtype=np.float64).tolist(), np.asarray(ds.sampling, dtype=np.float64).tolist())


def seq_run(case):
    """-> one entry per operation: {"op": stand-alone case, "obs": observation of the result (as the single-call
    checks take it), "src": array / origin / sampling of the SOURCE re-read after the call (None after an in-place call)}"""
    ds = dataset_of(case)
    steps = []
    for k in range(len(case["ops"])):
        opc = seq_opcase(case, k)
        kind = opc["kind"]
        try:
            if kind == "bin":
                out = bin_call(ds, opc)
                o, s = _meta_of(out)
                obs = {"array": np.asarray(out.array).copy(), "origin": o, "sampling": s}
            elif kind == "rs":
                out = rs_call(ds, opc)
                o, s = _meta_of(out)
                obs = {"array": np.asarray(out.array).copy(), "origin": o, "sampling": s}
            elif kind == "pad":
                obs = pad_run(ds, opc)
            else:
                out = ds.crop(tuple(tuple(c) for c in opc["cw"]), None if opc["axes_none"] else tuple(passed_axes(opc)))
                obs = {"array": np.asarray(out.array).copy()}
        except Exception as e:  # noqa  (the same call is valid as the first call on a fresh dataset)
            obs = {"raises": "%s: %s" % (type(e).__name__, e)}
        src = None
        if not opc.get("inplace"):
            o, s = _meta_of(ds)
            src = {"array": np.asarray(ds.array).copy(), "origin": o, "sampling": s}
        steps.append({"op": opc, "obs": obs, "src": src})
    return steps


def _op_text(opc):
    k = opc["kind"]
    ip = ", modify_in_place=True" if opc.get("inplace") else ""
    if k == "bin":
        return "bin(%s, axes=%s, reducer=%r%s)" % (opc["factors"], None if opc["form"].startswith("none") else passed_axes(opc),
                                                   opc["reducer"], ip)
    if k == "rs":
        return "fourier_resample(%s, axes=%s%s)" % (_rs_args(opc), None if opc.get("axes_none") else passed_axes(opc), ip)
    if k == "pad":
        return "pad(%s%s)" % (dict({"output_shape": opc["out"]} if opc["mode"] == "shape" else {"pad_width": opc["pw"]},
                                   **pad_kwargs(opc)), ip)
    return "crop(%s, axes=%s)" % (opc["cw"], None if opc["axes_none"] else passed_axes(opc))


def seq_history(case, k):
    calib = {"default": "from_array defaults", "float-list": "python floats", "float-array": "a float64 ndarray",
             "float32-array": "a float32 ndarray", "scalar": "one float for all axes", "int-tuple": "python ints",
             "int-array": "an int64 ndarray", "mixed": "int origin, float sampling"}[case.get("calib") or "float-list"]
    pre = ["ds.%s" % _op_text(seq_opcase(case, j)) for j in range(k)]
    return ("%s of shape %s %s%s, origin %s sampling %s (%s); %scall %d of %d on this source: ds.%s"
            % (case.get("cls") or "Dataset", case["shape"], case["dtype"],
               (" built from " + layout_text(case["layout"])) if case.get("layout") else "",
               [str(frac8(v)) for v in case["origin8"]], [str(frac8(v)) for v in case["sampling8"]], calib,
               ("after " + ", then ".join(pre) + " (all returning new datasets) - ") if pre else "", k + 1, len(case["ops"]),
               _op_text(seq_opcase(case, k))))


def seq_layout_compare(case, steps):
    """the same calls on the same source built from np.ascontiguousarray of its array: every result must be the same
    (exact for bin / pad / crop, the resampling tolerance for fourier_resample).  -> [(key, what, step)]"""
    if not case.get("layout"):
        return []
    ref = seq_run(dict(case, layout=None))
    bad = []
    scale = max(1.0, float(np.max(np.abs(make_array(case)))) if make_array(case).size else 1.0)
    for k, (st, rt) in enumerate(zip(steps, ref)):
        opc, obs, robs = st["op"], st["obs"], rt["obs"]
        name = {"bin": "bin", "rs": "resample", "pad": "pad", "crop": "crop"}[opc["kind"]]
        if ("raises" in obs) != ("raises" in robs):
            same, where = False, None
            f = "outcome (%s vs %s)" % (obs.get("raises", "a result"), robs.get("raises", "a result"))
        elif "raises" in obs:
            continue
        else:
            rel = tol_of(opc["dtype"]) if opc["kind"] == "rs" else 2.0 ** -20 if opc.get("reducer") == "mean" else 0.0
            same, where, f = True, None, None
            for f in ("array", "rt_rel", "rt_abs", "rt_axes", "origin", "sampling"):
                if f not in obs:
                    continue
                if f in ("origin", "sampling"):
                    same, where = list(obs[f]) == list(robs[f]), None
                else:
                    same, where = same_values(obs[f], robs[f], rel, scale)
                if not same:
                    break
        if not same:
            bad.append(("%s-depends-on-memory-layout" % name, "%s: the %s differs from that of the same calls on the same "
                        "source built from np.ascontiguousarray of its array%s" % (
                            seq_history(case, k), f, "" if where is None else " (first difference at %s)" % (where,)), k))
    return bad


def seq_oracle(case, steps):
    """every result judged by the single-call oracle of its operation against the ORIGINAL data and calibration of
    the source; the source re-read after every copying call: the clauses relate the result to the source dataset
    (sampling' = f * sampling, block / field-of-view centre preserved, crop(pad(x)) = x), and after the call the
    source dataset is what its attributes say then.  -> [(key, what, step)]"""
    bad = []
    a0 = make_array(case)
    o0 = [frac8(v) for v in case["origin8"]]
    s0 = [frac8(v) for v in case["sampling8"]]
    before = {"array": a0, "origin": o0, "sampling": s0}          # the source as it read before the current call
    for k, st in enumerate(steps):
        opc, obs, src = st["op"], st["obs"], st["src"]
        kind = opc["kind"]
        name = {"bin": "bin", "rs": "resample", "pad": "pad", "crop": "crop"}[kind]
        hist = seq_history(case, k)
        sfx = "-after-earlier-call" if k else ""
        if "raises" in obs:
            bad.append(("%s-raises%s" % (name, sfx), "%s raises %s" % (hist, obs["raises"]), k))
            continue
        if kind == "bin":
            found = bin_oracle(opc, obs)
        elif kind == "rs":
            found = rs_oracle(opc, obs)
        elif kind == "pad":
            found = pad_oracle(opc, obs)
        else:
            found = []
        for key, what in found:
            bad.append((key + sfx, "%s: %s" % (hist, what), k))
        if src is None:
            continue
        so, ss = [Fraction(x) for x in src["origin"]], [Fraction(x) for x in src["sampling"]]
        was, before = before, {"array": src["array"], "origin": so, "sampling": ss}
        if src["array"].dtype != was["array"].dtype or not exact_eq(src["array"], was["array"]):
            bad.append(("%s-source-data-after-call" % name, "%s returned a new dataset, but the data of the source differ "
                        "afterwards (shape %s -> %s, first difference at %s): the result is no longer the %s of the source"
                        % (hist, list(was["array"].shape), list(src["array"].shape), _first_diff(src["array"], was["array"]),
                           {"bin": "block sums", "rs": "resampling", "pad": "padding", "crop": "crop"}[kind]), k))
        if kind in ("bin", "rs") and (so != was["origin"] or ss != was["sampling"]):
            # the calibration clauses with the source as it reads after the call
            if kind == "bin":
                law = "sampling of the result %s is not factor x sampling of the source" % (obs["sampling"],)
            else:
                law = "centre / extent of the result (origin %s sampling %s) are not those of the source" % (
                    obs["origin"], obs["sampling"])
            bad.append(("%s-source-calibration-after-call" % name, "%s returned a new dataset, and the source now reads "
                        "origin %s sampling %s (was %s / %s): %s as it reads now, although its pixels have not moved"
                        % (hist, src["origin"], src["sampling"], [float(x) for x in was["origin"]], [float(x) for x in was["sampling"]],
                           law), k))
    return bad


def seq_exprs(case, steps):
    """model evaluations of every step: the model is a pure function of the ORIGINAL source (a source has no state in
    the model), so the k-th call on a source must give what the model gives for that call alone.  -> [(step, tag, expr)]"""
    out = []
    for k, st in enumerate(steps):
        opc = st["op"]
        if "raises" in st["obs"]:
            continue
        parts = ["re", "im"] if opc["data8_im"] is not None else ["re"]
        if opc["kind"] == "bin":
            out += [(k, "bin-" + p, bin_expr(opc, p)) for p in parts]
        elif opc["kind"] == "rs":
            out.append((k, "rsmeta", rsmeta_expr(opc)))
        elif opc["kind"] == "pad":
            out += [(k, "pad-" + p, pad_expr(opc, p)) for p in parts]
        else:
            specs = "[" + "; ".join("(%d, (%d, %d))" % (a, c[0], c[1]) for a, c in zip(opc["axes"], opc["cw"])) + "]%Z"
            out += [(k, "crop-" + p, "crop_case %s %s %s" % (specs, zlist(opc["shape"]),
                                                             zlist(opc["data8"] if p == "re" else opc["data8_im"])))
                    for p in parts]
    return out


def seq_correspond(case, steps, tagged):
    """tagged: [(step, tag, parsed model value)] -> [(key, what, step)]"""
    bad = []
    by = {}
    for k, tag, v in tagged:
        by.setdefault(k, {})[tag] = v
    for k, vs in sorted(by.items()):
        opc, obs = steps[k]["op"], steps[k]["obs"]
        found = []
        if opc["kind"] == "bin":
            found = bin_correspond(opc, obs, vs["bin-re"], vs.get("bin-im"))
        elif opc["kind"] == "rs":
            if len(vs["rsmeta"][0]) == len(obs["origin"]) and list(obs["array"].shape) == [
                    dict(zip(opc["axes"], rs_outs(opc))).get(ax, n) for ax, n in enumerate(opc["shape"])]:
                found = rsmeta_correspond(opc, obs, vs["rsmeta"])
        elif opc["kind"] == "pad":
            for p in ("re", "im"):
                if "pad-" + p in vs:
                    found += pad_correspond(opc, obs, vs["pad-" + p], p)
        else:
            for p in ("re", "im"):
                if "crop-" + p in vs and not ti_equal(obs["array"], vs["crop-" + p], p):
                    found.append(("crop-correspondence", "crop(%s, axes=%s): implementation shape %s, model shape %s"
                                  % (opc["cw"], opc["axes"], list(obs["array"].shape), [int(t) for t in vs["crop-" + p][0]])))
                    break
        for key, what in found:
            bad.append((key, "%s: %s" % (seq_history(case, k), what), k))
    return bad


def seq_changes_calibration(opc):
    if opc["kind"] == "bin":
        return any(f > 1 for f in opc["factors"])
    if opc["kind"] == "rs":
        return rs_outs(opc) != [opc["shape"][a] for a in opc["axes"]]
    return False


def check_sequences(ctx: Ctx):
    r = ctx.rng
    cases = [dict(c) for c in _corpus().get("seq", [])]
    lr = layout_rng(ctx)
    for _ in range(ctx.budget(80, 1200)):
        cases.append(dict(gen_seq_case(r)))
        cases[-1]["layout"] = gen_layout(lr, len(cases[-1]["shape"]))
    runs, exprs, owners, failed = [], [], [], {}
    nsteps = 0
    for ci, case in enumerate(cases):
        steps = seq_run(case)
        runs.append(steps)
        bad = seq_oracle(case, steps) + seq_layout_compare(case, steps)
        failed[ci] = {k for _, _, k in bad}
        for key, what, k in bad:
            ctx.violation(key, what, dict(case, failed_step=k))
        ops = case["ops"]
        nsteps += len(ops)
        form = case.get("calib") or "float-list"
        layout_dist(ctx, "sequence", case)
        ctx.dist("sequence/length=%d" % len(ops))
        ctx.dist("sequence/calibration=%s" % form)
        ctx.dist("sequence/calibration-dtype=%s" % ("integer" if form in INT_CALIB else "mixed" if form == "mixed" else "float"))
        ctx.dist("sequence/class=%s" % (case.get("cls") or "Dataset"))
        ctx.dist("sequence/last-call=%s" % ("in-place" if ops[-1].get("inplace") else "copying"))
        for k in range(len(ops)):
            opc = steps[k]["op"]
            ctx.dist("sequence/call=%s" % opc["kind"])
            if k:
                ctx.dist("sequence/later-call=%s-after-%s" % (opc["kind"], "+".join(sorted({o["kind"] for o in ops[:k]}))))
        # non-trivial: a call that speaks about calibration comes after a copying call that computes a new calibration
        ctx.count(("seq", json.dumps(case, sort_keys=True)),
                  nontrivial=any(seq_changes_calibration(steps[k]["op"]) for k in range(len(ops) - 1)))
        for k, tag, e in seq_exprs(case, steps):
            exprs.append(e)
            owners.append((ci, k, tag))
    vals = coq_vals(ctx, "seq", PRE_Q, exprs, 14 if ctx.quick else 40)
    per = {}
    for (ci, k, tag), v in zip(owners, vals):
        per.setdefault(ci, []).append((k, tag, v))
    nd = 0
    for ci, tagged in sorted(per.items()):
        ctx.cov["traces_validated_against_impl"] += len({k for k, _, _ in tagged})
        for key, what, k in seq_correspond(cases[ci], runs[ci], tagged):
            nd += 1
            ctx.cov["disagreements_checked"] += 1
            ctx.violation(key, "model and implementation disagree on a call that follows other calls on the same source (the "
                          "model has no state: every call is a function of the original source): " + what,
                          dict(cases[ci], failed_step=k), found_input=k in failed[ci])
    c0 = cases[min(1, len(cases) - 1)]
    ctx.sample({"kind": "seq", "source": {k: c0.get(k) for k in ("dtype", "shape", "origin8", "sampling8", "calib", "cls")},
                "calls": [_op_text(seq_opcase(c0, k)) for k in range(len(c0["ops"]))],
                "source_calibration_after_each_copying_call": [None if st["src"] is None else [st["src"]["origin"], st["src"]["sampling"]]
                                                               for st in runs[min(1, len(cases) - 1)]]})
    ctx.log("sequences: %d sources, %d calls, %d model evaluations, %d disagreements" % (len(cases), nsteps, len(exprs), nd))


# ------------------------------------------------------------------------------------------

def _corpus():
    from ..common import VERIF
    p = VERIF / "corpus" / "C06" / "corpus.json"
    return json.loads(p.read_text()) if p.exists() else {}


def run(ctx: Ctx):
    ctx.hash_sources("core/datastructures/dataset.py",
                     ["Dataset.bin", "Dataset.fourier_resample", "Dataset.pad", "Dataset.crop"])
    ctx.cov["rule"] = (
        "bin: (dtype of 10, shape 1..4-D with lengths 1..12, axis subset in any order, factor per axis from "
        "{1,2,3,4,5,n,n+1,n-1,n//2} so that about half do not divide, reducer, call form int/tuple/None, in place or not, "
        "dyadic origin/sampling, values in eighths); every multi-axis bin is also compared with the sequential one-axis "
        "calls; pad: output_shape (15% with an axis asking for less) / int / pair / "
        "per-axis widths, np.pad mode default / constant_values / edge / reflect / symmetric / wrap / linear_ramp / mean / "
        "empty, then crop with the pad widths as (before,-after), as (before,before+n) and naming only the padded axes; "
        "crop: random (before, after) incl. 0 = to the end, negative and out-of-range; resample: out_shape or float factors "
        "(ties, <1 sample), axis subsets, up/down/same, odd<->even, lengths 1..12, both float models (axis after axis; all "
        "axes at once stage by stage, for several axes); linearity with dyadic (complex) coefficients; band-limited "
        "up/down round trips (Nyquist component projected out along even axes).  In every kind: 15% of the cases name "
        "their axes by negative index, 40% of the 2/3/4-D cases run on Dataset2d/3d/4d/4dstem.  Sequences (about 15% of the "
        "cases): one source whose origin / sampling reach from_array as its defaults, python floats, a float64 / float32 / "
        "int64 ndarray, python ints, one scalar, or ints + floats (about 64% float-, 25% integer-typed, 11% mixed), then 2..4 "
        "calls (bin / fourier_resample / pad / crop, the last one a bin or a resample) ON THAT SOURCE, all copying except "
        "that a quarter end with an in-place call; every result is judged by the single-call oracle and the model against "
        "the ORIGINAL data and calibration, and the source is re-read after every copying call.  MEMORY LAYOUT (every kind "
        "of case, laid over the generated cases by a generator seeded from the state of ctx.rng): the array handed to "
        "from_array holds the case's values as a fresh C-contiguous array (about 30%), a Fortran-contiguous copy, a "
        "transposed or axis-permuted view, a strided view or a window of a larger junk-filled buffer, a view with negative "
        "strides, a view at an offset inside its buffer (C or F order), read-only (about 70% non-C together; about 19% are "
        "strictly Fortran-contiguous with >= 2 dimensions); the oracles and the model see the values only, and every "
        "non-C case is run again on np.ascontiguousarray of the same values and must give the same result.  "
        "A case is distinct by its full input; "
        "non-trivial when some factor > 1 and the result is non-empty (bin), some pad width > 0 (pad), the output "
        "shape differs from the input shape (resample, linearity, round trip), a later call follows a copying bin / resample "
        "that computed a new calibration (sequence)")
    ctx.assumptions += [
        "numpy.fft.fftn/ifftn compute the unnormalised forward / 1/N inverse DFT; fftshift/ifftshift roll by n//2; "
        "np.pad(mode='constant') pads with zeros; basic slicing semantics of ndarray (exercised by every case, never proved)",
        "the twiddle table handed to the PrimFloat instance is numpy.exp(-2 pi i k / N) (oracle input of the float model)",
        "sums of at most 12^4 eighths of magnitude < 16 are exact in float32/float64, so the exact Qc model and the "
        "implementation must agree exactly for bin(sum), pad, crop and the dyadic calibration",
    ]
    ctx.cov["trusted_base"] += [
        "Coq 8.16.1 kernel incl. vm_compute (used to run the model); no native_compute",
        "hand-written model coq/model/C06_Model.v tied to /repo by this correspondence run; lib/DFT_Float.v (rounded "
        "binary64 instance of the same generic definitions, correspondence only)",
        "harness/props/C06.py (generators, independent block-sum / DFT oracles, Python->Coq printers), harness/common.py",
        "theorems about the Fourier pipeline are over an abstract commutative ring with root-of-unity families "
        "(premises root_ok; satisfiable: Q(i), sizes 1, 2, 4, and Q(omega), sizes 1, 2, 3, 6); one-axis statements are lifted "
        "line by line to N-D and the all-axes-at-once pipeline is proved equal to the axis-after-axis one "
        "(coq/model/C06_ModelND.v pipeline_nd); floating-point rounding is not modelled (stated tolerances)",
        "harness/translate_arith.py: the per-axis index arithmetic of pad / crop / bin / fourier_resample is re-translated "
        "from the current source on every run and proved equal to the model definitions (coq/gen_proofs/Arith_Dataset_*.v)",
    ]
    ctx.proofs_or_violation()
    try:  # the model's pad widths / crop bounds / bin cut / centred crop-pad = the CURRENT source, by theorem
        from ..arith_tie import run_tie
        run_tie(ctx, ["shift_center_index", "pad_widths", "crop_slice", "bin_cut", "bin_blocks", "bin_meta",
                      "resample_croppad"])
    except Exception as e:  # noqa  (fail closed: the tie could not be established)
        ctx.broken_obligation = "; ".join(filter(None, [ctx.broken_obligation, "arithmetic tie could not run: %r" % (e,)]))
    check_bin(ctx)
    check_padcrop(ctx)
    check_resample(ctx)
    check_resample_laws(ctx)
    check_sequences(ctx)


def replay(ctx: Ctx, path):
    rp = json.loads(open(path).read())
    kind = rp.get("kind")
    np.set_printoptions(precision=6, suppress=True, linewidth=140)
    show = {k: v for k, v in rp.items() if k not in ("data8", "data8_im", "y8", "y8_im", "what", "traceback")}
    print("case:", json.dumps(show))
    if "data8" in rp:
        print("input array (%s):\n%s" % (rp["dtype"], make_array(rp)))
        x = lay_out(make_array(rp), rp.get("layout"))
        print("handed to from_array as %s: strides %s (itemsize %d), flags %s%s" % (
            layout_text(rp.get("layout")), list(x.strides), x.itemsize, layout_flags(x),
            "" if x.flags.writeable else ", read-only"))
    bad = []
    if kind == "bin":
        obs = bin_impl(rp)
        print("Dataset.bin ->\n%s\norigin %s sampling %s" % (obs["array"], obs["origin"], obs["sampling"]))
        print("block sums (property text):\n%s" % block_sums(make_array(rp), dict(zip(rp["axes"], rp["factors"]))))
        bad = bin_oracle(rp, obs, rerun=bin_impl)
        bad += layout_compare(rp, obs, bin_impl, "bin", ("array", "origin", "sampling"),
                              0.0 if rp["reducer"] == "sum" else 2.0 ** -20)
        ex = [bin_expr(rp, "re")] + ([bin_expr(rp, "im")] if rp["data8_im"] is not None else [])
        v = coq_vals(ctx, "replay", PRE_Q, ex, 2)
        print("model: shape %s data %s origin %s sampling %s" % (
            v[0][0], [str(fr_of_pair(p)) for p in v[0][1]], [str(fr_of_pair(p)) for p in v[0][2][0]],
            [str(fr_of_pair(p)) for p in v[0][2][1]]))
        bad += bin_correspond(rp, obs, v[0], v[1] if len(v) > 1 else None)
    elif kind == "pad":
        obs = pad_impl(rp)
        print("pad widths (property text): %s\npadded:\n%s\ncrop (before,-after):\n%s" % (pad_widths_text(rp), obs["padded"],
                                                                                          obs["rt_rel"]))
        bad = pad_oracle(rp, obs)
        bad += layout_compare(rp, obs, pad_impl, "pad", (("padded",) if pad_fill8(rp, "re") is not None else ()) + tuple(
            f for f in ("rt_rel", "rt_abs", "rt_axes") if f in obs))
        v = coq_vals(ctx, "replay", PRE_Q, [pad_expr(rp, "re")], 1)[0]
        print("model: padded shape %s widths %s" % (v[0], v[2]))
        bad += pad_correspond(rp, obs, v, "re")
    elif kind == "crop":
        got = crop_impl(rp)
        specs = "[" + "; ".join("(%d, (%d, %d))" % (a, c[0], c[1]) for a, c in zip(rp["axes"], rp["cw"])) + "]%Z"
        v = coq_vals(ctx, "replay", PRE_Q, ["crop_case %s %s %s" % (specs, zlist(rp["shape"]), zlist(rp["data8"]))], 1)[0]
        print("Dataset.crop ->\n%s\nmodel: %s" % (got, v))
        if not ti_equal(got, v, "re"):
            bad.append(("crop-correspondence", "model and implementation differ"))
        bad += layout_compare(rp, {"array": got}, lambda c: {"array": crop_impl(c)}, "crop", ("array",))
    elif kind == "rs":
        obs = rs_impl(rp)
        print("Dataset.fourier_resample ->\n%s\norigin %s sampling %s" % (obs["array"], obs["origin"], obs["sampling"]))
        if tuple(obs["array"].shape) == tuple(dft_oracle(make_array(rp), rp["axes"], rs_outs(rp)).shape):
            print("DFT oracle:\n%s" % dft_oracle(make_array(rp), rp["axes"], rs_outs(rp)))
        print("mean in %s out %s" % (np.mean(make_array(rp)), np.mean(obs["array"])))
        bad = rs_oracle(rp, obs)
        bad += layout_compare(rp, obs, rs_impl, "resample", ("array", "origin", "sampling"), tol_of(rp["dtype"]))
        v = coq_vals(ctx, "replay", PRE_F, [rs_expr(rp, obs)], 1)[0]
        print("float model: shape %s, max |impl - model| = %.3g" % (v[0], float_of_zz(v[1])))
        bad += rs_correspond(rp, obs, v)
        mv = coq_vals(ctx, "replaym", PRE_Q, [rsmeta_expr(rp)], 1)[0]
        print("exact calibration model: origin %s sampling %s" % ([str(fr_of_pair(p)) for p in mv[0]],
                                                                 [str(fr_of_pair(p)) for p in mv[1]]))
        bad += rsmeta_correspond(rp, obs, mv)
    elif kind == "lin":
        bad = lin_run(rp)
    elif kind == "updown":
        bad = updown_run(rp)
    elif kind == "seq":
        steps = seq_run(rp)
        for k, st in enumerate(steps):
            print("call %d: ds.%s" % (k + 1, _op_text(st["op"])))
            if "raises" in st["obs"]:
                print("   raises %s" % st["obs"]["raises"])
            elif "origin" in st["obs"]:
                print("   result: shape %s origin %s sampling %s" % (list(st["obs"]["array"].shape), st["obs"]["origin"],
                                                                     st["obs"]["sampling"]))
            if st["src"] is not None:
                print("   source afterwards: shape %s origin %s sampling %s" % (list(st["src"]["array"].shape),
                                                                                st["src"]["origin"], st["src"]["sampling"]))
        bad3 = seq_oracle(rp, steps) + seq_layout_compare(rp, steps)
        tg = seq_exprs(rp, steps)
        v = coq_vals(ctx, "replay", PRE_Q, [e for _, _, e in tg], 8) if tg else []
        bad3 += seq_correspond(rp, steps, [(k, tag, x) for (k, tag, _), x in zip(tg, v)])
        bad = [(key, what) for key, what, _ in bad3]
    else:
        print("replay of kind %r: re-run ./check C06" % kind)
        return 0
    for key, what in bad:
        print("oracle/correspondence: [%s] %s" % (key, what))
    if not bad:
        print("property holds on this case")
    return 1 if bad else 0
