"""C18 — centre-of-mass origin estimation is exact, path-independent and batch-invariant.

Theorems: coq/props/C18_Properties.v (exact rationals).  Tie to /repo:

* CoM: integer-valued positive intensities (exact in float32/float64) on non-square scans and
  detectors, optional detector masks; the real CenterOfMassOriginModel.calculate_origin for EVERY
  batch size 1..num (+1, None), the real PtychographyDatasetRaster._set_intensities_com on its
  vectorised and its looped path (and through preprocess), against (1) a float64 reference of
  the property text and (2) the Coq model evaluated with vm_compute on the same integers.
  Where the exact rational is a float32 the implementation must return exactly it.
* fits: constant / plane with dyadic coefficients through fit_origin_background (PCA; the
  eigenvectors torch.linalg.eigh returned are handed to the model as an oracle input and the
  eigh contract is checked numerically), through fit_origin and end to end from patterns whose
  CoM lies exactly on the surface.
* shift: integer per-pattern origins, integer target coordinates, several batch sizes:
  shift_origin_to vs np.roll and vs the Coq model of the grid arithmetic + bilinear sampling.

Round-3 extension (harness/props/C18.audit.md):
* CoM: dataset dtypes uint16 / float32 / float64; masks 0/1, 0/1 with a fully masked INTERIOR row /
  column, fractional (quarters); a 5-call history [looped(m), vectorised(m), looped(m), vectorised(None),
  looped(None)] on ONE dataset and ONE array: every step against the fresh call, against the model
  (C18_com_history_independent) and the caller's array must stay unchanged.
* fits: fit_origin for every curve_fit family (plane, parabola, bezier_two) on constant / plane /
  own-family data; _set_intensities_com end to end with parabola / bezier_two.
* shift: detectors with a dimension of 1, modes nearest / bicubic (oracle), non-integer origins
  (informational comparison with the model of C18_shift_general_exact; never a VIOLATION: the
  property speaks about integer-valued origins only).

Round 4 (translator tie, harness/translate_C18.py): on every run the CURRENT source of calculate_origin, shift_origin_to,
fit_origin_background, _set_intensities_com (both paths), SimpleBatcher.__iter__, fit_origin and the three curve_fit
families is executed symbolically into build/C18/Gen_C18.v and coq/gen_proofs/C18_GenProofs.v / C18_GenProperties.v
prove gen_* = C18_Model.v for all arguments (worker thread, joined before the first model evaluation); a sample of
the com / shift / family cases is also evaluated through gen_* and judged by the same comparators (cross-test).
"""
from __future__ import annotations

import json
from fractions import Fraction

import numpy as np

from ..common import Ctx, cq, cz

PRE = """From QV.lib Require Import Prelude Chunks C18_QTensor.
From QV.model Require Import C18_Model.
From Coq Require Import QArith.
Local Close Scope Q_scope.
Fixpoint leqb {A : Type} (e : A -> A -> bool) (a b : list A) : bool :=
  match a, b with
  | [], [] => true
  | x :: a', y :: b' => e x y && leqb e a' b'
  | _, _ => false
  end.
Definition qleqb := leqb (leqb Z.eqb).
Definition mleqb := leqb qleqb.
Definition zI4 (x : list (list (list (list Z)))) : list (list matrix) := map (map zmat) x.
Definition req_b (a b : list (list Q) * list (list Q)) : bool :=
  mleqb (showm (fst a)) (showm (fst b)) && mleqb (showm (snd a)) (showm (snd b)).
Definition com_case (Rn Cn H W : nat) (m : option matrix) (x : list (list (list (list Z)))) :=
  let I4 := zI4 x in
  let v := com_vectorised H W m I4 in
  let l := com_looped Rn Cn H W m I4 in
  let v0 := com_vectorised H W None I4 in
  (* the call history the harness replays on ONE array (C18_com_history_independent) *)
  let hist := com_history (com_step Rn Cn H W) I4
                [ComCall false m; ComCall true m; ComCall false m; ComCall true None; ComCall false None] in
  let hist_ok := leqb req_b hist [v; v; v; v0; v0] in
  let flat := concat (map (map (apply_mask m)) I4) in
  let n := length flat in
  let o1 := calculate_origin 1 H W flat in
  let all_b := forallb (fun b => let o := calculate_origin b H W flat in
                                 qleqb (showol (fst o)) (showol (fst o1)) && qleqb (showol (snd o)) (showol (snd o1)))
                       (seq 1 (n + 2)) in
  (showm (fst v), showm (snd v),
   (mleqb (showm (fst l)) (showm (fst v)) && mleqb (showm (snd l)) (showm (snd v)),
    all_b,
    qleqb (showol (fst o1)) (concat (showm (fst v))) && qleqb (showol (snd o1)) (concat (showm (snd v))),
    hist_ok),
   (showm (fst v0), showm (snd v0))).
Definition shift_case (H W : nat) (cy cx : Z) (pats : list (Z * Z * list (list Z))) :=
  (map (fun t => let '(oy, ox, pat) := t in
                 showm (shift_pattern_r H W (qz oy) (qz ox) (qz cy) (qz cx) (zmat pat))) pats,
   forallb (fun t => let '(oy, ox, pat) := t in
                     mleqb (showm (shift_pattern_r H W (qz oy) (qz ox) (qz cy) (qz cx) (zmat pat)))
                           (showm (roll2 (- (oy - cy)) (- (ox - cx)) (zmat pat)))) pats).
(* non-integer shifts: origins in units of 1/den; second component: the entries the seam
   theorem C18_shift_general_exact speaks about, evaluated through seam_bilinear *)
Definition fshift_case (H W : nat) (den : positive) (cy cx : Z) (pats : list (Z * Z * list (list Z))) :=
  map (fun t => let '(oy, ox, pat) := t in
         let I := zmat pat in
         let sp := shift_pattern_r H W (oy # den) (ox # den) (qz cy) (qz cx) I in
         let sm := map (fun y => map (fun x =>
                     seam_bilinear H W I (qmod (Qn y + ((oy # den) - qz cy)) (Qn H))
                                         (qmod (Qn x + ((ox # den) - qz cx)) (Qn W))) (seq 0 W)) (seq 0 H) in
         (showm sp, mleqb (showm sp) (showm sm))) pats.
Definition fam_case (pp : Q * Q * Q) (pq : Q * Q * Q * Q * Q * Q)
                    (pb : (Q * Q * Q) * (Q * Q * Q) * (Q * Q * Q)) (Rn Cn : nat) :=
  let grid (f : nat -> nat -> Q) := map (fun r => map (fun c => showq (f r c)) (seq 0 Cn)) (seq 0 Rn) in
  (grid (plane_fn pp), grid (parabola_fn pq), grid (bezier2_fn pb),
   (mleqb (grid (parabola_fn (parabola_of_plane pp))) (grid (plane_fn pp)),
    mleqb (grid (bezier2_fn (bezier2_of_parabola pq))) (grid (parabola_fn pq)))).
Definition plane_case (pts : list P3) (n : P3) :=
  map (fun p => showq (plane_fitted pts n (px p) (py p))) pts.
"""

# float32: relative spacing 2^-23; one division (correctly rounded) or a float64 division
# followed by a cast (double rounding): at most 1 ulp <= 2^-22 |x|.  Margin x2.
TOL_REL = 2.0 ** -21
TOL_ABS = 2.0 ** -30
# PCA plane fit: float32 covariance + LAPACK eigh + float32 evaluation; measured worst case over
# 1500 generated plane cases: 4.8e-7 (scan grid), 2.1e-6 (explicit positions); values <= 8 pixels.
# Stated tolerance (about 100x margin):
TOL_PLANE = 2e-4
# least squares (float64 curve_fit, cast to float32 by the com_fit setter)
TOL_LSQ = 1e-5
# bilinear resampling at integer coordinates when (size-1) is not a power of two: the [-1,1]
# normalisation rounds in float32, weights differ from (1,0) by <= 2^-21 * size
TOL_SHIFT_REL = 2.0 ** -16


# ------------------------------------------------------------------------------------------
# printers / parser glue

# state of the translator tie of this run (harness/translate_C18.run_tie): the cross-test needs Gen_C18.vo
GEN = {"gen_compiled": False, "tie_ok": False}


def coq_vals(ctx: Ctx, name, exprs, shard, gen=False):
    """ctx.coq_eval, with Coq's `(-5)%Z` rendering of negative numerals normalised first.
    gen=True: the same expressions evaluated through the TRANSLATED functions (cross-test)"""
    import re
    from ..common import parse_coq_value
    if gen:
        from ..translate_C18 import GEN_FLAGS, gen_preamble
        raw = ctx.coq_eval(name, gen_preamble(PRE), exprs, shard=shard, parse=False, extra_flags=GEN_FLAGS(ctx))
    else:
        raw = ctx.coq_eval(name, PRE, exprs, shard=shard, parse=False)
    out = []
    for v in raw:
        v = re.sub(r"\s+", " ", v)
        v = re.sub(r"\(\s*(-\d+)\s*\)\s*%Z", r"\1", v)
        out.append(parse_coq_value(v))
    return out


def c2(m) -> str:
    return "[" + "; ".join("[" + "; ".join(str(int(v)) for v in row) + "]" for row in m) + "]"


def c4(a) -> str:
    return "[" + "; ".join("[" + "; ".join(c2(p) for p in row) + "]" for row in a) + "]%Z"


def fr_of(v) -> Fraction:
    """parsed [num; den] -> Fraction"""
    return Fraction(int(v[0]), int(v[1]))


def f32_exact(fr: Fraction) -> bool:
    x = np.float32(fr.numerator / fr.denominator)
    return Fraction(float(x)) == fr


def close(v: float, fr: Fraction, rel=TOL_REL, abs_=TOL_ABS) -> bool:
    if not np.isfinite(v):
        return False
    return abs(Fraction(float(v)) - fr) <= Fraction(rel) * abs(fr) + Fraction(abs_)


def agrees(v: float, fr: Fraction) -> bool:
    """exact where the rational is a float32, else within the stated tolerance"""
    if f32_exact(fr):
        return Fraction(float(v)) == fr
    return close(v, fr)


_TIE_FUTURE = []


def tie_join(ctx: Ctx):
    """the translator tie runs in a worker thread (coqc subprocesses) while the implementation cases are executed"""
    while _TIE_FUTURE:
        fut = _TIE_FUTURE.pop()
        try:
            GEN.update(fut.result())
        except Exception as e:  # noqa
            ctx.broken_obligation = "; ".join(filter(None, [ctx.broken_obligation, "translator tie could not run: %r" % (e,)]))


def cross_test(ctx: Ctx, name, items, shard, judge, replay_of):
    """translator cross-test: the expressions of `items` (index, expr) evaluated through the functions TRANSLATED from
    the current source (gen_*) and judged against the implementation's output by the same comparator as the model.
    Returns a function to call after the model evaluation (the Coq processes of both run side by side)."""
    from concurrent.futures import ThreadPoolExecutor
    tie_join(ctx)
    rec = ctx.cov.setdefault("translator_cross_test", {})
    if not GEN["gen_compiled"] or not items:
        rec[name] = "skipped (no generated file)" if items else 0
        return lambda: None
    ex = ThreadPoolExecutor(max_workers=1)
    fut = ex.submit(coq_vals, ctx, name + "_gen", [e for _, e in items], shard, True)

    def finish():
        try:
            gvals = fut.result()
        except RuntimeError as e1:          # a coqc process died (e.g. killed under memory pressure): one retry
            try:
                gvals = coq_vals(ctx, name + "_gen", [e for _, e in items], shard, True)
            except RuntimeError as e2:
                if not GEN["tie_ok"]:
                    raise
                # the tie theorems of this run hold (gen_* = model for all arguments), so the model's correspondence
                # already speaks about the translated functions; the redundant cross-test is recorded as not completed
                rec[name] = "not completed (coqc failed twice: %s / %s)" % (str(e1)[:80], str(e2)[:80])
                ex.shutdown()
                return
        ex.shutdown()
        nbad = 0
        for (i, _), gv in zip(items, gvals):
            for key, what in judge(i, gv):
                nbad += 1
                ctx.violation("translator-cross-test-" + name, "the function translated from the current source (gen_*) and "
                              "the implementation disagree [%s]: %s" % (key, what), replay_of(i), found_input=False)
        rec[name] = {"instances": len(items), "disagreements": nbad}
        ctx.cov["traces_validated_against_impl"] += len(items)
    return finish


# ------------------------------------------------------------------------------------------
# running the implementation

# physical unit of the stored intensities: the patterns of a CoM case are multiplied by 2**_UNIT_EXP
# (exact in binary floating point, so every path must return the SAME centre of mass bit for bit:
# the intensity-weighted mean does not depend on the unit - counts, amperes, ... - the data is stored in)
_UNIT_EXP = 0


def _dataset(I4, dtype="float32"):
    from quantem.core.datastructures import Dataset4dstem
    a = np.array(I4, dtype=np.dtype(dtype))
    if _UNIT_EXP and a.dtype.kind == "f":
        a = a * a.dtype.type(2.0 ** _UNIT_EXP)
    return Dataset4dstem.from_array(a, sampling=(1, 1, 1, 1), units=("A", "A", "A^-1", "A^-1"))


def mask_array(case):
    """the detector mask of a case as float32 (entries mask / mask_den), or None"""
    if case.get("mask") is None:
        return None
    return (np.array(case["mask"], dtype=np.float64) / case.get("mask_den", 1)).astype(np.float32)


def run_origin_model(I4, batches, dtype="float32"):
    """CenterOfMassOriginModel.calculate_origin for each batch size -> {b: (n,2) float32 array}"""
    from quantem.diffractive_imaging.origin_models import CenterOfMassOriginModel
    om = CenterOfMassOriginModel.from_dataset(_dataset(I4, dtype))
    out = {}
    for b in batches:
        om.calculate_origin(b)
        out[b] = om.origin_measured.detach().cpu().numpy().copy()
    return out


def run_dataset_model(I4, mask, vectorised, fit_function="none", via_preprocess=False, dtype="float32"):
    """PtychographyDatasetRaster._set_intensities_com -> (com_measured, com_fit) each (2,R,C)"""
    from quantem.diffractive_imaging.dataset_models import PtychographyDatasetRaster
    ds = PtychographyDatasetRaster.from_dataset4dstem(_dataset(I4, dtype), verbose=0)
    if via_preprocess:
        assert mask is None
        ds.preprocess(com_fit_function=fit_function, plot_rotation=False, plot_com=False, probe_energy=80e3,
                      force_com_rotation=0, force_com_transpose=False, vectorized=vectorised)
    else:
        ds._set_intensities_com(ds.intensities_4d.copy(),
                                dp_mask=None if mask is None else np.array(mask, dtype=np.float32),
                                fit_function=fit_function, vectorized_calculation=vectorised)
    return np.array(ds.com_measured), np.array(ds.com_fit)


def run_history(I4, mask, dtype="float32"):
    """The call history [looped(m), vectorised(m), looped(m), vectorised(None), looped(None)] of
    _set_intensities_com on ONE dataset and the ONE array the caller keeps (as preprocess does with
    self.intensities_4d).  -> list of (label, com_measured (2,R,C), caller's array still unchanged)"""
    from quantem.diffractive_imaging.dataset_models import PtychographyDatasetRaster
    ds = PtychographyDatasetRaster.from_dataset4dstem(_dataset(I4, dtype), verbose=0)
    arr = ds.intensities_4d
    orig = np.array(arr, copy=True)
    out = []
    for vec, m in ((False, mask), (True, mask), (False, mask), (True, None), (False, None)):
        ds._set_intensities_com(arr, dp_mask=None if m is None else np.array(m, dtype=np.float32),
                                fit_function="none", vectorized_calculation=vec)
        out.append(("%s(%s)" % ("vectorised" if vec else "looped", "mask" if m is not None else "no mask"),
                    np.array(ds.com_measured), bool(np.array_equal(np.asarray(arr), orig))))
    return out


def reference_com(I4, mask):
    """the property text in float64: intensity-weighted mean (row, column) of every pattern"""
    a = np.array(I4, dtype=np.float64)
    if mask is not None:
        a = a * np.array(mask, dtype=np.float64)
    H, W = a.shape[-2:]
    tot = a.sum(axis=(-2, -1))
    r = np.tensordot(a.sum(axis=-1), np.arange(H, dtype=np.float64), axes=([-1], [0])) / tot
    c = np.tensordot(a.sum(axis=-2), np.arange(W, dtype=np.float64), axes=([-1], [0])) / tot
    return r, c


# ------------------------------------------------------------------------------------------
# CoM cases

def gen_pattern(r, H, W, mask, pow2):
    p = [[r.randint(1, 12) for _ in range(W)] for _ in range(H)]
    for _ in range(r.randint(0, 3)):          # a few hot pixels: asymmetric patterns
        p[r.randrange(H)][r.randrange(W)] += r.randint(20, 300)
    if pow2:                                   # masked total a power of two -> CoM dyadic
        # weights in mask units (1 for a 0/1 mask, quarters for a fractional one)
        live = [(i, j) for i in range(H) for j in range(W) if mask is None or mask[i][j]]
        wt = (lambda i, j: 1) if mask is None else (lambda i, j: mask[i][j])
        s = sum(p[i][j] * wt(i, j) for i, j in live)
        tgt = 1 << max(1, (s - 1).bit_length())
        unit = [(i, j) for i, j in live if (tgt - s) % wt(i, j) == 0]
        if unit:
            i, j = r.choice(unit)
            p[i][j] += (tgt - s) // wt(i, j)
    return p


def gen_mask(r, H, W):
    """-> (mask, mask_den, kind): random 0/1; 0/1 with a fully masked INTERIOR row and/or column (dead
    stripe of a segmented detector); fractional (quarters, exact in float32)"""
    kind = r.choice(["binary", "binary", "stripe", "stripe", "quarter", "quarter"])
    if kind == "stripe" and max(H, W) < 3:
        kind = "binary"
    while True:
        if kind == "quarter":
            mask = [[r.choice([0, 1, 2, 3, 4, 4, 4]) for _ in range(W)] for _ in range(H)]
            den = 4
            if all(v in (0, 4) for row in mask for v in row):
                continue
        else:
            mask = [[1 if r.random() < (0.7 if kind == "binary" else 0.85) else 0 for _ in range(W)] for _ in range(H)]
            den = 1
            if kind == "stripe":
                done = False
                if H >= 3 and r.random() < 0.7:
                    mask[r.randint(1, H - 2)] = [0] * W
                    done = True
                if W >= 3 and (not done or r.random() < 0.5):
                    j = r.randint(1, W - 2)
                    for row in mask:
                        row[j] = 0
                # the rows / columns around the stripe stay active
                if not (any(mask[0]) and any(mask[-1]) and any(row[0] for row in mask) and any(row[-1] for row in mask)):
                    continue
        sm = sum(map(sum, mask))
        if 0 < sm < H * W * den:
            return mask, den, kind


def gen_com_case(r, quick=True):
    shapes = [(1, 3), (2, 3), (3, 2), (2, 4), (3, 4), (4, 3), (1, 1), (2, 2), (4, 1), (3, 5)]
    dets = [(2, 3), (3, 2), (3, 5), (5, 3), (4, 6), (5, 7), (7, 4), (2, 5), (1, 4), (4, 1), (3, 3), (6, 5)]
    Rn, Cn = r.choice(shapes if quick else shapes + [(5, 4), (4, 6)])
    H, W = r.choice(dets)
    mask, den, mkind = None, 1, "none"
    if r.random() < 0.55 and H * W > 1:
        mask, den, mkind = gen_mask(r, H, W)
    pow2 = r.random() < 0.4
    I4 = [[gen_pattern(r, H, W, mask, pow2) for _ in range(Cn)] for _ in range(Rn)]
    if pow2 and mask is not None:      # the adjustment may have been impossible for a fractional mask
        tot = [sum(p[i][j] * mask[i][j] for i in range(H) for j in range(W)) for row in I4 for p in row]
        pow2 = all(t & (t - 1) == 0 for t in tot)
    dtype = r.choice(["float32", "float32", "uint16", "float64"])
    # 35 % of the float cases store the same patterns in another unit (totals from 1e-16 to 1e14)
    unit_exp = r.choice([-60, -44, -36, -30, 40]) if dtype != "uint16" and r.random() < 0.35 else 0
    return {"kind": "com", "Rn": Rn, "Cn": Cn, "H": H, "W": W, "mask": mask, "mask_den": den, "mask_kind": mkind,
            "dtype": dtype, "pow2": pow2, "I4": I4, "unit_exp": unit_exp}


def com_impl(case):
    """all implementation observables of one CoM case"""
    global _UNIT_EXP
    _UNIT_EXP = int(case.get("unit_exp", 0))
    try:
        return _com_impl(case)
    finally:
        _UNIT_EXP = 0


def _com_impl(case):
    I4, mask = case["I4"], mask_array(case)
    dt = case.get("dtype", "float32")
    n = case["Rn"] * case["Cn"]
    masked = np.array(I4, dtype=np.float32) * (1 if mask is None else mask)
    batches = list(range(1, n + 2)) + [None]
    # the origin model has no mask argument: it gets the masked patterns (exact products; kept in the
    # case's dtype when they are integers)
    integral = bool(np.all(masked == np.round(masked)))
    obs = {"origin": run_origin_model(masked.tolist(), batches, dt if integral else "float32")}
    obs["vec"] = run_dataset_model(I4, mask, True, dtype=dt)[0]
    obs["loop"] = run_dataset_model(I4, mask, False, dtype=dt)[0]
    if mask is None:
        obs["vec_pre"] = run_dataset_model(I4, None, True, via_preprocess=True, dtype=dt)[0]
        obs["loop_pre"] = run_dataset_model(I4, None, False, via_preprocess=True, dtype=dt)[0]
    else:
        obs["vec_nomask"] = run_dataset_model(I4, None, True, dtype=dt)[0]
    obs["history"] = run_history(I4, mask, dt)
    return obs


def com_oracle(case, obs):
    """the property text evaluated on the implementation's output -> list of (key, what)"""
    bad = []
    Rn, Cn = case["Rn"], case["Cn"]
    ref_r, ref_c = reference_com(case["I4"], mask_array(case))
    ref = np.stack([ref_r, ref_c])                       # (2, R, C): row then column
    tol = TOL_REL * np.maximum(np.abs(ref), 1.0)

    def off(a):
        return not np.all(np.abs(np.asarray(a, dtype=np.float64) - ref) <= tol)

    def show(a):
        return np.asarray(a).reshape(2, -1)[:, :4].tolist()

    if off(obs["vec"]):
        bad.append(("com-vectorised-value", "vectorised _set_intensities_com is not the intensity-weighted mean "
                    "(row, column): got %s, reference %s" % (show(obs["vec"]), show(ref))))
    o1 = obs["origin"][1]
    if off(o1.T.reshape(2, Rn, Cn)):
        bad.append(("com-origin-model-value", "CenterOfMassOriginModel.calculate_origin is not the intensity-weighted "
                    "mean (row, column): got %s, reference %s" % (show(o1.T), show(ref))))
    for b, o in obs["origin"].items():
        if not np.array_equal(o, o1):
            bad.append(("com-batch-dependence", "calculate_origin(max_batch_size=%s) differs from batch size 1: %s vs %s"
                        % (b, o.T.tolist(), o1.T.tolist())))
            break
    for nm in ("loop", "loop_pre"):
        if nm in obs and not np.array_equal(obs[nm], obs["vec"]):
            sw = np.array_equal(obs[nm], obs["vec"][::-1])
            bad.append(("com-looped-vs-vectorised",
                        "_set_intensities_com(vectorized_calculation=False)%s disagrees with the vectorised path%s: "
                        "looped com_measured (row; col) = %s, vectorised = %s, weighted mean = %s"
                        % (" via preprocess" if nm.endswith("pre") else "",
                           " (row and column components are exchanged)" if sw else "",
                           show(obs[nm]), show(obs["vec"]), show(ref))))
            break
    if "vec_pre" in obs and not np.array_equal(obs["vec_pre"], obs["vec"]):
        bad.append(("com-preprocess-caller", "preprocess() does not hand the 4-D intensities to _set_intensities_com "
                    "unchanged: %s vs %s" % (show(obs["vec_pre"]), show(obs["vec"]))))
    om = o1.T.reshape(2, Rn, Cn).astype(np.float64)
    if not np.all(np.abs(om - obs["vec"].astype(np.float64)) <= tol):
        bad.append(("com-models-disagree", "origin model and dataset model disagree: %s vs %s"
                    % (show(om), show(obs["vec"]))))
    # one array, several calls: "independent of whether the vectorised or the looped code path is used"
    # must also hold for the path used BEFORE on the same data
    fresh_none = obs.get("vec_nomask", obs["vec"])
    for k, (label, cm, untouched) in enumerate(obs.get("history", [])):
        if not untouched:
            bad.append(("com-looped-mutates-input",
                        "_set_intensities_com altered the caller's intensities array (call %d of the history %s: %s); "
                        "the dataset no longer holds the measured patterns"
                        % (k + 1, [h[0] for h in obs["history"]], label)))
            break
    for k, (label, cm, untouched) in enumerate(obs.get("history", [])):
        want = obs["vec"] if "(mask)" in label else fresh_none
        if not np.array_equal(cm, want):
            bad.append(("com-history-dependence",
                        "call %d (%s) of the history %s on one array returns com_measured %s, but the same call on "
                        "untouched data returns %s" % (k + 1, label, [h[0] for h in obs["history"]], show(cm), show(want))))
            break
    return bad


def com_expr(case):
    from ..common import cnat
    m = "None" if case["mask"] is None else "(Some (%s %s%%Z))" % (
        "qmat4" if case.get("mask_den", 1) == 4 else "zmat", c2(case["mask"]))
    return "com_case %s %s %s %s %s %s" % (cnat(case["Rn"]), cnat(case["Cn"]), cnat(case["H"]), cnat(case["W"]),
                                           m, c4(case["I4"]))


def com_correspond(case, obs, v):
    """model value vs every implementation path -> list of (key, what)"""
    bad = []
    vr, vc, (loop_eq, all_b, agree, hist_ok), (v0r, v0c) = v
    if not (loop_eq and all_b and agree and hist_ok):
        bad.append(("com-model-internal", "the Coq model contradicts its own theorems on this instance "
                    "(looped=vectorised %s, all batch sizes %s, models agree %s, history independent %s)"
                    % (loop_eq, all_b, agree, hist_ok)))
    model = [[[fr_of(q) for q in row] for row in comp] for comp in (vr, vc)]
    model0 = [[[fr_of(q) for q in row] for row in comp] for comp in (v0r, v0c)]
    Rn, Cn = case["Rn"], case["Cn"]

    def cmp(name, arr, mdl=None):                     # arr: (2, R, C)
        mdl = model if mdl is None else mdl
        for k in range(2):
            for i in range(Rn):
                for j in range(Cn):
                    if not agrees(float(arr[k][i][j]), mdl[k][i][j]):
                        return ("com-%s-correspondence" % name,
                                "%s path and the model disagree at component %d, scan (%d,%d): impl %r, model %s"
                                % (name, k, i, j, float(arr[k][i][j]), mdl[k][i][j]))
        return None

    # per step of the call history (model: com_history (com_step ..) = the per-call value on the
    # original array)
    for k, (label, cm, _) in enumerate(obs.get("history", [])):
        b = cmp("history", cm, model if "(mask)" in label else model0)
        if b:
            bad.append((b[0], "step %d (%s): %s" % (k + 1, label, b[1])))
            break

    for name, arr in [("vectorised", obs["vec"]), ("looped", obs["loop"])] + (
            [("vectorised", obs["vec_pre"]), ("looped", obs["loop_pre"])] if "vec_pre" in obs else []):
        b = cmp(name, arr)
        if b:
            bad.append(b)
    for bsz, o in obs["origin"].items():
        b = cmp("origin-model", o.T.reshape(2, Rn, Cn))
        if b:
            bad.append((b[0], "max_batch_size=%s: %s" % (bsz, b[1])))
            break
    return bad


def zero_intensity_probe():
    """OUTSIDE the quantified domain (positive intensities), never judged: what the three paths do with an
    all-zero pattern (0 / 0).  Recorded so that the evidence states it."""
    import warnings
    a = np.array([[[[1, 2, 3], [4, 5, 60]], [[0, 0, 0], [0, 0, 0]], [[1, 1, 1], [1, 1, 2]]]], dtype=np.float32)
    out = {}
    with warnings.catch_warnings():
        warnings.simplefilter("ignore")
        try:
            v = run_dataset_model(a, None, True)[0]
            lo = run_dataset_model(a, None, False)[0]
            o = run_origin_model(a, [2])[2].T.reshape(2, 1, 3)
            out = {"vectorised_nan_at_zero_pattern": bool(np.all(np.isnan(v[:, 0, 1]))),
                   "looped_nan_at_zero_pattern": bool(np.all(np.isnan(lo[:, 0, 1]))),
                   "origin_model_nan_at_zero_pattern": bool(np.all(np.isnan(o[:, 0, 1]))),
                   "other_patterns_unaffected": bool(np.array_equal(v[:, 0, ::2], lo[:, 0, ::2]) and
                                                     np.array_equal(v[:, 0, ::2], o[:, 0, ::2]) and
                                                     np.all(np.isfinite(v[:, 0, ::2])))}
        except Exception as e:          # informational: never fails the run
            out = {"raised": "%s: %s" % (type(e).__name__, str(e)[:120])}
    return out


def check_com(ctx: Ctx):
    r = ctx.rng
    cases = [dict(c) for c in _corpus().get("com", [])]
    # the witness of C18_unrepaired_loop_refuted
    cases.append({"kind": "com", "Rn": 1, "Cn": 1, "H": 2, "W": 3, "mask": None, "pow2": False,
                  "I4": [[[[1, 1, 1], [1, 1, 4]]]]})
    for _ in range(ctx.budget(60, 900)):
        cases.append(gen_com_case(r, ctx.quick))
    obs_all, exprs = [], []
    for case in cases:
        obs = com_impl(case)
        obs_all.append(obs)
        exprs.append(com_expr(case))
        n = case["Rn"] * case["Cn"]
        ctx.dist("com/scan=%s" % ("1x1" if n == 1 else "square" if case["Rn"] == case["Cn"] else "non-square"))
        ctx.dist("com/detector=%s" % ("square" if case["H"] == case["W"] else "non-square"))
        ctx.dist("com/mask=%s" % (case.get("mask_kind", "binary") if case["mask"] is not None else "no"))
        ctx.dist("com/dataset_dtype=%s" % case.get("dtype", "float32"))
        ctx.dist("com/intensity_unit=2^%d" % case.get("unit_exp", 0))
        if case["mask"] is not None:
            dead_r = [i for i, row in enumerate(case["mask"]) if not any(row)]
            dead_c = [j for j in range(case["W"]) if not any(row[j] for row in case["mask"])]
            if any(0 < i < case["H"] - 1 for i in dead_r) or any(0 < j < case["W"] - 1 for j in dead_c):
                ctx.dist("com/mask_has_interior_dead_row_or_column")
        ctx.dist("com/total=%s" % ("pow2(exact)" if case["pow2"] else "general(rounded)"))
        ctx.dist("com/batch_sizes_run", n + 2)
        ref_r, ref_c = reference_com(case["I4"], mask_array(case))
        asym = bool(np.any(np.abs(ref_r - ref_c) > 1e-3))
        ctx.count(("com", json.dumps(case, sort_keys=True)), nontrivial=asym and case["H"] != case["W"])
        for key, what in com_oracle(case, obs):
            ctx.violation(key, what, dict(case))
    xt = cross_test(ctx, "com", [(i, exprs[i]) for i in range(len(cases)) if i % (4 if ctx.quick else 3) == 0], 2 if ctx.quick else 6,
                    lambda i, gv: com_correspond(cases[i], obs_all[i], gv), lambda i: dict(cases[i]))
    vals = coq_vals(ctx, "com", exprs, 8)
    xt()
    nd = 0
    for case, obs, v in zip(cases, obs_all, vals):
        ctx.cov["traces_validated_against_impl"] += len(obs["origin"]) + len(obs) - 2 + len(obs["history"])
        bad = com_correspond(case, obs, v)
        orc = com_oracle(case, obs) if bad else []
        for key, what in bad:
            nd += 1
            ctx.cov["disagreements_checked"] += 1
            ctx.violation(key, "model and implementation disagree (the CoM theorems no longer speak about this "
                          "code): " + what, dict(case), found_input=bool(orc))
    mid = cases[len(cases) // 2]
    ctx.sample({"kind": "com", "case": {k: mid[k] for k in ("Rn", "Cn", "H", "W", "mask")},
                "impl_vectorised": obs_all[len(cases) // 2]["vec"].tolist(),
                "model": [[[str(fr_of(q)) for q in row] for row in comp] for comp in vals[len(cases) // 2][:2]]})
    ctx.cov["zero_intensity_informational"] = zero_intensity_probe()
    ctx.log("com: %d cases, %d disagreements; zero-intensity pattern (outside the domain, informational): %s"
            % (len(cases), nd, ctx.cov["zero_intensity_informational"]))


# ------------------------------------------------------------------------------------------
# fits

def dyadic(r, lo, hi, den):
    return Fraction(r.randint(int(lo * den), int(hi * den)), den)


def profile_with_com(L, t: Fraction, k=8):
    """positive integer profile u of length L with sum 2^k and sum(u*i)/2^k == t, or None"""
    tot = 1 << k
    M = t * tot
    if M.denominator != 1:
        return None
    M = int(M) - L * (L - 1) // 2
    m = tot - L
    if m <= 0 or M < 0 or M > m * (L - 1):
        return None
    u = [1] * L
    r0, m1 = divmod(M, m)
    u[r0] += m - m1
    if m1:
        u[r0 + 1] += m1
    assert sum(u) == tot and sum(i * x for i, x in enumerate(u)) == t * tot
    return u


class EighRecorder:
    """records what torch.linalg.eigh returned (the LAPACK oracle input of the plane model)"""

    def __enter__(self):
        import torch
        self.torch = torch
        self.orig = torch.linalg.eigh
        self.log = []

        def rec(a, *args, **kw):
            out = self.orig(a, *args, **kw)
            self.log.append((a.detach().cpu().numpy().astype(np.float64), out[0].detach().cpu().numpy().astype(np.float64),
                             out[1].detach().cpu().numpy().copy()))
            return out

        torch.linalg.eigh = rec
        return self

    def __exit__(self, *a):
        self.torch.linalg.eigh = self.orig


def run_origin_fit(origins, method, positions, shape):
    """fit_origin_background on given measured origins; returns (fitted (n,2), eigh log)"""
    import torch
    from quantem.diffractive_imaging.origin_models import CenterOfMassOriginModel
    Rn, Cn, H, W = shape
    om = CenterOfMassOriginModel.from_dataset(_dataset(np.ones((Rn, Cn, H, W), dtype=np.float32)))
    om.origin_measured = torch.tensor(np.array(origins, dtype=np.float32))
    with EighRecorder() as rec:
        om.fit_origin_background(None if positions is None else np.array(positions, dtype=np.float32), method)
    return om.origin_fitted.detach().cpu().numpy().copy(), rec.log


FAMILY_RANK = {"const": 0, "plane": 1, "parabola": 2, "bezier_two": 3}
FAMILY_NPAR = {"plane": 3, "parabola": 6, "bezier_two": 9}


def gen_lsq_case(r):
    """fit_origin(fit_function=ff) for EVERY curve_fit family, on data that lie exactly on a constant, a
    plane, or a surface of the family itself (dyadic coefficients: the data are exact in float64)"""
    ff = r.choice(["plane", "parabola", "parabola", "bezier_two", "bezier_two"])
    while True:
        Rn, Cn = r.choice([(2, 3), (3, 2), (2, 2), (3, 4), (4, 3), (2, 5), (4, 4), (3, 5), (3, 3), (1, 4), (5, 2)])
        if Rn * Cn >= FAMILY_NPAR[ff]:        # scipy's curve_fit (lm) needs #points >= #parameters
            break
    fam = r.choice([f for f in ("const", "plane", "plane", ff) if FAMILY_RANK[f] <= FAMILY_RANK[ff]])
    npar = 1 if fam == "const" else FAMILY_NPAR[fam]
    coef = [[str(Fraction(r.randint(-8, 8), 16)) for _ in range(npar)] for _ in range(2)]
    for cc in coef:
        cc[0 if fam in ("const", "parabola") else (2 if fam == "plane" else 4)] = str(Fraction(r.randint(32, 64), 16))
    return {"kind": "fit", "sub": "lsq", "ff": ff, "family": fam, "Rn": Rn, "Cn": Cn, "coef": coef}


def family_values(fam, coef, Rn, Cn):
    """exact values of the surface on the (r, c) index grid (the argument order of the implementation's
    _plane / _parabola / _bezier_two)"""
    c = [Fraction(x) for x in coef]
    out = [[None] * Cn for _ in range(Rn)]
    for i in range(Rn):
        for j in range(Cn):
            x, y = Fraction(i), Fraction(j)
            if fam == "const":
                v = c[0]
            elif fam == "plane":
                v = c[0] * x + c[1] * y + c[2]
            elif fam == "parabola":
                c0, cx1, cx2, cy1, cy2, cxy = c
                v = c0 + cx1 * x + cy1 * y + cx2 * x * x + cy2 * y * y + cxy * x * y
            else:
                c00, c01, c02, c10, c11, c12, c20, c21, c22 = c
                bx = [(1 - x) ** 2, 2 * (1 - x) * x, x * x]
                by = [(1 - y) ** 2, 2 * (1 - y) * y, y * y]
                k = [[c00, c01, c02], [c10, c11, c12], [c20, c21, c22]]
                v = sum(k[a][b] * bx[a] * by[b] for a in range(3) for b in range(3))
            out[i][j] = v
    return out


def lsq_case_run(ctx: Ctx, case):
    import warnings
    from quantem.diffractive_imaging import ptycho_utils as pu
    Rn, Cn, ff, fam = case["Rn"], case["Cn"], case["ff"], case["family"]
    bad = []
    exact = [family_values(fam, case["coef"][k], Rn, Cn) for k in range(2)]
    g = [np.array([[float(v) for v in row] for row in exact[k]]) for k in range(2)]
    assert all(Fraction(float(v)) == v for k in range(2) for row in exact[k] for v in row)
    with warnings.catch_warnings():
        warnings.simplefilter("ignore")       # OptimizeWarning: covariance not estimated (exact data)
        try:
            fr, fc, rr, rc_ = pu.fit_origin((g[0], g[1]), mask=np.ones((Rn, Cn), bool), fit_function=ff)
        except RuntimeError as e:
            # scipy's curve_fit raises "Optimal parameters not found" when MINPACK stops with info 8 (residual orthogonal to
            # the Jacobian to machine precision).  Seen (about 0.3 % of the exact-data cases) only where the family is not
            # identifiable on the scan grid (parabola / bezier_two on a scan with fewer than 3 rows or columns: x^2 = x on
            # {0, 1}; plane on a single row / column): every minimiser still reproduces the data (C18_lsq_fit_exact), but
            # which termination code the solver reports there is not a property clause -> informational, not judged.
            need = 2 if ff == "plane" else 3
            if min(Rn, Cn) < need:
                ctx.cov["lsq_rank_deficient_solver_raised"] = ctx.cov.get("lsq_rank_deficient_solver_raised", 0) + 1
                ctx.dist("fit/lsq/solver-raised-on-rank-deficient-grid(informational)")
                return [], None, None
            return [("lsq-fit-raises", "fit_origin(fit_function=%r) of data lying exactly on a %s surface (coefficients %s, "
                     "%dx%d scan: the family is identifiable on this grid) raises %s: %s"
                     % (ff, fam, case["coef"], Rn, Cn, type(e).__name__, str(e)[:160]))], None, None
    scale = max(1.0, float(np.abs(g[0]).max()), float(np.abs(g[1]).max()))
    err = max(float(np.abs(fr - g[0]).max()), float(np.abs(fc - g[1]).max()))
    ctx.cov["lsq_fit_max_rel_err"] = max(ctx.cov.get("lsq_fit_max_rel_err", 0.0), err / scale)
    if not err <= TOL_LSQ * scale:
        bad.append(("plane-fit-fit_origin" if (ff, fam) == ("plane", "plane") else "lsq-fit-%s-on-%s" % (ff, fam),
                    "fit_origin(fit_function=%r) of data lying exactly on a %s surface (coefficients %s, %dx%d scan) "
                    "deviates from it by %g" % (ff, fam, case["coef"], Rn, Cn, err)))
    if not (np.allclose(rr, g[0] - fr) and np.allclose(rc_, g[1] - fc)):
        bad.append(("lsq-fit-residuals", "fit_origin residuals are not data - fit"))
    # tie of the model's families to the implementation's: plane_fn / parabola_fn / bezier2_fn against
    # _plane / _parabola / _bezier_two at fresh dyadic parameters (exact in float64), and the explicit
    # re-parametrisations of C18_family_inclusions on this grid
    r = ctx.rng
    pp = [Fraction(r.randint(-16, 16), 8) for _ in range(3)]
    pq = [Fraction(r.randint(-16, 16), 8) for _ in range(6)]
    pb = [Fraction(r.randint(-16, 16), 8) for _ in range(9)]
    ri, ci = np.indices((Rn, Cn))
    rcg = np.vstack((ri.reshape(1, -1), ci.reshape(1, -1)))
    impl = [np.asarray(f(rcg, *[float(t) for t in prm]), dtype=np.float64).reshape(Rn, Cn)
            for f, prm in ((pu._plane, pp), (pu._parabola, pq), (pu._bezier_two, pb))]
    # model argument orders: plane (mx, my, b); parabola (c0, cx1, cx2, cy1, cy2, cxy);
    # bezier ((c00,c01,c02),(c10,c11,c12),(c20,c21,c22)) = the implementation's positional order
    from ..common import cnat
    expr = "fam_case (%s, %s, %s) (%s, %s, %s, %s, %s, %s) ((%s, %s, %s), (%s, %s, %s), (%s, %s, %s)) %s %s" % (
        tuple(cq(t) for t in pp) + tuple(cq(t) for t in pq) + tuple(cq(t) for t in pb) + (cnat(Rn), cnat(Cn)))

    def post(v):
        out = []
        gp, gq, gb, (inc1, inc2) = v
        if not (inc1 and inc2):
            out.append(("lsq-model-internal", "family re-parametrisation fails on this grid (%s, %s)" % (inc1, inc2)))
        for name, grid, arr in (("plane", gp, impl[0]), ("parabola", gq, impl[1]), ("bezier_two", gb, impl[2])):
            for i in range(Rn):
                for j in range(Cn):
                    if Fraction(float(arr[i, j])) != fr_of(grid[i][j]):
                        same = False
                        break
                else:
                    continue
                break
            else:
                same = True
            # informational: a re-parametrisation of the same family (argument order, another basis)
            # is harmless; the parametrisation-independent tie is the oracle above (surfaces of the
            # MODEL's family, family_values, must be reproduced by the implementation's fit)
            ctx.dist("fit/family_%s_positional_tie=%s" % (name, "same" if same else "differs(informational)"))
        ctx.cov["traces_validated_against_impl"] += 4
        return out
    return bad, expr, post


def gen_fit_case(r):
    Rn, Cn = r.choice([(2, 3), (3, 2), (2, 2), (3, 4), (4, 3), (2, 5), (4, 4), (3, 5)])
    kind = r.choice(["const", "const", "plane", "plane", "plane", "plane_pos", "e2e_plane", "e2e_plane", "e2e_const"])
    case = {"kind": "fit", "sub": kind, "Rn": Rn, "Cn": Cn}
    if kind == "e2e_plane":
        # every fit function _set_intensities_com hands to curve_fit, on CoM lying exactly on planes
        case["ff"] = r.choice(["plane", "plane", "parabola", "bezier_two"])
        while Rn * Cn < FAMILY_NPAR[case["ff"]]:
            Rn, Cn = r.choice([(3, 4), (4, 3), (2, 5), (4, 4), (3, 5)])
        case["Rn"], case["Cn"] = Rn, Cn
    if kind in ("const", "e2e_const"):
        case["k"] = [str(dyadic(r, 1, 4, 16)), str(dyadic(r, 1, 4, 16))]
    else:
        # dyadic coefficients (multiples of 1/16); values stay well inside the 7 x 6 detector used
        # by the end-to-end variant
        while True:
            co = [[Fraction(r.randint(-6, 6), 16), Fraction(r.randint(-6, 6), 16), Fraction(r.randint(32, 48), 16)]
                  for _ in range(2)]
            vals = [[co[k][0] * x + co[k][1] * y + co[k][2] for k in range(2)] for x in range(Rn) for y in range(Cn)]
            if all(Fraction(3, 4) <= v <= Fraction(9, 2) for row in vals for v in row) and any(co[k][0] or co[k][1] for k in range(2)):
                break
        case["coef"] = [[str(c) for c in cc] for cc in co]
        if kind == "plane_pos":
            # explicit non-collinear dyadic probe positions (origin model only)
            while True:
                pos = [[Fraction(r.randint(0, 24), 4), Fraction(r.randint(0, 24), 4)] for _ in range(Rn * Cn)]
                (x0, y0), (x1, y1), (x2, y2) = pos[0], pos[1], pos[2]
                # well-conditioned: the first three positions span a triangle of area >= 1
                if abs((x1 - x0) * (y2 - y0) - (x2 - x0) * (y1 - y0)) >= 2 and len({tuple(p) for p in pos}) == len(pos):
                    break
            case["pos"] = [[str(a), str(b)] for a, b in pos]
    return case


def _F(s):
    return Fraction(s)


def fit_case_run(ctx: Ctx, case):
    """returns (oracle_failures, coq_expr or None, post(v) -> correspondence failures)"""
    from quantem.diffractive_imaging.ptycho_utils import fit_origin
    Rn, Cn = case["Rn"], case["Cn"]
    n = Rn * Cn
    sub = case["sub"]
    bad = []
    H, W = 7, 6
    if sub == "lsq":
        return lsq_case_run(ctx, case)
    if sub == "const":
        k = [_F(x) for x in case["k"]]
        fitted, _ = run_origin_fit([[float(k[0]), float(k[1])]] * n, "constant", None, (Rn, Cn, H, W))
        if not all(close(float(fitted[i, j]), k[j]) for i in range(n) for j in range(2)):
            bad.append(("const-fit-origin-model", "constant fit of constant origins %s returned %s" % (case["k"], fitted[0].tolist())))
        fr, fc, _, _ = fit_origin((np.full((Rn, Cn), float(k[0])), np.full((Rn, Cn), float(k[1]))),
                                  mask=np.ones((Rn, Cn), bool), fit_function="constant")
        if not (all(close(float(x), k[0]) for x in fr.ravel()) and all(close(float(x), k[1]) for x in fc.ravel())):
            bad.append(("const-fit-fit_origin", "fit_origin(constant) of constant data %s returned %s, %s"
                        % (case["k"], fr.ravel()[:2].tolist(), fc.ravel()[:2].tolist())))
        # tie of the model (constant fit = arithmetic mean) on the inputs the property speaks
        # about: constant origins
        expr = "(showp (fit_constant_origin %s %s), showm (fit_origin_constant %s))" % (
            "[" + "; ".join([cq(k[0])] * n) + "]", "[" + "; ".join([cq(k[1])] * n) + "]",
            "[" + "; ".join("[" + "; ".join([cq(k[0])] * Cn) + "]" for _ in range(Rn)) + "]")

        def post(v):
            out = []
            (m0, m1), grid = v
            m0, m1 = fr_of(m0), fr_of(m1)
            if not all(close(float(fitted[i, 0]), m0) and close(float(fitted[i, 1]), m1) for i in range(n)):
                out.append(("const-fit-correspondence", "fit_origin_background('constant') = %s, model = (%s, %s)"
                            % (fitted[0].tolist(), m0, m1)))
            if not all(close(float(fr[i, j]), fr_of(grid[i][j])) for i in range(Rn) for j in range(Cn)):
                out.append(("const-fit-correspondence", "fit_origin(constant) = %s, model = %s" % (fr[0, 0], fr_of(grid[0][0]))))
            ctx.cov["traces_validated_against_impl"] += 2
            return out
        return bad, expr, post
    if sub == "e2e_const":
        k = [_F(x) for x in case["k"]]
        u, v_ = profile_with_com(H, k[0]), profile_with_com(W, k[1])
        pat = np.outer(u, v_).astype(np.float32)
        I4 = np.broadcast_to(pat, (Rn, Cn, H, W)).copy()
        designed = np.array([float(k[0]), float(k[1])], dtype=np.float32)[:, None, None] * np.ones((2, Rn, Cn), np.float32)
        for vec in (True, False):
            cm, cf = run_dataset_model(I4, None, vec, fit_function="constant")
            if not np.array_equal(cm, designed):
                bad.append(("com-vectorised-value" if vec else "com-looped-vs-vectorised",
                            "_set_intensities_com(vectorized_calculation=%s): patterns built with CoM (row, col) = %s "
                            "but com_measured = %s" % (vec, case["k"], cm[:, 0, 0].tolist())))
            # the fit clause proper: the measured origins are constant, the fit must return them
            if not np.all(np.abs(cf.astype(np.float64) - cm) <= TOL_REL * np.maximum(1, np.abs(cm))):
                bad.append(("const-fit-dataset-model", "_set_intensities_com(fit_function='constant', vectorized=%s): constant "
                            "measured origins %s but com_fit %s" % (vec, cm[:, 0, 0].tolist(), cf[:, 0, 0].tolist())))
        from quantem.diffractive_imaging.origin_models import CenterOfMassOriginModel
        om = CenterOfMassOriginModel.from_dataset(_dataset(I4))
        om.calculate_origin(r_batch(ctx, n)).fit_origin_background(fit_method="constant")
        of = om.origin_fitted.numpy()
        if not all(close(float(of[i, j]), k[j]) for i in range(n) for j in range(2)):
            bad.append(("const-fit-origin-model", "calculate_origin + constant fit on identical patterns with CoM %s gives %s"
                        % (case["k"], of[0].tolist())))
        ctx.cov["traces_validated_against_impl"] += 3
        return bad, None, None
    # ---- planes
    co = [[_F(c) for c in cc] for cc in case["coef"]]
    if sub == "plane_pos":
        pos = [[_F(a), _F(b)] for a, b in case["pos"]]
    else:
        pos = [[Fraction(x), Fraction(y)] for x in range(Rn) for y in range(Cn)]
    vals = [[co[k][0] * x + co[k][1] * y + co[k][2] for k in range(2)] for x, y in pos]
    fvals = np.array([[float(a), float(b)] for a, b in vals])
    if sub == "e2e_plane":
        I4 = np.zeros((Rn, Cn, H, W), dtype=np.float32)
        for i, (a, b) in enumerate(vals):
            I4[i // Cn, i % Cn] = np.outer(profile_with_com(H, a), profile_with_com(W, b))
        ref = fvals.T.reshape(2, Rn, Cn)
        ff = case.get("ff", "plane")
        for vec in (True, False):
            import warnings
            with warnings.catch_warnings():
                warnings.simplefilter("ignore")
                cm, cf = run_dataset_model(I4, None, vec, fit_function=ff)
            if not np.array_equal(cm.astype(np.float64), ref):
                bad.append(("com-vectorised-value" if vec else "com-looped-vs-vectorised",
                            "_set_intensities_com(vectorized_calculation=%s): patterns built with CoM exactly on the planes "
                            "(row; col) %s but com_measured - plane = %g" % (vec, case["coef"], np.abs(cm - ref).max())))
            # the fit clause proper: the measured origins lie on planes, the fit must return them
            if not np.all(np.abs(cf.astype(np.float64) - cm) <= TOL_LSQ * np.maximum(1, np.abs(cm))):
                bad.append(("plane-fit-dataset-model" if ff == "plane" else "plane-fit-dataset-model-%s" % ff,
                            "_set_intensities_com(fit_function=%r, vectorized=%s): measured "
                            "origins lie exactly on planes but com_fit - com_measured = %g" % (ff, vec, np.abs(cf - cm).max())))
        from quantem.diffractive_imaging.origin_models import CenterOfMassOriginModel
        om = CenterOfMassOriginModel.from_dataset(_dataset(I4))
        om.calculate_origin(r_batch(ctx, n)).fit_origin_background(fit_method="plane")
        of = om.origin_fitted.numpy()
        if not np.all(np.abs(of - fvals) <= TOL_PLANE):
            bad.append(("plane-fit-origin-model", "calculate_origin + plane fit: CoM lie exactly on planes %s but "
                        "origin_fitted - plane = %s" % (case["coef"], np.abs(of - fvals).max())))
        ctx.cov["traces_validated_against_impl"] += 3
        return bad, None, None
    fitted, elog = run_origin_fit(fvals.tolist(), "plane", None if sub == "plane" else [[float(a), float(b)] for a, b in pos],
                                  (Rn, Cn, H, W))
    err = float(np.abs(fitted - fvals).max())
    ctx.cov["plane_fit_max_err"] = max(ctx.cov.get("plane_fit_max_err", 0.0), err)
    if not err <= TOL_PLANE:
        bad.append(("plane-fit-origin-model", "fit_origin_background('plane') of origins exactly on the planes %s "
                    "(positions %s) deviates by %g" % (case["coef"], "scan grid" if sub == "plane" else case["pos"], err)))
    if sub == "plane":
        g = [fvals[:, k].reshape(Rn, Cn) for k in range(2)]
        fr, fc, _, _ = fit_origin((g[0], g[1]), mask=np.ones((Rn, Cn), bool), fit_function="plane")
        e2 = max(np.abs(fr - g[0]).max(), np.abs(fc - g[1]).max())
        if not e2 <= TOL_LSQ:
            bad.append(("plane-fit-fit_origin", "fit_origin('plane') of data exactly on the planes %s deviates by %g"
                        % (case["coef"], e2)))
    # the eigh contract, numerically, on what LAPACK returned + the model on the same normal
    exprs, contract_bad = [], []
    for k in range(2):
        cov, evals, evecs = elog[k]
        nvec = evecs[:, 0].astype(np.float64)
        v0 = np.array([float(co[k][0]), float(co[k][1]), -1.0])
        scale = max(np.abs(cov).max(), 1e-30)
        res = np.abs(cov @ nvec - evals[0] * nvec).max() / scale
        par = np.linalg.norm(np.cross(nvec, v0)) / np.linalg.norm(v0)
        ok = np.linalg.norm(nvec) > 0.5 and res <= 1e-4 and evals[0] <= evals[1] + 1e-6 * scale and par <= 1e-3
        ctx.dist("plane/eigh_contract=%s" % ("met" if ok else "NOT met"))
        if not ok:
            contract_bad.append("component %d: |n|=%g residual=%g eigenvalues=%s cross=%g" % (
                k, np.linalg.norm(nvec), res, evals.tolist(), par))
        pts = "[" + "; ".join("mk3 %s %s %s" % (cq(x), cq(y), cq(vals[i][k])) for i, (x, y) in enumerate(pos)) + "]"
        nq = "(mk3 %s %s %s)" % tuple(cq(Fraction(float(t))) for t in evecs[:, 0])
        exprs.append("plane_case %s %s" % (pts, nq))
    if contract_bad:
        bad_or = bool(bad)
        bad.append(("plane-eigh-contract" if not bad_or else "plane-eigh-contract+fit",
                    "torch.linalg.eigh did not deliver the assumed eigenvector: " + "; ".join(contract_bad)))

    def post(v):
        out = []
        for k in range(2):
            fit_m = v[k]
            for i in range(n):
                if abs(Fraction(float(fitted[i, k])) - fr_of(fit_m[i])) > Fraction(TOL_PLANE):
                    out.append(("plane-fit-correspondence", "origin_fitted[%d,%d] = %r but the model (same eigenvector) "
                                "gives %s" % (i, k, float(fitted[i, k]), float(fr_of(fit_m[i])))))
                    break
        ctx.cov["traces_validated_against_impl"] += 2
        return out
    return bad, "[%s; %s]" % (exprs[0], exprs[1]), post


def r_batch(ctx, n):
    return ctx.rng.choice([1, 2, n, n + 1, None, max(1, n - 1)])


def check_fits(ctx: Ctx):
    r = ctx.rng
    cases = [dict(c) for c in _corpus().get("fit", [])]
    for _ in range(ctx.budget(60, 800)):
        cases.append(gen_fit_case(r))
    for _ in range(ctx.budget(40, 500)):
        cases.append(gen_lsq_case(r))
    exprs, posts, owners = [], [], []
    failed = {}
    for ci, case in enumerate(cases):
        bad, expr, post = fit_case_run(ctx, case)
        ctx.dist("fit/%s" % case["sub"])
        if case["sub"] == "lsq":
            ctx.dist("fit/lsq/%s-on-%s" % (case["ff"], case["family"]))
        if case["sub"] == "e2e_plane":
            ctx.dist("fit/e2e_plane/fit_function=%s" % case.get("ff", "plane"))
        ctx.count(("fit", json.dumps(case, sort_keys=True)), nontrivial=case["sub"] not in ("const", "lsq") or
                  (case["sub"] == "const" and case["k"][0] != case["k"][1]) or
                  (case["sub"] == "lsq" and case["coef"][0] != case["coef"][1]))
        failed[ci] = bool(bad)
        for key, what in bad:
            ctx.violation(key, what, dict(case), found_input=not key.startswith("plane-eigh-contract") or key.endswith("+fit"))
        if expr is not None:
            exprs.append(expr)
            posts.append(post)
            owners.append(ci)
    xt = cross_test(ctx, "fit", [(k, e) for k, e in enumerate(exprs) if e.startswith("fam_case") and (not ctx.quick or k % 2 == 0)], 3,
                    lambda k, gv: posts[k](gv), lambda k: dict(cases[owners[k]]))
    vals = coq_vals(ctx, "fit", exprs, 6)
    xt()
    nd = 0
    for v, post, ci in zip(vals, posts, owners):
        for key, what in post(v):
            nd += 1
            ctx.cov["disagreements_checked"] += 1
            ctx.violation(key, "model and implementation disagree: " + what, dict(cases[ci]), found_input=failed[ci])
    ctx.log("fits: %d cases (%d with a model evaluation), %d disagreements; max plane-fit error %.3g; max relative "
            "curve_fit error on exact data %.3g" % (len(cases), len(exprs), nd, ctx.cov.get("plane_fit_max_err", 0.0),
                                                    ctx.cov.get("lsq_fit_max_rel_err", 0.0)))


# ------------------------------------------------------------------------------------------
# shift

SHIFT_DETS = [(2, 3), (3, 2), (3, 5), (5, 3), (5, 9), (4, 6), (6, 4), (3, 7), (7, 5), (2, 9), (4, 4), (5, 5), (9, 2)]
# "all detector shapes": a dimension of 1 (line detector, single pixel)
SHIFT_DETS_UNIT = [(1, 4), (4, 1), (1, 1), (1, 7), (6, 1)]


def gen_shift_case(r, unit=False):
    H, W = r.choice(SHIFT_DETS_UNIT if unit else SHIFT_DETS)
    Rn, Cn = r.choice([(1, 2), (2, 3), (3, 2), (2, 2), (1, 5), (3, 3)])
    n = Rn * Cn
    pats = [[[r.randint(1, 250) for _ in range(W)] for _ in range(H)] for _ in range(n)]
    org = [[r.randint(-2 * H, 2 * H), r.randint(-2 * W, 2 * W)] for _ in range(n)]
    coord = r.choice([[0, 0], [0, 0], [r.randint(0, H - 1), r.randint(0, W - 1)], [r.randint(-3, 12), r.randint(-3, 12)]])
    return {"kind": "shift", "sub": "direct", "Rn": Rn, "Cn": Cn, "H": H, "W": W, "pats": pats, "org": org, "coord": coord,
            "mode": r.choice(["bilinear", "bilinear", "bilinear", "nearest", "bicubic"]),
            "batches": sorted({1, n, r.randint(1, n + 1)}) + [None]}


def gen_fshift_case(r):
    """non-integer origins (multiples of 1/den): OUTSIDE the property's claim, compared with the model
    only (C18_shift_general_exact) and never judged by the oracle"""
    H, W = r.choice(SHIFT_DETS)
    Rn, Cn = r.choice([(1, 2), (2, 2), (1, 3)])
    n = Rn * Cn
    den = r.choice([2, 4, 4, 8])
    pats = [[[r.randint(1, 250) for _ in range(W)] for _ in range(H)] for _ in range(n)]
    org = [[r.randint(-2 * H * den, 2 * H * den), r.randint(-2 * W * den, 2 * W * den)] for _ in range(n)]
    coord = r.choice([[0, 0], [r.randint(0, H - 1), r.randint(0, W - 1)]])
    return {"kind": "shift", "sub": "fractional", "Rn": Rn, "Cn": Cn, "H": H, "W": W, "pats": pats, "org": org,
            "den": den, "coord": coord, "mode": "bilinear", "batches": [r.choice([1, n, None])]}


def shift_impl(case, all_batches=False):
    import torch
    from quantem.diffractive_imaging.origin_models import CenterOfMassOriginModel
    Rn, Cn, H, W = case["Rn"], case["Cn"], case["H"], case["W"]
    n = Rn * Cn
    om = CenterOfMassOriginModel.from_dataset(_dataset(np.array(case["pats"], dtype=np.float32).reshape(Rn, Cn, H, W)))
    om.origin_fitted = torch.tensor(np.array(case["org"], dtype=np.float64) / case.get("den", 1)).float()
    out = {}
    for b in (list(range(1, n + 2)) + [None] if all_batches else case["batches"]):
        om.shift_origin_to(tuple(case["coord"]), b, case.get("mode", "bilinear"))
        out[b] = om.shifted_tensor.detach().cpu().numpy().reshape(n, H, W).copy()
    return out


def shift_reference(case):
    """the property text: circular roll that brings the pixel at the origin to `coord`"""
    cy, cx = case["coord"]
    return np.stack([np.roll(np.array(p, dtype=np.float64), (-(oy - cy), -(ox - cx)), axis=(0, 1))
                     for p, (oy, ox) in zip(case["pats"], case["org"])])


def pow2(k):
    return k >= 1 and (k & (k - 1)) == 0


def shift_oracle(case, obs):
    bad = []
    if case.get("sub") == "fractional":
        return bad                      # the property speaks about integer-valued origins only
    ref = shift_reference(case)
    mode = case.get("mode", "bilinear")
    # a dimension of 1 has the single coordinate 0: nothing rounds along it
    exact = mode == "nearest" or all(pow2(k - 1) or k == 1 for k in (case["H"], case["W"]))
    tol = 0.0 if exact else TOL_SHIFT_REL * (4 if mode == "bicubic" else 1) * float(np.max(ref))
    first = None
    for b, out in obs.items():
        if first is None:
            first = out
        if min(case["H"], case["W"]) == 1 and not np.all(np.isfinite(out)):
            bad.append(("shift-unit-dimension-nan",
                        "shift_origin_to(%s, max_batch_size=%s) on a %d x %d detector with integer origins %s returns "
                        "non-finite values (%d of %d entries; 2*s/(size-1) with size = 1), the circular roll is %s"
                        % (tuple(case["coord"]), b, case["H"], case["W"], case["org"][:2],
                           int(np.sum(~np.isfinite(out))), out.size, ref[0].tolist())))
            break
        err = float(np.max(np.abs(out.astype(np.float64) - ref)))
        if not err <= tol:
            i = int(np.argmax(np.abs(out.astype(np.float64) - ref).reshape(len(ref), -1).max(axis=1)))
            bad.append(("shift-unit-dimension-not-roll" if min(case["H"], case["W"]) == 1 else "shift-not-roll",
                        "shift_origin_to(%s, max_batch_size=%s, mode=%r) with integer origin %s is not the circular "
                        "roll by %s of pattern %d: max |diff| = %g (tolerance %g); got %s, roll %s" % (
                            tuple(case["coord"]), b, mode, case["org"][i],
                            (-(case["org"][i][0] - case["coord"][0]), -(case["org"][i][1] - case["coord"][1])), i, err, tol,
                            out[i].tolist(), ref[i].tolist())))
            break
        if not np.array_equal(out, first):
            bad.append(("shift-batch-dependence", "shift_origin_to gives different results for max_batch_size=%s" % (b,)))
            break
    return bad


def shift_expr(case):
    from ..common import cnat
    cy, cx = case["coord"]
    pats = "[" + "; ".join("(%s, %s, %s%%Z)" % (cz(oy), cz(ox), c2(p)) for p, (oy, ox) in zip(case["pats"], case["org"])) + "]"
    if case.get("sub") == "fractional":
        return "fshift_case %s %s %d%%positive %s %s %s" % (cnat(case["H"]), cnat(case["W"]), case["den"], cz(cy), cz(cx), pats)
    return "shift_case %s %s %s %s %s" % (cnat(case["H"]), cnat(case["W"]), cz(cy), cz(cx), pats)


def shift_correspond(case, obs, v):
    bad = []
    mats, is_roll = v
    if not is_roll:
        bad.append(("shift-model-internal", "the Coq grid model is not the roll on this instance"))
    if case.get("mode", "bilinear") != "bilinear":
        return bad                      # the model is the bilinear sampler; other modes: oracle only
    exact = all(pow2(k - 1) or k == 1 for k in (case["H"], case["W"]))
    model = np.array([[[float(fr_of(q)) for q in row] for row in m] for m in mats])
    tol = 0.0 if exact else TOL_SHIFT_REL * float(np.max(model))
    for b, out in obs.items():
        err = float(np.max(np.abs(out.astype(np.float64) - model)))
        if not err <= tol:
            bad.append(("shift-correspondence", "shift_origin_to(max_batch_size=%s) and the grid model differ by %g" % (b, err)))
            break
    return bad


def e2e_shift_case(r):
    """forward(): identical centro-symmetric (but row/column different) patterns on odd detectors:
    CoM = detector centre exactly -> constant fit integer -> shift = roll by -centre"""
    H, W = r.choice([(3, 5), (5, 3), (5, 7), (7, 5), (5, 9), (3, 7)])
    Rn, Cn = r.choice([(2, 3), (3, 2), (1, 4)])
    half_u = [r.randint(1, 40) for _ in range(H // 2 + 1)]
    half_v = [r.randint(1, 40) for _ in range(W // 2 + 1)]
    u = half_u[:-1] + half_u[::-1]
    v = half_v[:-1] + half_v[::-1]
    scal = [r.randint(1, 5) for _ in range(Rn * Cn)]
    pats = [[[s * a * b for b in v] for a in u] for s in scal]
    return {"kind": "shift", "sub": "forward", "Rn": Rn, "Cn": Cn, "H": H, "W": W, "pats": pats,
            "org": [[H // 2, W // 2]] * (Rn * Cn), "coord": [0, 0], "batches": [r.choice([1, 2, None])]}


def shift_forward_impl(case):
    from quantem.diffractive_imaging.origin_models import CenterOfMassOriginModel
    Rn, Cn, H, W = case["Rn"], case["Cn"], case["H"], case["W"]
    om = CenterOfMassOriginModel.from_dataset(_dataset(np.array(case["pats"], dtype=np.float32).reshape(Rn, Cn, H, W)))
    b = case["batches"][0]
    om.forward(max_batch_size=b, fit_method="constant", estimate_detector_orientation=False,
               origin_coordinate=tuple(case["coord"]))
    return {b: om.shifted_tensor.detach().cpu().numpy().reshape(Rn * Cn, H, W).copy()}, om.origin_fitted.numpy().copy()


def check_shift(ctx: Ctx):
    r = ctx.rng
    cases = [dict(c) for c in _corpus().get("shift", [])]
    for _ in range(ctx.budget(40, 600)):
        cases.append(gen_shift_case(r))
    for _ in range(ctx.budget(8, 100)):
        cases.append(gen_shift_case(r, unit=True))
    for _ in range(ctx.budget(8, 80)):
        cases.append(e2e_shift_case(r))
    for _ in range(ctx.budget(12, 150)):
        cases.append(gen_fshift_case(r))
    obs_all, exprs = [], []
    frac = {"cases": 0, "model_agrees": 0, "seam_theorem_instances_ok": 0, "max_rel_dev": 0.0}
    for i, case in enumerate(cases):
        if case["sub"] == "fractional":
            obs = shift_impl(case)
        elif case["sub"] == "forward":
            obs, of = shift_forward_impl(case)
            if not np.array_equal(of, np.array(case["org"], dtype=np.float32)):
                ctx.violation("const-fit-origin-model", "forward(): patterns symmetric about the detector centre %s but the "
                              "constant-fitted origin is %s" % (case["org"][0], of[0].tolist()), dict(case))
        else:
            obs = shift_impl(case, all_batches=(not ctx.quick) or i % 5 == 0)
        obs_all.append(obs)
        exprs.append(shift_expr(case))
        ctx.dist("shift/%s" % case["sub"])
        ctx.dist("shift/mode=%s" % case.get("mode", "bilinear"))
        ctx.dist("shift/detector=%s" % ("unit dimension" if min(case["H"], case["W"]) == 1 else
                                        "exact(size-1 pow2)" if pow2(case["H"] - 1) and pow2(case["W"] - 1) else "rounded"))
        ctx.dist("shift/wraps=%s" % ("yes" if any(not (0 <= o[0] - case["coord"][0] < case["H"]) for o in case["org"]) else "no"))
        ctx.count(("shift", json.dumps(case, sort_keys=True)),
                  nontrivial=case["H"] != case["W"] and any((o[0] - case["coord"][0]) % case["H"] or
                                                            (o[1] - case["coord"][1]) % case["W"] for o in case["org"]))
        for key, what in shift_oracle(case, obs):
            ctx.violation(key, what, dict(case))
    xt = cross_test(ctx, "shift", [(i, exprs[i]) for i, c in enumerate(cases) if c["sub"] != "fractional" and i % (3 if ctx.quick else 2) == 0], 2 if ctx.quick else 6,
                    lambda i, gv: shift_correspond(cases[i], obs_all[i], gv), lambda i: dict(cases[i]))
    vals = coq_vals(ctx, "shift", exprs, 6)
    xt()
    nd = 0
    for case, obs, v in zip(cases, obs_all, vals):
        if case["sub"] == "fractional":
            # informational only: the property does not constrain non-integer shifts, so a change of
            # the seam treatment is not a violation; the evidence records whether the theorem
            # C18_shift_general_exact still describes the code
            frac["cases"] += 1
            model = np.array([[[float(fr_of(q)) for q in row] for row in m] for m, _ in v])
            out = list(obs.values())[0].astype(np.float64)
            dev = float(np.max(np.abs(out - model))) / 250.0 if np.all(np.isfinite(out)) else float("inf")
            frac["max_rel_dev"] = max(frac["max_rel_dev"], dev)
            frac["model_agrees"] += dev <= TOL_SHIFT_REL
            frac["seam_theorem_instances_ok"] += all(ok for _, ok in v)
            ctx.dist("shift/fractional_model_%s" % ("agrees" if dev <= TOL_SHIFT_REL else "DISAGREES(informational)"))
            continue
        ctx.cov["traces_validated_against_impl"] += len(obs)
        bad = shift_correspond(case, obs, v)
        orc = shift_oracle(case, obs) if bad else []
        for key, what in bad:
            nd += 1
            ctx.cov["disagreements_checked"] += 1
            ctx.violation(key, "model and implementation disagree: " + what, dict(case), found_input=bool(orc))
    c0 = cases[0]
    ctx.sample({"kind": "shift", "case": {k: c0[k] for k in ("H", "W", "coord")}, "origin": c0["org"][0],
                "pattern": c0["pats"][0], "impl": list(obs_all[0].values())[0][0].tolist()})
    ctx.cov["fractional_shift_informational"] = frac
    ctx.log("shift: %d cases, %d disagreements; non-integer shifts (informational): %s" % (len(cases), nd, frac))


# ------------------------------------------------------------------------------------------

def _corpus():
    from ..common import VERIF
    p = VERIF / "corpus" / "C18" / "corpus.json"
    return json.loads(p.read_text()) if p.exists() else {}


def run(ctx: Ctx):
    ctx.hash_sources("diffractive_imaging/origin_models.py",
                     ["CenterOfMassOriginModel.calculate_origin", "CenterOfMassOriginModel.fit_origin_background",
                      "CenterOfMassOriginModel.shift_origin_to", "CenterOfMassOriginModel.forward"])
    ctx.hash_sources("diffractive_imaging/dataset_models.py",
                     ["PtychographyDatasetRaster._set_intensities_com", "PtychographyDatasetRaster.preprocess"])
    ctx.hash_sources("diffractive_imaging/ptycho_utils.py", ["fit_origin", "SimpleBatcher"])
    ctx.cov["rule"] = (
        "com: (scan shape, detector shape, dataset dtype uint16/float32/float64, optional detector mask: 0/1 random, 0/1 "
        "with a fully masked interior row/column, or fractional quarters; integer intensities 1..312 with hot pixels; "
        "40% with power-of-two totals so the exact CoM is a float32) run through calculate_origin for every batch size "
        "1..num+1 and None, both numpy paths directly and via preprocess, and a 5-call history (both paths, mask / no "
        "mask) on one dataset and one array; fit: constant / plane on the "
        "scan grid / plane on explicit dyadic positions / end-to-end from separable patterns with prescribed dyadic CoM "
        "(fit_function plane, parabola, bezier_two) / fit_origin for every curve_fit family on constant, plane and "
        "own-family dyadic surfaces (#scan points >= #parameters); "
        "shift: integer per-pattern origins in [-2H,2H]x[-2W,2W], integer target coordinate, several batch sizes (all of "
        "them for every 5th case), modes bilinear/nearest/bicubic, detectors with a dimension of 1, plus forward() end "
        "to end; non-integer origins (multiples of 1/2..1/8) are compared with the model only (informational).  "
        "A case is distinct by its full input; non-trivial when "
        "the detector is non-square and row/column CoM differ (com), the surface is not the same in both "
        "components (fit), the shift is not a multiple of the detector size (shift)")
    ctx.assumptions += [
        "torch.linalg.eigh returns, as column 0, a non-zero eigenvector of the smallest eigenvalue (eigh_min_contract); "
        "checked numerically on every plane case, and the returned eigenvector is handed to the model as an oracle input",
        "scipy.optimize.curve_fit returns a least-squares minimiser (premise of C18_lsq_fit_exact, "
        "C18_lsq_any_family_fits_plane, C18_lsq_bezier2_fits_parabola); exercised for plane, parabola and bezier_two, "
        "also on rank-deficient grids (2 x k scans); needs #scan points >= #parameters (scipy raises otherwise)",
        "F.grid_sample(mode=nearest / bicubic) at integer pixel coordinates returns that pixel (oracle only, not modelled)",
        "F.grid_sample(bilinear, align_corners=True, zeros padding) is bilinear interpolation of the 4 neighbours "
        "(modelled by `bilinear`); exercised by every shift case",
        "float32/float64 sums of the generated integer-valued intensities are exact (all partial sums < 2^24); only the "
        "final division rounds",
    ]
    ctx.cov["trusted_base"] += [
        "Coq 8.16.1 kernel incl. vm_compute (used to run the model); no native_compute",
        "hand-written model coq/model/C18_Model.v + coq/lib/C18_QTensor.v tied to /repo by this correspondence run and, for "
        "the anchored functions, by the translator tie theorems of coq/gen_proofs/C18_GenProperties.v (re-proved on every run)",
        "harness/props/C18.py (generators, float64 reference, Python->Coq printers), harness/common.py",
        "theorems are over Q: the plane-fit theorem covers every rational multiple of the normal (the real unit "
        "eigenvector is in general irrational; the algebra is scale invariant)",
    ]
    ctx.proofs_or_violation()
    # round 4: the anchored functions translated from the CURRENT source and tied to the model by theorems re-proved on
    # this run (worker thread: its coqc processes run while the implementation cases execute; joined by tie_join)
    from concurrent.futures import ThreadPoolExecutor
    from ..translate_C18 import run_tie
    GEN.update({"gen_compiled": False, "tie_ok": False})
    _TIE_FUTURE.append(ThreadPoolExecutor(max_workers=1).submit(run_tie, ctx))
    import torch  # noqa: F401  (import cost outside the timed sections)
    torch.set_num_threads(2)
    check_com(ctx)
    check_fits(ctx)
    check_shift(ctx)
    tie_join(ctx)


def replay(ctx: Ctx, path):
    rp = json.loads(open(path).read())
    kind = rp.get("kind")
    if kind == "com":
        obs = com_impl(rp)
        bad = com_oracle(rp, obs)
        ref_r, ref_c = reference_com(rp["I4"], mask_array(rp))
        print("input: scan %dx%d detector %dx%d mask=%s" % (rp["Rn"], rp["Cn"], rp["H"], rp["W"], rp["mask"]))
        print("I4 =", rp["I4"])
        print("float64 reference (row; col):", ref_r.tolist(), ref_c.tolist())
        print("vectorised com_measured:", obs["vec"].tolist())
        print("looped     com_measured:", obs["loop"].tolist())
        print("origin model (b=1):", obs["origin"][1].T.tolist())
        for label, cm, untouched in obs["history"]:
            print("history on one array: %-22s com_measured = %s   caller's array unchanged: %s" % (label, cm.tolist(), untouched))
        v = coq_vals(ctx, "replay", [com_expr(rp)], 1)[0]
        print("model (row; col):", [[str(fr_of(q)) for row in comp for q in row] for comp in v[:2]])
        for key, what in bad:
            print("oracle: [%s] %s" % (key, what))
        if not bad:
            print("oracle: property holds on this case")
        return 1 if bad else 0
    if kind == "shift":
        obs = shift_forward_impl(rp)[0] if rp.get("sub") == "forward" else shift_impl(rp, all_batches=True)
        bad = shift_oracle(rp, obs)
        print("input:", {k: rp[k] for k in ("H", "W", "coord", "org")})
        for key, what in bad:
            print("oracle: [%s] %s" % (key, what))
        if not bad:
            print("oracle: property holds on this case")
        return 1 if bad else 0
    if kind == "fit":
        bad, expr, post = fit_case_run(ctx, rp)
        print("input:", {k: v for k, v in rp.items() if k in ("sub", "Rn", "Cn", "k", "coef", "pos", "vals")})
        if expr is not None:
            bad = bad + post(coq_vals(ctx, "replay", [expr], 1)[0])
        for key, what in bad:
            print("oracle/correspondence: [%s] %s" % (key, what))
        if not bad:
            print("oracle: property holds on this case")
        return 1 if bad else 0
    print("replay of kind %r: re-run ./check C18" % kind)
    return 0
