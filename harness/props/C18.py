"""C18 — centre-of-mass origin estimation is exact, path-independent and batch-invariant.

Theorems: coq/props/C18_Properties.v (exact rationals).  Tie to /repo:

* CoM: integer-valued positive intensities (exact in float32/float64) on non-square scans and
  detectors, optional detector masks; the real CenterOfMassOriginModel.calculate_origin for EVERY
  batch size 1..num (+1, None), the real PtychographyDatasetRaster._set_intensities_com on its
  vectorised and its looped path (and through preprocess), against (1) a float64 reference of
  the property text and (2) the Coq model evaluated with vm_compute on the same integers.
  Where the exact rational is a float32 the implementation must return exactly it.
* fits: constant / plane with dyadic coefficients through fit_origin_background (PCA; the
  eigenvectors torch.linalg.eigh returned are handed to the model as an oracle input and the
  eigh contract is checked numerically), through fit_origin and end to end from patterns whose
  CoM lies exactly on the surface.
* shift: integer per-pattern origins, integer target coordinates, several batch sizes:
  shift_origin_to vs np.roll and vs the Coq model of the grid arithmetic + bilinear sampling.
"""
from __future__ import annotations

import json
from fractions import Fraction

import numpy as np

from ..common import Ctx, cq, cz

PRE = """From QV.lib Require Import Prelude Chunks C18_QTensor.
From QV.model Require Import C18_Model.
From Coq Require Import QArith.
Local Close Scope Q_scope.
Fixpoint leqb {A : Type} (e : A -> A -> bool) (a b : list A) : bool :=
  match a, b with
  | [], [] => true
  | x :: a', y :: b' => e x y && leqb e a' b'
  | _, _ => false
  end.
Definition qleqb := leqb (leqb Z.eqb).
Definition mleqb := leqb qleqb.
Definition zI4 (x : list (list (list (list Z)))) : list (list matrix) := map (map zmat) x.
Definition com_case (Rn Cn H W : nat) (mask : option (list (list Z))) (x : list (list (list (list Z)))) :=
  let I4 := zI4 x in
  let m := option_map zmat mask in
  let v := com_vectorised H W m I4 in
  let l := com_looped Rn Cn H W m I4 in
  let flat := concat (map (map (apply_mask m)) I4) in
  let n := length flat in
  let o1 := calculate_origin 1 H W flat in
  let all_b := forallb (fun b => let o := calculate_origin b H W flat in
                                 qleqb (showol (fst o)) (showol (fst o1)) && qleqb (showol (snd o)) (showol (snd o1)))
                       (seq 1 (n + 2)) in
  (showm (fst v), showm (snd v),
   (mleqb (showm (fst l)) (showm (fst v)) && mleqb (showm (snd l)) (showm (snd v)),
    all_b,
    qleqb (showol (fst o1)) (concat (showm (fst v))) && qleqb (showol (snd o1)) (concat (showm (snd v))))).
Definition shift_case (H W : nat) (cy cx : Z) (pats : list (Z * Z * list (list Z))) :=
  (map (fun t => let '(oy, ox, pat) := t in
                 showm (shift_pattern H W (qz oy) (qz ox) (qz cy) (qz cx) (zmat pat))) pats,
   forallb (fun t => let '(oy, ox, pat) := t in
                     mleqb (showm (shift_pattern H W (qz oy) (qz ox) (qz cy) (qz cx) (zmat pat)))
                           (showm (roll2 (- (oy - cy)) (- (ox - cx)) (zmat pat)))) pats).
Definition plane_case (pts : list P3) (n : P3) :=
  map (fun p => showq (plane_fitted pts n (px p) (py p))) pts.
"""

# float32: relative spacing 2^-23; one division (correctly rounded) or a float64 division
# followed by a cast (double rounding): at most 1 ulp <= 2^-22 |x|.  Margin x2.
TOL_REL = 2.0 ** -21
TOL_ABS = 2.0 ** -30
# PCA plane fit: float32 covariance + LAPACK eigh + float32 evaluation; measured worst case over
# 1500 generated plane cases: 4.8e-7 (scan grid), 2.1e-6 (explicit positions); values <= 8 pixels.
# Stated tolerance (about 100x margin):
TOL_PLANE = 2e-4
# least squares (float64 curve_fit, cast to float32 by the com_fit setter)
TOL_LSQ = 1e-5
# bilinear resampling at integer coordinates when (size-1) is not a power of two: the [-1,1]
# normalisation rounds in float32, weights differ from (1,0) by <= 2^-21 * size
TOL_SHIFT_REL = 2.0 ** -16


# ------------------------------------------------------------------------------------------
# printers / parser glue

def coq_vals(ctx: Ctx, name, exprs, shard):
    """ctx.coq_eval, with Coq's `(-5)%Z` rendering of negative numerals normalised first"""
    import re
    from ..common import parse_coq_value
    raw = ctx.coq_eval(name, PRE, exprs, shard=shard, parse=False)
    out = []
    for v in raw:
        v = re.sub(r"\s+", " ", v)
        v = re.sub(r"\(\s*(-\d+)\s*\)\s*%Z", r"\1", v)
        out.append(parse_coq_value(v))
    return out


def c2(m) -> str:
    return "[" + "; ".join("[" + "; ".join(str(int(v)) for v in row) + "]" for row in m) + "]"


def c4(a) -> str:
    return "[" + "; ".join("[" + "; ".join(c2(p) for p in row) + "]" for row in a) + "]%Z"


def fr_of(v) -> Fraction:
    """parsed [num; den] -> Fraction"""
    return Fraction(int(v[0]), int(v[1]))


def f32_exact(fr: Fraction) -> bool:
    x = np.float32(fr.numerator / fr.denominator)
    return Fraction(float(x)) == fr


def close(v: float, fr: Fraction, rel=TOL_REL, abs_=TOL_ABS) -> bool:
    if not np.isfinite(v):
        return False
    return abs(Fraction(float(v)) - fr) <= Fraction(rel) * abs(fr) + Fraction(abs_)


def agrees(v: float, fr: Fraction) -> bool:
    """exact where the rational is a float32, else within the stated tolerance"""
    if f32_exact(fr):
        return Fraction(float(v)) == fr
    return close(v, fr)


# ------------------------------------------------------------------------------------------
# running the implementation

def _dataset(I4):
    from quantem.core.datastructures import Dataset4dstem
    return Dataset4dstem.from_array(np.array(I4, dtype=np.float32), sampling=(1, 1, 1, 1),
                                    units=("A", "A", "A^-1", "A^-1"))


def run_origin_model(I4, batches):
    """CenterOfMassOriginModel.calculate_origin for each batch size -> {b: (n,2) float32 array}"""
    from quantem.diffractive_imaging.origin_models import CenterOfMassOriginModel
    om = CenterOfMassOriginModel.from_dataset(_dataset(I4))
    out = {}
    for b in batches:
        om.calculate_origin(b)
        out[b] = om.origin_measured.detach().cpu().numpy().copy()
    return out


def run_dataset_model(I4, mask, vectorised, fit_function="none", via_preprocess=False):
    """PtychographyDatasetRaster._set_intensities_com -> (com_measured, com_fit) each (2,R,C)"""
    from quantem.diffractive_imaging.dataset_models import PtychographyDatasetRaster
    ds = PtychographyDatasetRaster.from_dataset4dstem(_dataset(I4), verbose=0)
    if via_preprocess:
        assert mask is None
        ds.preprocess(com_fit_function=fit_function, plot_rotation=False, plot_com=False, probe_energy=80e3,
                      force_com_rotation=0, force_com_transpose=False, vectorized=vectorised)
    else:
        ds._set_intensities_com(ds.intensities_4d.copy(),
                                dp_mask=None if mask is None else np.array(mask, dtype=np.float32),
                                fit_function=fit_function, vectorized_calculation=vectorised)
    return np.array(ds.com_measured), np.array(ds.com_fit)


def reference_com(I4, mask):
    """the property text in float64: intensity-weighted mean (row, column) of every pattern"""
    a = np.array(I4, dtype=np.float64)
    if mask is not None:
        a = a * np.array(mask, dtype=np.float64)
    H, W = a.shape[-2:]
    tot = a.sum(axis=(-2, -1))
    r = np.tensordot(a.sum(axis=-1), np.arange(H, dtype=np.float64), axes=([-1], [0])) / tot
    c = np.tensordot(a.sum(axis=-2), np.arange(W, dtype=np.float64), axes=([-1], [0])) / tot
    return r, c


# ------------------------------------------------------------------------------------------
# CoM cases

def gen_pattern(r, H, W, mask, pow2):
    p = [[r.randint(1, 12) for _ in range(W)] for _ in range(H)]
    for _ in range(r.randint(0, 3)):          # a few hot pixels: asymmetric patterns
        p[r.randrange(H)][r.randrange(W)] += r.randint(20, 300)
    if pow2:                                   # masked total a power of two -> CoM dyadic
        live = [(i, j) for i in range(H) for j in range(W) if mask is None or mask[i][j]]
        s = sum(p[i][j] for i, j in live)
        tgt = 1 << max(1, (s - 1).bit_length())
        i, j = r.choice(live)
        p[i][j] += tgt - s
    return p


def gen_com_case(r, quick=True):
    shapes = [(1, 3), (2, 3), (3, 2), (2, 4), (3, 4), (4, 3), (1, 1), (2, 2), (4, 1), (3, 5)]
    dets = [(2, 3), (3, 2), (3, 5), (5, 3), (4, 6), (5, 7), (7, 4), (2, 5), (1, 4), (4, 1), (3, 3), (6, 5)]
    Rn, Cn = r.choice(shapes if quick else shapes + [(5, 4), (4, 6)])
    H, W = r.choice(dets)
    mask = None
    if r.random() < 0.45 and H * W > 1:
        while True:
            mask = [[1 if r.random() < 0.7 else 0 for _ in range(W)] for _ in range(H)]
            s = sum(map(sum, mask))
            if 0 < s < H * W:
                break
    pow2 = r.random() < 0.4
    I4 = [[gen_pattern(r, H, W, mask, pow2) for _ in range(Cn)] for _ in range(Rn)]
    return {"kind": "com", "Rn": Rn, "Cn": Cn, "H": H, "W": W, "mask": mask, "pow2": pow2, "I4": I4}


def com_impl(case):
    """all implementation observables of one CoM case"""
    I4, mask = case["I4"], case["mask"]
    n = case["Rn"] * case["Cn"]
    masked = (np.array(I4, dtype=np.float32) * (1 if mask is None else np.array(mask, dtype=np.float32))).tolist()
    batches = list(range(1, n + 2)) + [None]
    obs = {"origin": run_origin_model(masked, batches)}
    obs["vec"] = run_dataset_model(I4, mask, True)[0]
    obs["loop"] = run_dataset_model(I4, mask, False)[0]
    if mask is None:
        obs["vec_pre"] = run_dataset_model(I4, None, True, via_preprocess=True)[0]
        obs["loop_pre"] = run_dataset_model(I4, None, False, via_preprocess=True)[0]
    return obs


def com_oracle(case, obs):
    """the property text evaluated on the implementation's output -> list of (key, what)"""
    bad = []
    Rn, Cn = case["Rn"], case["Cn"]
    ref_r, ref_c = reference_com(case["I4"], case["mask"])
    ref = np.stack([ref_r, ref_c])                       # (2, R, C): row then column
    tol = TOL_REL * np.maximum(np.abs(ref), 1.0)

    def off(a):
        return not np.all(np.abs(np.asarray(a, dtype=np.float64) - ref) <= tol)

    def show(a):
        return np.asarray(a).reshape(2, -1)[:, :4].tolist()

    if off(obs["vec"]):
        bad.append(("com-vectorised-value", "vectorised _set_intensities_com is not the intensity-weighted mean "
                    "(row, column): got %s, reference %s" % (show(obs["vec"]), show(ref))))
    o1 = obs["origin"][1]
    if off(o1.T.reshape(2, Rn, Cn)):
        bad.append(("com-origin-model-value", "CenterOfMassOriginModel.calculate_origin is not the intensity-weighted "
                    "mean (row, column): got %s, reference %s" % (show(o1.T), show(ref))))
    for b, o in obs["origin"].items():
        if not np.array_equal(o, o1):
            bad.append(("com-batch-dependence", "calculate_origin(max_batch_size=%s) differs from batch size 1: %s vs %s"
                        % (b, o.T.tolist(), o1.T.tolist())))
            break
    for nm in ("loop", "loop_pre"):
        if nm in obs and not np.array_equal(obs[nm], obs["vec"]):
            sw = np.array_equal(obs[nm], obs["vec"][::-1])
            bad.append(("com-looped-vs-vectorised",
                        "_set_intensities_com(vectorized_calculation=False)%s disagrees with the vectorised path%s: "
                        "looped com_measured (row; col) = %s, vectorised = %s, weighted mean = %s"
                        % (" via preprocess" if nm.endswith("pre") else "",
                           " (row and column components are exchanged)" if sw else "",
                           show(obs[nm]), show(obs["vec"]), show(ref))))
            break
    if "vec_pre" in obs and not np.array_equal(obs["vec_pre"], obs["vec"]):
        bad.append(("com-preprocess-caller", "preprocess() does not hand the 4-D intensities to _set_intensities_com "
                    "unchanged: %s vs %s" % (show(obs["vec_pre"]), show(obs["vec"]))))
    om = o1.T.reshape(2, Rn, Cn).astype(np.float64)
    if not np.all(np.abs(om - obs["vec"].astype(np.float64)) <= tol):
        bad.append(("com-models-disagree", "origin model and dataset model disagree: %s vs %s"
                    % (show(om), show(obs["vec"]))))
    return bad


def com_expr(case):
    from ..common import cnat
    m = "None" if case["mask"] is None else "(Some %s%%Z)" % c2(case["mask"])
    return "com_case %s %s %s %s %s %s" % (cnat(case["Rn"]), cnat(case["Cn"]), cnat(case["H"]), cnat(case["W"]),
                                           m, c4(case["I4"]))


def com_correspond(case, obs, v):
    """model value vs every implementation path -> list of (key, what)"""
    bad = []
    vr, vc, (loop_eq, all_b, agree) = v
    if not (loop_eq and all_b and agree):
        bad.append(("com-model-internal", "the Coq model contradicts its own theorems on this instance "
                    "(looped=vectorised %s, all batch sizes %s, models agree %s)" % (loop_eq, all_b, agree)))
    model = [[[fr_of(q) for q in row] for row in comp] for comp in (vr, vc)]
    Rn, Cn = case["Rn"], case["Cn"]

    def cmp(name, arr):                               # arr: (2, R, C)
        for k in range(2):
            for i in range(Rn):
                for j in range(Cn):
                    if not agrees(float(arr[k][i][j]), model[k][i][j]):
                        return ("com-%s-correspondence" % name,
                                "%s path and the model disagree at component %d, scan (%d,%d): impl %r, model %s"
                                % (name, k, i, j, float(arr[k][i][j]), model[k][i][j]))
        return None

    for name, arr in [("vectorised", obs["vec"]), ("looped", obs["loop"])] + (
            [("vectorised", obs["vec_pre"]), ("looped", obs["loop_pre"])] if "vec_pre" in obs else []):
        b = cmp(name, arr)
        if b:
            bad.append(b)
    for bsz, o in obs["origin"].items():
        b = cmp("origin-model", o.T.reshape(2, Rn, Cn))
        if b:
            bad.append((b[0], "max_batch_size=%s: %s" % (bsz, b[1])))
            break
    return bad


def check_com(ctx: Ctx):
    r = ctx.rng
    cases = [dict(c) for c in _corpus().get("com", [])]
    # the witness of C18_unrepaired_loop_refuted
    cases.append({"kind": "com", "Rn": 1, "Cn": 1, "H": 2, "W": 3, "mask": None, "pow2": False,
                  "I4": [[[[1, 1, 1], [1, 1, 4]]]]})
    for _ in range(ctx.budget(60, 900)):
        cases.append(gen_com_case(r, ctx.quick))
    obs_all, exprs = [], []
    for case in cases:
        obs = com_impl(case)
        obs_all.append(obs)
        exprs.append(com_expr(case))
        n = case["Rn"] * case["Cn"]
        ctx.dist("com/scan=%s" % ("1x1" if n == 1 else "square" if case["Rn"] == case["Cn"] else "non-square"))
        ctx.dist("com/detector=%s" % ("square" if case["H"] == case["W"] else "non-square"))
        ctx.dist("com/mask=%s" % ("yes" if case["mask"] is not None else "no"))
        ctx.dist("com/total=%s" % ("pow2(exact)" if case["pow2"] else "general(rounded)"))
        ctx.dist("com/batch_sizes_run", n + 2)
        ref_r, ref_c = reference_com(case["I4"], case["mask"])
        asym = bool(np.any(np.abs(ref_r - ref_c) > 1e-3))
        ctx.count(("com", json.dumps(case, sort_keys=True)), nontrivial=asym and case["H"] != case["W"])
        for key, what in com_oracle(case, obs):
            ctx.violation(key, what, dict(case))
    vals = coq_vals(ctx, "com", exprs, 8)
    nd = 0
    for case, obs, v in zip(cases, obs_all, vals):
        ctx.cov["traces_validated_against_impl"] += len(obs["origin"]) + len(obs) - 1
        bad = com_correspond(case, obs, v)
        orc = com_oracle(case, obs) if bad else []
        for key, what in bad:
            nd += 1
            ctx.cov["disagreements_checked"] += 1
            ctx.violation(key, "model and implementation disagree (the CoM theorems no longer speak about this "
                          "code): " + what, dict(case), found_input=bool(orc))
    mid = cases[len(cases) // 2]
    ctx.sample({"kind": "com", "case": {k: mid[k] for k in ("Rn", "Cn", "H", "W", "mask")},
                "impl_vectorised": obs_all[len(cases) // 2]["vec"].tolist(),
                "model": [[[str(fr_of(q)) for q in row] for row in comp] for comp in vals[len(cases) // 2][:2]]})
    ctx.log("com: %d cases, %d disagreements" % (len(cases), nd))


# ------------------------------------------------------------------------------------------
# fits

def dyadic(r, lo, hi, den):
    return Fraction(r.randint(int(lo * den), int(hi * den)), den)


def profile_with_com(L, t: Fraction, k=8):
    """positive integer profile u of length L with sum 2^k and sum(u*i)/2^k == t, or None"""
    tot = 1 << k
    M = t * tot
    if M.denominator != 1:
        return None
    M = int(M) - L * (L - 1) // 2
    m = tot - L
    if m <= 0 or M < 0 or M > m * (L - 1):
        return None
    u = [1] * L
    r0, m1 = divmod(M, m)
    u[r0] += m - m1
    if m1:
        u[r0 + 1] += m1
    assert sum(u) == tot and sum(i * x for i, x in enumerate(u)) == t * tot
    return u


class EighRecorder:
    """records what torch.linalg.eigh returned (the LAPACK oracle input of the plane model)"""

    def __enter__(self):
        import torch
        self.torch = torch
        self.orig = torch.linalg.eigh
        self.log = []

        def rec(a, *args, **kw):
            out = self.orig(a, *args, **kw)
            self.log.append((a.detach().cpu().numpy().astype(np.float64), out[0].detach().cpu().numpy().astype(np.float64),
                             out[1].detach().cpu().numpy().copy()))
            return out

        torch.linalg.eigh = rec
        return self

    def __exit__(self, *a):
        self.torch.linalg.eigh = self.orig


def run_origin_fit(origins, method, positions, shape):
    """fit_origin_background on given measured origins; returns (fitted (n,2), eigh log)"""
    import torch
    from quantem.diffractive_imaging.origin_models import CenterOfMassOriginModel
    Rn, Cn, H, W = shape
    om = CenterOfMassOriginModel.from_dataset(_dataset(np.ones((Rn, Cn, H, W), dtype=np.float32)))
    om.origin_measured = torch.tensor(np.array(origins, dtype=np.float32))
    with EighRecorder() as rec:
        om.fit_origin_background(None if positions is None else np.array(positions, dtype=np.float32), method)
    return om.origin_fitted.detach().cpu().numpy().copy(), rec.log


def gen_fit_case(r):
    Rn, Cn = r.choice([(2, 3), (3, 2), (2, 2), (3, 4), (4, 3), (2, 5), (4, 4), (3, 5)])
    kind = r.choice(["const", "const", "plane", "plane", "plane", "plane_pos", "e2e_plane", "e2e_const"])
    case = {"kind": "fit", "sub": kind, "Rn": Rn, "Cn": Cn}
    if kind in ("const", "e2e_const"):
        case["k"] = [str(dyadic(r, 1, 4, 16)), str(dyadic(r, 1, 4, 16))]
    else:
        # dyadic coefficients (multiples of 1/16); values stay well inside the 7 x 6 detector used
        # by the end-to-end variant
        while True:
            co = [[Fraction(r.randint(-6, 6), 16), Fraction(r.randint(-6, 6), 16), Fraction(r.randint(32, 48), 16)]
                  for _ in range(2)]
            vals = [[co[k][0] * x + co[k][1] * y + co[k][2] for k in range(2)] for x in range(Rn) for y in range(Cn)]
            if all(Fraction(3, 4) <= v <= Fraction(9, 2) for row in vals for v in row) and any(co[k][0] or co[k][1] for k in range(2)):
                break
        case["coef"] = [[str(c) for c in cc] for cc in co]
        if kind == "plane_pos":
            # explicit non-collinear dyadic probe positions (origin model only)
            while True:
                pos = [[Fraction(r.randint(0, 24), 4), Fraction(r.randint(0, 24), 4)] for _ in range(Rn * Cn)]
                (x0, y0), (x1, y1), (x2, y2) = pos[0], pos[1], pos[2]
                # well-conditioned: the first three positions span a triangle of area >= 1
                if abs((x1 - x0) * (y2 - y0) - (x2 - x0) * (y1 - y0)) >= 2 and len({tuple(p) for p in pos}) == len(pos):
                    break
            case["pos"] = [[str(a), str(b)] for a, b in pos]
    return case


def _F(s):
    return Fraction(s)


def fit_case_run(ctx: Ctx, case):
    """returns (oracle_failures, coq_expr or None, post(v) -> correspondence failures)"""
    from quantem.diffractive_imaging.ptycho_utils import fit_origin
    Rn, Cn = case["Rn"], case["Cn"]
    n = Rn * Cn
    sub = case["sub"]
    bad = []
    H, W = 7, 6
    if sub == "const":
        k = [_F(x) for x in case["k"]]
        fitted, _ = run_origin_fit([[float(k[0]), float(k[1])]] * n, "constant", None, (Rn, Cn, H, W))
        if not all(close(float(fitted[i, j]), k[j]) for i in range(n) for j in range(2)):
            bad.append(("const-fit-origin-model", "constant fit of constant origins %s returned %s" % (case["k"], fitted[0].tolist())))
        fr, fc, _, _ = fit_origin((np.full((Rn, Cn), float(k[0])), np.full((Rn, Cn), float(k[1]))),
                                  mask=np.ones((Rn, Cn), bool), fit_function="constant")
        if not (all(close(float(x), k[0]) for x in fr.ravel()) and all(close(float(x), k[1]) for x in fc.ravel())):
            bad.append(("const-fit-fit_origin", "fit_origin(constant) of constant data %s returned %s, %s"
                        % (case["k"], fr.ravel()[:2].tolist(), fc.ravel()[:2].tolist())))
        # tie of the model (constant fit = arithmetic mean) on the inputs the property speaks
        # about: constant origins
        expr = "(showp (fit_constant_origin %s %s), showm (fit_origin_constant %s))" % (
            "[" + "; ".join([cq(k[0])] * n) + "]", "[" + "; ".join([cq(k[1])] * n) + "]",
            "[" + "; ".join("[" + "; ".join([cq(k[0])] * Cn) + "]" for _ in range(Rn)) + "]")

        def post(v):
            out = []
            (m0, m1), grid = v
            m0, m1 = fr_of(m0), fr_of(m1)
            if not all(close(float(fitted[i, 0]), m0) and close(float(fitted[i, 1]), m1) for i in range(n)):
                out.append(("const-fit-correspondence", "fit_origin_background('constant') = %s, model = (%s, %s)"
                            % (fitted[0].tolist(), m0, m1)))
            if not all(close(float(fr[i, j]), fr_of(grid[i][j])) for i in range(Rn) for j in range(Cn)):
                out.append(("const-fit-correspondence", "fit_origin(constant) = %s, model = %s" % (fr[0, 0], fr_of(grid[0][0]))))
            ctx.cov["traces_validated_against_impl"] += 2
            return out
        return bad, expr, post
    if sub == "e2e_const":
        k = [_F(x) for x in case["k"]]
        u, v_ = profile_with_com(H, k[0]), profile_with_com(W, k[1])
        pat = np.outer(u, v_).astype(np.float32)
        I4 = np.broadcast_to(pat, (Rn, Cn, H, W)).copy()
        designed = np.array([float(k[0]), float(k[1])], dtype=np.float32)[:, None, None] * np.ones((2, Rn, Cn), np.float32)
        for vec in (True, False):
            cm, cf = run_dataset_model(I4, None, vec, fit_function="constant")
            if not np.array_equal(cm, designed):
                bad.append(("com-vectorised-value" if vec else "com-looped-vs-vectorised",
                            "_set_intensities_com(vectorized_calculation=%s): patterns built with CoM (row, col) = %s "
                            "but com_measured = %s" % (vec, case["k"], cm[:, 0, 0].tolist())))
            # the fit clause proper: the measured origins are constant, the fit must return them
            if not np.all(np.abs(cf.astype(np.float64) - cm) <= TOL_REL * np.maximum(1, np.abs(cm))):
                bad.append(("const-fit-dataset-model", "_set_intensities_com(fit_function='constant', vectorized=%s): constant "
                            "measured origins %s but com_fit %s" % (vec, cm[:, 0, 0].tolist(), cf[:, 0, 0].tolist())))
        from quantem.diffractive_imaging.origin_models import CenterOfMassOriginModel
        om = CenterOfMassOriginModel.from_dataset(_dataset(I4))
        om.calculate_origin(r_batch(ctx, n)).fit_origin_background(fit_method="constant")
        of = om.origin_fitted.numpy()
        if not all(close(float(of[i, j]), k[j]) for i in range(n) for j in range(2)):
            bad.append(("const-fit-origin-model", "calculate_origin + constant fit on identical patterns with CoM %s gives %s"
                        % (case["k"], of[0].tolist())))
        ctx.cov["traces_validated_against_impl"] += 3
        return bad, None, None
    # ---- planes
    co = [[_F(c) for c in cc] for cc in case["coef"]]
    if sub == "plane_pos":
        pos = [[_F(a), _F(b)] for a, b in case["pos"]]
    else:
        pos = [[Fraction(x), Fraction(y)] for x in range(Rn) for y in range(Cn)]
    vals = [[co[k][0] * x + co[k][1] * y + co[k][2] for k in range(2)] for x, y in pos]
    fvals = np.array([[float(a), float(b)] for a, b in vals])
    if sub == "e2e_plane":
        I4 = np.zeros((Rn, Cn, H, W), dtype=np.float32)
        for i, (a, b) in enumerate(vals):
            I4[i // Cn, i % Cn] = np.outer(profile_with_com(H, a), profile_with_com(W, b))
        ref = fvals.T.reshape(2, Rn, Cn)
        for vec in (True, False):
            cm, cf = run_dataset_model(I4, None, vec, fit_function="plane")
            if not np.array_equal(cm.astype(np.float64), ref):
                bad.append(("com-vectorised-value" if vec else "com-looped-vs-vectorised",
                            "_set_intensities_com(vectorized_calculation=%s): patterns built with CoM exactly on the planes "
                            "(row; col) %s but com_measured - plane = %g" % (vec, case["coef"], np.abs(cm - ref).max())))
            # the fit clause proper: the measured origins lie on planes, the fit must return them
            if not np.all(np.abs(cf.astype(np.float64) - cm) <= TOL_LSQ * np.maximum(1, np.abs(cm))):
                bad.append(("plane-fit-dataset-model", "_set_intensities_com(fit_function='plane', vectorized=%s): measured "
                            "origins lie exactly on planes but com_fit - com_measured = %g" % (vec, np.abs(cf - cm).max())))
        from quantem.diffractive_imaging.origin_models import CenterOfMassOriginModel
        om = CenterOfMassOriginModel.from_dataset(_dataset(I4))
        om.calculate_origin(r_batch(ctx, n)).fit_origin_background(fit_method="plane")
        of = om.origin_fitted.numpy()
        if not np.all(np.abs(of - fvals) <= TOL_PLANE):
            bad.append(("plane-fit-origin-model", "calculate_origin + plane fit: CoM lie exactly on planes %s but "
                        "origin_fitted - plane = %s" % (case["coef"], np.abs(of - fvals).max())))
        ctx.cov["traces_validated_against_impl"] += 3
        return bad, None, None
    fitted, elog = run_origin_fit(fvals.tolist(), "plane", None if sub == "plane" else [[float(a), float(b)] for a, b in pos],
                                  (Rn, Cn, H, W))
    err = float(np.abs(fitted - fvals).max())
    ctx.cov["plane_fit_max_err"] = max(ctx.cov.get("plane_fit_max_err", 0.0), err)
    if not err <= TOL_PLANE:
        bad.append(("plane-fit-origin-model", "fit_origin_background('plane') of origins exactly on the planes %s "
                    "(positions %s) deviates by %g" % (case["coef"], "scan grid" if sub == "plane" else case["pos"], err)))
    if sub == "plane":
        g = [fvals[:, k].reshape(Rn, Cn) for k in range(2)]
        fr, fc, _, _ = fit_origin((g[0], g[1]), mask=np.ones((Rn, Cn), bool), fit_function="plane")
        e2 = max(np.abs(fr - g[0]).max(), np.abs(fc - g[1]).max())
        if not e2 <= TOL_LSQ:
            bad.append(("plane-fit-fit_origin", "fit_origin('plane') of data exactly on the planes %s deviates by %g"
                        % (case["coef"], e2)))
    # the eigh contract, numerically, on what LAPACK returned + the model on the same normal
    exprs, contract_bad = [], []
    for k in range(2):
        cov, evals, evecs = elog[k]
        nvec = evecs[:, 0].astype(np.float64)
        v0 = np.array([float(co[k][0]), float(co[k][1]), -1.0])
        scale = max(np.abs(cov).max(), 1e-30)
        res = np.abs(cov @ nvec - evals[0] * nvec).max() / scale
        par = np.linalg.norm(np.cross(nvec, v0)) / np.linalg.norm(v0)
        ok = np.linalg.norm(nvec) > 0.5 and res <= 1e-4 and evals[0] <= evals[1] + 1e-6 * scale and par <= 1e-3
        ctx.dist("plane/eigh_contract=%s" % ("met" if ok else "NOT met"))
        if not ok:
            contract_bad.append("component %d: |n|=%g residual=%g eigenvalues=%s cross=%g" % (
                k, np.linalg.norm(nvec), res, evals.tolist(), par))
        pts = "[" + "; ".join("mk3 %s %s %s" % (cq(x), cq(y), cq(vals[i][k])) for i, (x, y) in enumerate(pos)) + "]"
        nq = "(mk3 %s %s %s)" % tuple(cq(Fraction(float(t))) for t in evecs[:, 0])
        exprs.append("plane_case %s %s" % (pts, nq))
    if contract_bad:
        bad_or = bool(bad)
        bad.append(("plane-eigh-contract" if not bad_or else "plane-eigh-contract+fit",
                    "torch.linalg.eigh did not deliver the assumed eigenvector: " + "; ".join(contract_bad)))

    def post(v):
        out = []
        for k in range(2):
            fit_m = v[k]
            for i in range(n):
                if abs(Fraction(float(fitted[i, k])) - fr_of(fit_m[i])) > Fraction(TOL_PLANE):
                    out.append(("plane-fit-correspondence", "origin_fitted[%d,%d] = %r but the model (same eigenvector) "
                                "gives %s" % (i, k, float(fitted[i, k]), float(fr_of(fit_m[i])))))
                    break
        ctx.cov["traces_validated_against_impl"] += 2
        return out
    return bad, "[%s; %s]" % (exprs[0], exprs[1]), post


def r_batch(ctx, n):
    return ctx.rng.choice([1, 2, n, n + 1, None, max(1, n - 1)])


def check_fits(ctx: Ctx):
    r = ctx.rng
    cases = [dict(c) for c in _corpus().get("fit", [])]
    for _ in range(ctx.budget(60, 800)):
        cases.append(gen_fit_case(r))
    exprs, posts, owners = [], [], []
    failed = {}
    for ci, case in enumerate(cases):
        bad, expr, post = fit_case_run(ctx, case)
        ctx.dist("fit/%s" % case["sub"])
        ctx.count(("fit", json.dumps(case, sort_keys=True)), nontrivial=case["sub"] != "const" or case["k"][0] != case["k"][1])
        failed[ci] = bool(bad)
        for key, what in bad:
            ctx.violation(key, what, dict(case), found_input=not key.startswith("plane-eigh-contract") or key.endswith("+fit"))
        if expr is not None:
            exprs.append(expr)
            posts.append(post)
            owners.append(ci)
    vals = coq_vals(ctx, "fit", exprs, 6)
    nd = 0
    for v, post, ci in zip(vals, posts, owners):
        for key, what in post(v):
            nd += 1
            ctx.cov["disagreements_checked"] += 1
            ctx.violation(key, "model and implementation disagree: " + what, dict(cases[ci]), found_input=failed[ci])
    ctx.log("fits: %d cases (%d with a model evaluation), %d disagreements; max plane-fit error %.3g"
            % (len(cases), len(exprs), nd, ctx.cov.get("plane_fit_max_err", 0.0)))


# ------------------------------------------------------------------------------------------
# shift

def gen_shift_case(r):
    H, W = r.choice([(2, 3), (3, 2), (3, 5), (5, 3), (5, 9), (4, 6), (6, 4), (3, 7), (7, 5), (2, 9), (4, 4), (5, 5), (9, 2)])
    Rn, Cn = r.choice([(1, 2), (2, 3), (3, 2), (2, 2), (1, 5), (3, 3)])
    n = Rn * Cn
    pats = [[[r.randint(1, 250) for _ in range(W)] for _ in range(H)] for _ in range(n)]
    org = [[r.randint(-2 * H, 2 * H), r.randint(-2 * W, 2 * W)] for _ in range(n)]
    coord = r.choice([[0, 0], [0, 0], [r.randint(0, H - 1), r.randint(0, W - 1)], [r.randint(-3, 12), r.randint(-3, 12)]])
    return {"kind": "shift", "sub": "direct", "Rn": Rn, "Cn": Cn, "H": H, "W": W, "pats": pats, "org": org, "coord": coord,
            "batches": sorted({1, n, r.randint(1, n + 1)}) + [None]}


def shift_impl(case, all_batches=False):
    import torch
    from quantem.diffractive_imaging.origin_models import CenterOfMassOriginModel
    Rn, Cn, H, W = case["Rn"], case["Cn"], case["H"], case["W"]
    n = Rn * Cn
    om = CenterOfMassOriginModel.from_dataset(_dataset(np.array(case["pats"], dtype=np.float32).reshape(Rn, Cn, H, W)))
    om.origin_fitted = torch.tensor(np.array(case["org"], dtype=np.float32))
    out = {}
    for b in (list(range(1, n + 2)) + [None] if all_batches else case["batches"]):
        om.shift_origin_to(tuple(case["coord"]), b)
        out[b] = om.shifted_tensor.detach().cpu().numpy().reshape(n, H, W).copy()
    return out


def shift_reference(case):
    """the property text: circular roll that brings the pixel at the origin to `coord`"""
    cy, cx = case["coord"]
    return np.stack([np.roll(np.array(p, dtype=np.float64), (-(oy - cy), -(ox - cx)), axis=(0, 1))
                     for p, (oy, ox) in zip(case["pats"], case["org"])])


def pow2(k):
    return k >= 1 and (k & (k - 1)) == 0


def shift_oracle(case, obs):
    bad = []
    ref = shift_reference(case)
    exact = pow2(case["H"] - 1) and pow2(case["W"] - 1)
    tol = 0.0 if exact else TOL_SHIFT_REL * float(np.max(ref))
    first = None
    for b, out in obs.items():
        if first is None:
            first = out
        err = float(np.max(np.abs(out.astype(np.float64) - ref)))
        if not err <= tol:
            i = int(np.argmax(np.abs(out.astype(np.float64) - ref).reshape(len(ref), -1).max(axis=1)))
            bad.append(("shift-not-roll", "shift_origin_to(%s, max_batch_size=%s) with integer origin %s is not the circular "
                        "roll by %s of pattern %d: max |diff| = %g (tolerance %g); got %s, roll %s" % (
                            tuple(case["coord"]), b, case["org"][i],
                            (-(case["org"][i][0] - case["coord"][0]), -(case["org"][i][1] - case["coord"][1])), i, err, tol,
                            out[i].tolist(), ref[i].tolist())))
            break
        if not np.array_equal(out, first):
            bad.append(("shift-batch-dependence", "shift_origin_to gives different results for max_batch_size=%s" % (b,)))
            break
    return bad


def shift_expr(case):
    from ..common import cnat
    cy, cx = case["coord"]
    pats = "[" + "; ".join("(%s, %s, %s%%Z)" % (cz(oy), cz(ox), c2(p)) for p, (oy, ox) in zip(case["pats"], case["org"])) + "]"
    return "shift_case %s %s %s %s %s" % (cnat(case["H"]), cnat(case["W"]), cz(cy), cz(cx), pats)


def shift_correspond(case, obs, v):
    bad = []
    mats, is_roll = v
    if not is_roll:
        bad.append(("shift-model-internal", "the Coq grid model is not the roll on this instance"))
    exact = pow2(case["H"] - 1) and pow2(case["W"] - 1)
    model = np.array([[[float(fr_of(q)) for q in row] for row in m] for m in mats])
    tol = 0.0 if exact else TOL_SHIFT_REL * float(np.max(model))
    for b, out in obs.items():
        err = float(np.max(np.abs(out.astype(np.float64) - model)))
        if not err <= tol:
            bad.append(("shift-correspondence", "shift_origin_to(max_batch_size=%s) and the grid model differ by %g" % (b, err)))
            break
    return bad


def e2e_shift_case(r):
    """forward(): identical centro-symmetric (but row/column different) patterns on odd detectors:
    CoM = detector centre exactly -> constant fit integer -> shift = roll by -centre"""
    H, W = r.choice([(3, 5), (5, 3), (5, 7), (7, 5), (5, 9), (3, 7)])
    Rn, Cn = r.choice([(2, 3), (3, 2), (1, 4)])
    half_u = [r.randint(1, 40) for _ in range(H // 2 + 1)]
    half_v = [r.randint(1, 40) for _ in range(W // 2 + 1)]
    u = half_u[:-1] + half_u[::-1]
    v = half_v[:-1] + half_v[::-1]
    scal = [r.randint(1, 5) for _ in range(Rn * Cn)]
    pats = [[[s * a * b for b in v] for a in u] for s in scal]
    return {"kind": "shift", "sub": "forward", "Rn": Rn, "Cn": Cn, "H": H, "W": W, "pats": pats,
            "org": [[H // 2, W // 2]] * (Rn * Cn), "coord": [0, 0], "batches": [r.choice([1, 2, None])]}


def shift_forward_impl(case):
    from quantem.diffractive_imaging.origin_models import CenterOfMassOriginModel
    Rn, Cn, H, W = case["Rn"], case["Cn"], case["H"], case["W"]
    om = CenterOfMassOriginModel.from_dataset(_dataset(np.array(case["pats"], dtype=np.float32).reshape(Rn, Cn, H, W)))
    b = case["batches"][0]
    om.forward(max_batch_size=b, fit_method="constant", estimate_detector_orientation=False,
               origin_coordinate=tuple(case["coord"]))
    return {b: om.shifted_tensor.detach().cpu().numpy().reshape(Rn * Cn, H, W).copy()}, om.origin_fitted.numpy().copy()


def check_shift(ctx: Ctx):
    r = ctx.rng
    cases = [dict(c) for c in _corpus().get("shift", [])]
    for _ in range(ctx.budget(40, 600)):
        cases.append(gen_shift_case(r))
    for _ in range(ctx.budget(8, 80)):
        cases.append(e2e_shift_case(r))
    obs_all, exprs = [], []
    for i, case in enumerate(cases):
        if case["sub"] == "forward":
            obs, of = shift_forward_impl(case)
            if not np.array_equal(of, np.array(case["org"], dtype=np.float32)):
                ctx.violation("const-fit-origin-model", "forward(): patterns symmetric about the detector centre %s but the "
                              "constant-fitted origin is %s" % (case["org"][0], of[0].tolist()), dict(case))
        else:
            obs = shift_impl(case, all_batches=(not ctx.quick) or i % 5 == 0)
        obs_all.append(obs)
        exprs.append(shift_expr(case))
        ctx.dist("shift/%s" % case["sub"])
        ctx.dist("shift/detector=%s" % ("exact(size-1 pow2)" if pow2(case["H"] - 1) and pow2(case["W"] - 1) else "rounded"))
        ctx.dist("shift/wraps=%s" % ("yes" if any(not (0 <= o[0] - case["coord"][0] < case["H"]) for o in case["org"]) else "no"))
        ctx.count(("shift", json.dumps(case, sort_keys=True)),
                  nontrivial=case["H"] != case["W"] and any((o[0] - case["coord"][0]) % case["H"] or
                                                            (o[1] - case["coord"][1]) % case["W"] for o in case["org"]))
        for key, what in shift_oracle(case, obs):
            ctx.violation(key, what, dict(case))
    vals = coq_vals(ctx, "shift", exprs, 6)
    nd = 0
    for case, obs, v in zip(cases, obs_all, vals):
        ctx.cov["traces_validated_against_impl"] += len(obs)
        bad = shift_correspond(case, obs, v)
        orc = shift_oracle(case, obs) if bad else []
        for key, what in bad:
            nd += 1
            ctx.cov["disagreements_checked"] += 1
            ctx.violation(key, "model and implementation disagree: " + what, dict(case), found_input=bool(orc))
    c0 = cases[0]
    ctx.sample({"kind": "shift", "case": {k: c0[k] for k in ("H", "W", "coord")}, "origin": c0["org"][0],
                "pattern": c0["pats"][0], "impl": list(obs_all[0].values())[0][0].tolist()})
    ctx.log("shift: %d cases, %d disagreements" % (len(cases), nd))


# ------------------------------------------------------------------------------------------

def _corpus():
    from ..common import VERIF
    p = VERIF / "corpus" / "C18" / "corpus.json"
    return json.loads(p.read_text()) if p.exists() else {}


def run(ctx: Ctx):
    ctx.hash_sources("diffractive_imaging/origin_models.py",
                     ["CenterOfMassOriginModel.calculate_origin", "CenterOfMassOriginModel.fit_origin_background",
                      "CenterOfMassOriginModel.shift_origin_to", "CenterOfMassOriginModel.forward"])
    ctx.hash_sources("diffractive_imaging/dataset_models.py",
                     ["PtychographyDatasetRaster._set_intensities_com", "PtychographyDatasetRaster.preprocess"])
    ctx.hash_sources("diffractive_imaging/ptycho_utils.py", ["fit_origin", "SimpleBatcher"])
    ctx.cov["rule"] = (
        "com: (scan shape, detector shape, optional binary detector mask, integer intensities 1..312 with hot pixels; "
        "40% with power-of-two totals so the exact CoM is a float32) run through calculate_origin for every batch size "
        "1..num+1 and None, both numpy paths directly and via preprocess; fit: constant / plane on the "
        "scan grid / plane on explicit dyadic positions / end-to-end from separable patterns with prescribed dyadic CoM; "
        "shift: integer per-pattern origins in [-2H,2H]x[-2W,2W], integer target coordinate, several batch sizes (all of "
        "them for every 5th case), plus forward() end to end.  A case is distinct by its full input; non-trivial when "
        "the detector is non-square and row/column CoM differ (com), the surface is not the same constant in both "
        "components (fit), the shift is not a multiple of the detector size (shift)")
    ctx.assumptions += [
        "torch.linalg.eigh returns, as column 0, a non-zero eigenvector of the smallest eigenvalue (eigh_min_contract); "
        "checked numerically on every plane case, and the returned eigenvector is handed to the model as an oracle input",
        "scipy.optimize.curve_fit returns a least-squares minimiser (premise of C18_lsq_fit_exact); exercised",
        "F.grid_sample(bilinear, align_corners=True, zeros padding) is bilinear interpolation of the 4 neighbours "
        "(modelled by `bilinear`); exercised by every shift case",
        "float32/float64 sums of the generated integer-valued intensities are exact (all partial sums < 2^24); only the "
        "final division rounds",
    ]
    ctx.cov["trusted_base"] += [
        "Coq 8.16.1 kernel incl. vm_compute (used to run the model); no native_compute",
        "hand-written model coq/model/C18_Model.v + coq/lib/C18_QTensor.v tied to /repo by this correspondence run",
        "harness/props/C18.py (generators, float64 reference, Python->Coq printers), harness/common.py",
        "theorems are over Q: the plane-fit theorem covers every rational multiple of the normal (the real unit "
        "eigenvector is in general irrational; the algebra is scale invariant)",
    ]
    ctx.proofs_or_violation()
    import torch  # noqa: F401  (import cost outside the timed sections)
    torch.set_num_threads(2)
    check_com(ctx)
    check_fits(ctx)
    check_shift(ctx)


def replay(ctx: Ctx, path):
    rp = json.loads(open(path).read())
    kind = rp.get("kind")
    if kind == "com":
        obs = com_impl(rp)
        bad = com_oracle(rp, obs)
        ref_r, ref_c = reference_com(rp["I4"], rp["mask"])
        print("input: scan %dx%d detector %dx%d mask=%s" % (rp["Rn"], rp["Cn"], rp["H"], rp["W"], rp["mask"]))
        print("I4 =", rp["I4"])
        print("float64 reference (row; col):", ref_r.tolist(), ref_c.tolist())
        print("vectorised com_measured:", obs["vec"].tolist())
        print("looped     com_measured:", obs["loop"].tolist())
        print("origin model (b=1):", obs["origin"][1].T.tolist())
        v = coq_vals(ctx, "replay", [com_expr(rp)], 1)[0]
        print("model (row; col):", [[str(fr_of(q)) for row in comp for q in row] for comp in v[:2]])
        for key, what in bad:
            print("oracle: [%s] %s" % (key, what))
        if not bad:
            print("oracle: property holds on this case")
        return 1 if bad else 0
    if kind == "shift":
        obs = shift_forward_impl(rp)[0] if rp.get("sub") == "forward" else shift_impl(rp, all_batches=True)
        bad = shift_oracle(rp, obs)
        print("input:", {k: rp[k] for k in ("H", "W", "coord", "org")})
        for key, what in bad:
            print("oracle: [%s] %s" % (key, what))
        if not bad:
            print("oracle: property holds on this case")
        return 1 if bad else 0
    if kind == "fit":
        bad, expr, post = fit_case_run(ctx, rp)
        print("input:", {k: v for k, v in rp.items() if k in ("sub", "Rn", "Cn", "k", "coef", "pos", "vals")})
        if expr is not None:
            bad = bad + post(coq_vals(ctx, "replay", [expr], 1)[0])
        for key, what in bad:
            print("oracle/correspondence: [%s] %s" % (key, what))
        if not bad:
            print("oracle: property holds on this case")
        return 1 if bad else 0
    print("replay of kind %r: re-run ./check C18" % kind)
    return 0
