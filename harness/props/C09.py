"""C09 — mini-batch scheduling.  Theorems: coq/props/C09_Properties.v.
Tie: correspondence of model/C09_Model.v with SimpleBatcher / subdivide_batches /
generate_batches on generated (n, b, ratio, mode, seed, shuffle) cases, with the
permutations the real generator returned handed to the model (oracle input), plus a toy
reconstruction for the loss-scaling, seeded-determinism and reset clauses."""
from __future__ import annotations

import json
import math

import numpy as np

from ..common import Ctx, cbool, cfloat, clist, cnat, cnl, copt, cz

PRE = """From QV.lib Require Import Prelude Chunks FloatBits.
From QV.model Require Import C09_Model.
From Coq Require Import PrimFloat.
Definition show (r : option tvsplit) (b : nat) (order : list nat) :=
  match r with
  | None => None
  | Some s => Some (zl (train s), zl (val s), zll (epoch b order), Z.of_nat (batcher_len b s),
                    zll (val_batches b s), Z.of_nat (val_len b s))
  end.
From QV.model Require Import C09_Model_Ext.
(* round 3: several epochs per batcher, batch_size=None, has_validation, the rng draws; explicit indices *)
Definition show_x (n : nat) (bo : option nat) (ratio : float) (random shuffle : bool) (perm : list nat)
           (orders : list (list nat)) (seen : list (list (list Z))) :=
  match split_of_glue n ratio random perm with
  | None => None
  | Some s =>
    let b := bsz n bo in
    Some ((if list_eq_dec (list_eq_dec (list_eq_dec Z.eq_dec)) (map (fun o => zll (epoch b o)) orders) seen then true else false),
          has_validation s,
          zl (init_draws n ratio random ++ (if shuffle then map (fun _ => length (train s)) (perm :: orders) else [])))
  end.
Definition show_e (tr va : option (list nat)) (bo : option nat) (n : nat) (orders : list (list nat)) :=
  match split_explicit tr va with
  | inl _ => inl 2%nat
  | inr None => inl 0%nat
  | inr (Some s) =>
    let b := bsz n bo in
    inr (zl (train s), zl (val s), map (fun o => zll (epoch b o)) orders, Z.of_nat (batcher_len b s),
         zll (val_batches b s), Z.of_nat (val_len b s), has_validation s)
  end.
Definition showe {A} (r : err + A) : (nat + A) :=
  match r with inl ErrRuntime => inl 1%nat | inl ErrValue => inl 2%nat | inl ErrZeroDiv => inl 3%nat | inr x => inr x end.
"""


def _rec_gen(seed):
    class RecGen(np.random.Generator):
        def __init__(self, sd):
            super().__init__(np.random.PCG64(sd))
            self.log = []

        def permutation(self, x, axis=0):
            r = super().permutation(x, axis)
            self.log.append(np.array(r).tolist())
            return r

    return RecGen(seed)


N_EPOCHS = 2


def run_batcher_case(case):
    """run the real SimpleBatcher; returns observables + the permutations it drew"""
    from quantem.diffractive_imaging.ptycho_utils import SimpleBatcher

    n, b, ratio, mode, seed, shuffle = case
    g = _rec_gen(seed)
    try:
        sb = SimpleBatcher(n, b, shuffle, g, ratio, mode)
    except ValueError:
        return {"err": "ValueError"}
    n_perm_init = len(g.log)
    train = sb.train_indices.tolist()
    val = sb.val_indices.tolist()
    epoch = [x.tolist() for x in sb]
    order = g.log[n_perm_init] if shuffle else train
    vb = [x.tolist() for x in sb.iter_val()]
    obs = {
        "train": train, "val": val, "epoch": epoch, "len": len(sb), "vb": vb, "val_len": sb.val_len(),
        "perm": g.log[0] if n_perm_init else [], "order": order,
    }
    # round 3: further epochs of the SAME batcher (validation iterated in between and twice), the split is
    # fixed for its lifetime, has_validation, every permutation drawn from the generator
    epochs, orders = [epoch], [order]
    for e in range(1, N_EPOCHS):
        it = iter(sb)
        first = next(it, None)
        mid = [x.tolist() for x in sb.iter_val()]            # validation pass in the middle of an epoch
        ep = ([] if first is None else [first.tolist()]) + [x.tolist() for x in it]
        epochs.append(ep)
        orders.append(g.log[n_perm_init + e] if shuffle and len(g.log) > n_perm_init + e else train)
        if mid != vb:
            obs["val_changed"] = [vb, mid]
    obs["epochs"] = epochs
    obs["orders"] = orders
    obs["has_validation"] = bool(sb.has_validation)
    obs["draws"] = [len(p) for p in g.log]
    obs["split_after"] = [sb.train_indices.tolist(), sb.val_indices.tolist()]
    obs["len_after"] = [len(sb), sb.val_len()]
    return obs


def run_explicit_case(case):
    """SimpleBatcher(num, b, shuffle, rng, train_indices=…, val_indices=…)"""
    from quantem.diffractive_imaging.ptycho_utils import SimpleBatcher
    n, b, tr, va, seed, shuffle = case
    g = _rec_gen(seed)
    try:
        sb = SimpleBatcher(n, b, shuffle, g, 0.3, "random",
                           train_indices=None if tr is None else np.array(tr, dtype=int),
                           val_indices=None if va is None else np.array(va, dtype=int))
    except ValueError:
        return {"err": "ValueError"}
    if tr is None and va is None:
        return {"fallthrough": True}
    epochs, orders = [], []
    for e in range(2):
        epochs.append([x.tolist() for x in sb])
        orders.append(g.log[e] if shuffle and len(g.log) > e else sb.train_indices.tolist())
    return {"train": sb.train_indices.tolist(), "val": sb.val_indices.tolist(), "epochs": epochs, "orders": orders,
            "len": len(sb), "vb": [x.tolist() for x in sb.iter_val()], "val_len": sb.val_len(),
            "has_validation": bool(sb.has_validation), "draws": [len(p) for p in g.log]}


def oracle_batcher(case, obs):
    """the property itself, evaluated on the implementation's output"""
    n = case[0]
    if "err" in obs:
        return None
    tv = obs["train"] + obs["val"]
    if sorted(tv) != list(range(n)):
        return "train+val is not a partition of range(%d): train=%s val=%s" % (n, obs["train"], obs["val"])
    flat = [i for bt in obs["epoch"] for i in bt]
    if sorted(flat) != sorted(obs["train"]):
        return "an epoch does not visit every training pattern exactly once: batches=%s train=%s" % (
            obs["epoch"], obs["train"])
    if len(obs["epoch"]) != obs["len"]:
        return "__len__ = %d but %d batches were yielded" % (obs["len"], len(obs["epoch"]))
    vflat = [i for bt in obs["vb"] for i in bt]
    if sorted(vflat) != sorted(obs["val"]):
        return "validation batches do not visit every validation pattern exactly once"
    if len(obs["vb"]) != obs["val_len"]:
        return "val_len() = %d but %d validation batches were yielded" % (obs["val_len"], len(obs["vb"]))
    if any(len(bt) == 0 for bt in obs["epoch"] + obs["vb"]):
        return "an empty batch was yielded"
    # round 3: every further epoch, split fixed for the lifetime of the batcher, batch sizes
    beff = n if case[1] is None else case[1]
    for e, ep in enumerate(obs.get("epochs", [])):
        if sorted(i for bt in ep for i in bt) != sorted(obs["train"]):
            return "epoch %d does not visit every training pattern exactly once: batches=%s train=%s" % (e, ep, obs["train"])
        if len(ep) != obs["len"]:
            return "__len__ = %d but epoch %d yielded %d batches" % (obs["len"], e, len(ep))
        if any(len(bt) == 0 or len(bt) > beff for bt in ep):
            return "epoch %d yielded an empty or oversized batch (batch size %d): %s" % (e, beff, ep)
    if "val_changed" in obs:
        return "validation batches changed during the lifetime of the batcher: %s" % (obs["val_changed"],)
    if "split_after" in obs and obs["split_after"] != [obs["train"], obs["val"]]:
        return "the train/validation split changed during the lifetime of the batcher"
    if "len_after" in obs and obs["len_after"] != [obs["len"], obs["val_len"]]:
        return "__len__/val_len changed during the lifetime of the batcher"
    if "has_validation" in obs and obs["has_validation"] != (len(obs["val"]) > 0):
        return "has_validation = %s with %d validation patterns" % (obs["has_validation"], len(obs["val"]))
    return None


def oracle_explicit(case, obs):
    n, b, tr, va, seed, shuffle = case
    if "err" in obs or "fallthrough" in obs:
        return None
    beff = n if b is None else b
    for e, ep in enumerate(obs["epochs"]):
        if sorted(i for bt in ep for i in bt) != sorted(tr):
            return "explicit indices: epoch %d does not visit the given training patterns exactly once" % e
        if len(ep) != obs["len"] or any(len(bt) == 0 or len(bt) > beff for bt in ep):
            return "explicit indices: epoch %d yields %d batches (%s), __len__ = %d" % (e, len(ep), ep, obs["len"])
    if [i for bt in obs["vb"] for i in bt] != list(va) or len(obs["vb"]) != obs["val_len"]:
        return "explicit indices: validation batches %s do not go through %s once / val_len %d" % (obs["vb"], va, obs["val_len"])
    return None


def gen_batcher_cases(ctx: Ctx):
    r = ctx.rng
    cases = []
    ratios = [0.0, 0.05, 0.1, 0.125, 0.15, 0.2, 0.25, 0.3, 1 / 3, 0.34, 0.4, 0.45, 0.5, 0.51, 0.55, 0.6,
              2 / 3, 0.7, 0.75, 0.8, 0.9, 0.95, 0.99, 0.999, -0.1, 1.0, 1.5, 1e-9, 0.5000000000000001]
    # corpus
    corpus = ctx_corpus(ctx)
    cases.extend(tuple(c) for c in corpus.get("batcher", []))
    # small-scope grid
    nmax = ctx.budget(14, 40)
    for n in range(1, nmax + 1):
        for ratio in ratios:
            b = r.choice([1, 2, 3, max(1, n // 2), n, n + 3, r.randint(1, n + 3), None])
            mode = r.choice(["grid", "random"])
            cases.append((n, b, ratio, mode, r.randrange(1 << 30), r.random() < 0.7))
    # random stream
    for _ in range(ctx.budget(400, 6000)):
        n = r.choice([r.randint(1, 30), r.randint(1, 120), r.randint(100, 400)])
        b = r.choice([1, r.randint(1, n + 3), r.randint(1, max(1, n // 3)), n, n + 1, None])
        ratio = r.choice([r.random(), r.random() * 0.5, r.choice(ratios), r.randint(0, n) / n,
                          (r.randint(0, 2 * n) + 0.5) / (2 * n) % 1.0])
        mode = r.choice(["grid", "random"])
        cases.append((n, b, float(ratio), mode, r.randrange(1 << 30), r.random() < 0.7))
    return cases


def ctx_corpus(ctx):
    from ..common import VERIF
    p = VERIF / "corpus" / "C09" / "corpus.json"
    return json.loads(p.read_text()) if p.exists() else {}


def batcher_expr(case, obs):
    n, b, ratio, mode, seed, shuffle = case
    perm = obs.get("perm", [])
    order = obs.get("order", [])
    base = "show (split_of_ratio %s %s %s %s) %s %s" % (
        cnat(n), cfloat(ratio), cbool(mode == "random"), cnl(perm), cnat(n if b is None else b), cnl(order))
    zlist = lambda l: "[" + "; ".join("%d" % x for x in l) + "]"
    # further epochs are compared inside Coq; for large n only on every third case (the chunking of a second
    # permutation adds little there and costs as much as the first)
    further = slice(1, None) if (n <= 60 or seed % 3 == 0) else slice(0, 0)
    ext = "show_x %s %s %s %s %s %s [%s] [%s]%%Z" % (
        cnat(n), copt(b, cnat), cfloat(ratio), cbool(mode == "random"), cbool(shuffle), cnl(perm),
        "; ".join(cnl(o) for o in obs.get("orders", [])[further]),
        "; ".join("[" + "; ".join(zlist(bt) for bt in ep) + "]" for ep in obs.get("epochs", [])[further]))
    return "(%s, %s)" % (base, ext)


def explicit_expr(case, obs):
    n, b, tr, va, seed, shuffle = case
    return "show_e %s %s %s %s [%s]" % (copt(tr, cnl), copt(va, cnl), copt(b, cnat), cnat(n),
                                        "; ".join(cnl(o) for o in obs.get("orders", [])))


def gen_explicit_cases(ctx: Ctx):
    r = ctx.rng
    cases = [(5, 2, [0, 1, 2], None, 1, True), (5, 2, None, [3, 4], 1, True), (5, 2, None, None, 1, True)]
    for _ in range(ctx.budget(40, 400)):
        n = r.randint(1, 30)
        idx = list(range(n))
        r.shuffle(idx)
        k = r.randint(0, n)
        tr, va = idx[:k], idx[k:]
        if r.random() < 0.3:
            tr = sorted(tr)
        if r.random() < 0.2:       # user lists need not be a partition
            va = va[: len(va) // 2]
        cases.append((n, r.choice([1, 2, 3, n, n + 2, None, r.randint(1, n + 1)]), tr, va, r.randrange(1 << 30), r.random() < 0.7))
    return cases


def check_batcher(ctx: Ctx):
    cases = gen_batcher_cases(ctx)
    obs_all, exprs, keep = [], [], []
    for case in cases:
        n, b, ratio, mode, seed, shuffle = case
        obs = run_batcher_case(case)
        ctx.dist("batcher/mode=%s" % mode)
        ctx.dist("batcher/ratio_zone=%s" % ("out" if not (0 <= ratio < 1) else "0" if ratio == 0 else
                                             "<=.5" if ratio <= 0.5 else ">.5"))
        ctx.dist("batcher/b_vs_train=%s" % ("err" if "err" in obs else "None" if b is None else "b>=train" if b >= len(obs["train"]) else
                                             "divides" if len(obs["train"]) % b == 0 else "nondividing"))
        nontrivial = "err" not in obs and len(obs["val"]) > 0 and len(obs["epoch"]) > 1
        ctx.count(("batcher",) + tuple(case[:4]) + (tuple(obs.get("order", [])),), nontrivial=nontrivial)
        bad = oracle_batcher(case, obs)
        if bad:
            ctx.violation("batcher-oracle", bad, {"kind": "batcher", "case": list(case), "impl": obs})
        obs_all.append(obs)
        exprs.append(batcher_expr(case, obs))
        keep.append(case)
    vals = ctx.coq_eval("batcher", PRE, exprs, shard=50)
    nd = 0
    for case, obs, v in zip(keep, obs_all, vals):
        v, vx = v
        if "err" in obs:
            ok = v is None and vx is None
            mv = v
        else:
            assert isinstance(v, tuple) and v[0] == "Some", v
            tr, va, ep, ln, vb, vl = v[1]
            mv = {"train": tr, "val": va, "epoch": ep, "len": ln, "vb": vb, "val_len": vl}
            ok = all(mv[k] == obs[k] for k in mv)
            if vx is None:
                ok = False
            else:      # every epoch, has_validation, the sizes of all permutations drawn from the generator
                mv["further_epochs_agree"], mv["has_validation"], mv["draws"] = vx[1]
                n_init = 1 if obs["perm"] else 0
                shuffle = case[5]
                ok = (ok and mv["further_epochs_agree"] is True and mv["has_validation"] == obs["has_validation"]
                      and mv["draws"] == obs["draws"][:len(mv["draws"])]
                      and len(obs["draws"]) == n_init + (N_EPOCHS if shuffle else 0))
        ctx.cov["traces_validated_against_impl"] += 1
        if not ok:
            nd += 1
            ctx.cov["disagreements_checked"] += 1
            ctx.violation("batcher-correspondence",
                          "SimpleBatcher and the model disagree (the partition theorems no longer speak "
                          "about this code) on case n,b,ratio,mode,seed,shuffle=%s" % (case,),
                          {"kind": "batcher", "case": list(case), "impl": obs, "model": mv},
                          found_input=oracle_batcher(case, obs) is not None)
    ctx.sample({"kind": "batcher", "case": list(keep[len(keep) // 2]), "impl": obs_all[len(keep) // 2]})
    ctx.log("batcher: %d cases (x %d epochs each), %d disagreements" % (len(keep), N_EPOCHS, nd))
    # explicit train / validation indices
    ecases = gen_explicit_cases(ctx)
    eobs = [run_explicit_case(c) for c in ecases]
    for c, o in zip(ecases, eobs):
        ctx.dist("batcher/explicit=%s" % ("err" if "err" in o else "fallthrough" if "fallthrough" in o else "ok"))
        ctx.count(("explicit", c[0], c[1], tuple(c[2] or ()), tuple(c[3] or ()), tuple(map(tuple, o.get("orders", [])))),
                  nontrivial="epochs" in o and len(o["epochs"][0]) > 1)
        bad = oracle_explicit(c, o)
        if bad:
            ctx.violation("batcher-explicit-oracle", bad, {"kind": "explicit", "case": list(c), "impl": o})
    evals = ctx.coq_eval("explicit", PRE, [explicit_expr(c, o) for c, o in zip(ecases, eobs)], shard=80)
    ne = 0
    for c, o, v in zip(ecases, eobs, evals):
        ctx.cov["traces_validated_against_impl"] += 1
        if "err" in o:
            ok = v == ("inl", 2)
        elif "fallthrough" in o:
            ok = v == ("inl", 0)
        else:
            ok = v[0] == "inr" and list(v[1]) == [o["train"], o["val"], o["epochs"], o["len"], o["vb"], o["val_len"], o["has_validation"]]
        if not ok:
            ne += 1
            ctx.cov["disagreements_checked"] += 1
            ctx.violation("batcher-correspondence",
                          "SimpleBatcher with explicit indices and the model disagree on (n,b,train,val,seed,shuffle)=%s" % (c,),
                          {"kind": "explicit", "case": list(c), "impl": o, "model": repr(v)},
                          found_input=oracle_explicit(c, o) is not None)
    ctx.log("batcher with explicit indices: %d cases, %d disagreements" % (len(ecases), ne))


def run_generate_case(c):
    from quantem.core.utils.utils import generate_batches, subdivide_batches
    n, nb, mb, start = c
    try:
        sizes = subdivide_batches(n, nb, mb)
        rs = [list(map(int, x)) for x in generate_batches(n, nb, mb, start)]
        return {"sizes": [int(s) for s in sizes], "ranges": rs}
    except RuntimeError:
        return {"err": 1}
    except ValueError:
        return {"err": 2}
    except ZeroDivisionError:
        return {"err": 3}


def oracle_generate(c, obs):
    n, nb, mb, start = c
    if "err" in obs:
        if mb is not None and nb is None and n >= 1 and mb >= 1:
            return "generate_batches raised for valid arguments n=%d max_batch=%d" % (n, mb)
        return None
    if n < 1 or (mb is not None and mb < 1) or (nb is not None and nb < 1):
        return None
    rs = obs["ranges"]
    if not rs:
        return "no ranges for n=%d" % n
    if rs[0][0] != start or rs[-1][1] != start + n:
        return "ranges do not cover [start, start+n): %s" % rs
    for (a, b), (c2, d) in zip(rs, rs[1:]):
        if b != c2:
            return "ranges are not contiguous: %s" % rs
    for a, b in rs:
        if b - a < 1 or (mb is not None and b - a > mb):
            return "range width out of bounds: %s (max_batch=%s)" % ((a, b), mb)
    if nb is not None and len(rs) != nb:
        return "asked for %d batches, got %d" % (nb, len(rs))
    return None


def check_generate(ctx: Ctx):
    r = ctx.rng
    cases = []
    for n in range(0, ctx.budget(25, 70)):
        for mb in range(0, min(n + 3, ctx.budget(12, 40))):
            cases.append((n, None, mb, r.choice([0, 0, 3, 17])))
        for nb in [0, 1, 2, 3, n // 2, n, n + 1]:
            cases.append((n, nb, None, r.choice([0, 5])))
    cases.append((5, 2, 2, 0))
    cases.append((5, None, None, 0))
    for _ in range(ctx.budget(200, 3000)):
        n = r.randint(1, 5000)
        if r.random() < 0.5:
            cases.append((n, None, r.randint(1, n + 5), r.randint(0, 100)))
        else:
            cases.append((n, r.randint(1, min(n, 300)), None, r.randint(0, 100)))
    exprs, obs_all = [], []
    for c in cases:
        n, nb, mb, start = c
        obs = run_generate_case(c)
        obs_all.append(obs)
        ctx.dist("generate/%s" % ("err%d" % obs["err"] if "err" in obs else "max_batch" if mb is not None else "num_batches"))
        ctx.count(("gen",) + c[:3], nontrivial="err" not in obs and len(obs["sizes"]) > 1)
        bad = oracle_generate(c, obs)
        if bad:
            ctx.violation("generate-oracle", bad, {"kind": "generate", "case": list(c), "impl": obs})
        exprs.append("(showe (subdivide_batches %s %s %s), showe (generate_batches %s %s %s %s))" % (
            cz(n), copt(nb, cz), copt(mb, cz), cz(n), copt(nb, cz), copt(mb, cz), cz(start)))
    vals = ctx.coq_eval("generate", PRE, exprs, shard=80)
    nd = 0
    for c, obs, v in zip(cases, obs_all, vals):
        sv, gv = v
        if "err" in obs:
            ok = sv == ("inl", obs["err"]) and gv == ("inl", obs["err"])
        else:
            ok = sv == ("inr", obs["sizes"]) and gv == ("inr", [tuple(x) for x in obs["ranges"]])
        ctx.cov["traces_validated_against_impl"] += 1
        if not ok:
            nd += 1
            ctx.cov["disagreements_checked"] += 1
            ctx.violation("generate-correspondence",
                          "subdivide/generate_batches and the model disagree on (n,num_batches,max_batch,start)=%s" % (c,),
                          {"kind": "generate", "case": list(c), "impl": obs, "model": repr(v)},
                          found_input=oracle_generate(c, obs) is not None)
    ctx.sample({"kind": "generate", "case": list(cases[-1]), "impl": obs_all[-1]})
    ctx.log("generate: %d cases, %d disagreements" % (len(cases), nd))


def check_toy_recon(ctx: Ctx):
    """loss scaling / gradients for divisor batch sizes, same-seed determinism, reset — on the
    real reconstruction (validated, float tolerance) and the reset field list vs the model"""
    from .. import toy_ptycho as tp
    from .. import c09_toy
    c09_toy.setup()
    res = tp.c09_recon_checks(ctx)
    for key, what, replay in res:
        ctx.violation(key, what, replay)
    # round 3: RNGMixin state machine, schedule inside reconstruct, per-batch loss tie, determinism / reset variants,
    # reset_recon field by field (harness/c09_toy.py)
    for key, what, replay, found in c09_toy.all_checks(ctx):
        ctx.violation(key, what, replay, found_input=found)


def run(ctx: Ctx):
    ctx.hash_sources("diffractive_imaging/ptycho_utils.py", ["SimpleBatcher"])
    ctx.hash_sources("core/utils/utils.py", ["subdivide_batches", "generate_batches"])
    ctx.hash_sources("diffractive_imaging/ptychography_base.py",
                     ["PtychographyBase.error_estimate", "PtychographyBase.reset_recon"])
    ctx.hash_sources("diffractive_imaging/ptychography.py", ["Ptychography.reconstruct", "Ptychography.reset_recon"])
    ctx.hash_sources("core/utils/rng.py", ["RNGMixin"])
    ctx.cov["rule"] = (
        "cases: (n, batch, ratio, mode, seed, shuffle) for SimpleBatcher [small-scope grid over n x 29 ratios + "
        "seeded random stream], (n, num_batches|max_batch, start) for subdivide/generate_batches [grid incl. "
        "error cases + random], toy reconstructions for loss scaling/determinism/reset, incl. batch invariance of "
        "the reported epoch loss / accumulated gradients under constraint dictionaries with non-zero soft-constraint "
        "weights (every kind the toy's models have, calibrated to 0.1-3x the data term) on states reached by real "
        "iterations; a case is distinct by its arguments and drawn order, non-trivial when it has a non-empty "
        "validation set and >1 batch (batcher) / >1 range (generate) / >1 batch (toy) / a regulariser share > 2% "
        "of the loss and >1 batch (soft constraints)")
    ctx.assumptions += [
        "np.random.Generator.permutation returns a permutation (its output is handed to the model as an oracle input)",
        "torch/numpy kernels are deterministic functions of their inputs on CPU (exercised, not proved)",
    ]
    ctx.cov["trusted_base"] += [
        "Coq 8.16.1 kernel incl. vm_compute (used to run the model); no native_compute",
        "hand-written model coq/model/C09_Model.v tied to /repo by this correspondence run",
        "harness/props/C09.py (generators, canonicalisation, Python->Coq printers), harness/common.py",
        "PrimFloat primitives (binary64 mul/div/sub/compare) = the CPython float operations",
        "harness/translate_arith.py: subdivide_batches / generate_batches are re-translated from the current source on "
        "every run and proved equal to the model functions for all arguments (coq/gen_proofs/Arith_Utils_*.v)",
    ]
    ctx.proofs_or_violation()

    def ties():
        # (the two ties draw nothing from ctx.rng and write their own files: they run beside the correspondence phases)
        try:  # the model's subdivide/generate_batches = the functions translated from the CURRENT source, by theorem
            from ..arith_tie import run_tie
            run_tie(ctx, ["subdivide_batches", "generate_batches"])
        except Exception as e:  # noqa  (fail closed: the tie could not be established)
            ctx.broken_obligation = "; ".join(filter(None, [ctx.broken_obligation, "arithmetic tie could not run: %r" % (e,)]))
        try:  # round 3: the split block of SimpleBatcher.__init__ (float -> int glue included), translated from the
            # CURRENT source, = the model's split_of_ratio for all inputs, by theorem (coq/gen_proofs/C09_Glue_*.v)
            from ..c09_glue_tie import run_glue_tie
            run_glue_tie(ctx)
        except Exception as e:  # noqa  (fail closed)
            ctx.broken_obligation = "; ".join(filter(None, [ctx.broken_obligation, "glue tie could not run: %r" % (e,)]))

    import threading
    # import the library in this thread first: two threads importing quantem at once trip over its circular imports
    import quantem.diffractive_imaging.ptychography  # noqa: F401
    import quantem.core.utils.utils  # noqa: F401
    th = threading.Thread(target=ties, name="C09-ties")
    th.start()
    try:
        check_batcher(ctx)
        check_generate(ctx)
        check_toy_recon(ctx)
    finally:
        th.join()


def replay(ctx: Ctx, path):
    rp = json.loads(open(path).read())
    if rp.get("kind") == "batcher":
        case = tuple(rp["case"])
        obs = run_batcher_case(case)
        bad = oracle_batcher(case, obs)
        v = ctx.coq_eval("replay", PRE, [batcher_expr(case, obs)])[0]
        print("impl:", obs)
        print("model:", v)
        print("oracle:", bad or "property holds on this case")
        return 1 if bad else 0
    if rp.get("kind") == "explicit":
        c = tuple(rp["case"])
        obs = run_explicit_case(c)
        bad = oracle_explicit(c, obs)
        print("impl:", obs, "oracle:", bad or "ok")
        return 1 if bad else 0
    if rp.get("kind") == "generate":
        c = tuple(rp["case"])
        obs = run_generate_case(c)
        bad = oracle_generate(c, obs)
        print("impl:", obs, "oracle:", bad or "ok")
        return 1 if bad else 0
    if rp.get("kind") == "toy-soft":      # batch invariance with non-zero soft-constraint weights (harness/c09_toy.py)
        from .. import c09_toy
        bad = c09_toy.replay_soft(rp)
        for key, what in bad:
            print("%s: %s" % (key, what))
        print("oracle:", "property violated on this case" if bad else "property holds on this case")
        return 1 if bad else 0
    if rp.get("kind") == "toy-sched" and "way" in rp:      # a run repeated after a reset, with scheduler settings
        from .. import c09_toy
        bad = c09_toy.replay_sched(rp)
        for key, what, _, found in bad:
            print("%s: %s%s" % (key, what, "" if found else "  [loss histories agree within tolerance]"))
        print("oracle:", "property violated on this case" if any(b[3] for b in bad) else "property holds on this case")
        return 1 if bad else 0
    print("replay of kind %r: re-run ./check C09" % rp.get("kind"))
    return 0
