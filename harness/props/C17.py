"""C17 — reliability-sorted phase unwrapping.  Theorems: coq/props/C17_Properties.v.

Tie to /repo (every run):
  * oracle: the property text evaluated on the real `unwrap_phase_2d_torch` /
    `unwrap_bf_overlap_phase_torch` output for generated smooth fields, masks and wrap_around
    settings (result = generating field + one constant per connected mask component;
    result - wrapped input in 2*pi*Z + one constant; smooth unwrapped input unchanged up to a
    constant);
  * correspondence: while the real driver runs, the output of the real `_build_edges` (the
    sorted (i1, i2, inc) list) and of the real `_final_offsets` are recorded; the edge list is
    fed to the model's union-find (`uf_offsets`, vm_compute) and the integer offsets compared
    exactly; the edge list itself is compared as a set with the model's `grid_pairs`/`incs_of`
    on exactly representable (2^-16-quantised) phases; the real output is compared with
    phi + 2*pi*model_offsets - mean; `UnionFindPhase` is also driven directly with random
    (cyclic, inconsistent, repeated, self) edge lists.
  * round 3 (model/C17_Model_Ext.v): the processing order of every recorded `_build_edges` call is
    compared as a multiset with the model's `grid_pairs` (the hypothesis "any permutation of the
    grid edges" of the theorems); the union-find STATE (parent, rank, offset) is compared at the
    end of every driver run and after every single union for small direct runs; the real
    `_pixel_reliability` values and the sortedness of the real order w.r.t. the model's keys
    (`rel_list`, `code_sorted`, ties free) on exactly representable inputs; `_wrap_to_pi`
    against `wrapP`; for the masked-embedding route the structure of the embedding (`embed`,
    `positions`, `bf_branch`) is evaluated in the model and every stage of the real pipeline
    (first-pass input = embedded angle * mask, second-pass input = mask * first output, result =
    mask * last output read back at the bright-field pixels, number of passes) is compared.
"""
from __future__ import annotations

import json
import math
from fractions import Fraction

import numpy as np

import re

from ..common import Ctx, cbool, cq, parse_coq_value

PRE = """From QV.lib Require Import Prelude.
From QV.model Require Import C17_Model C17_Model_Ext.
From Coq Require Import QArith.
Local Close Scope Q_scope.
Definition PI : Q := %s.
Definition PI32 : Q := %s.
""" % (cq(Fraction(math.pi)), cq(Fraction(float(np.float32(math.pi)))))

TOL = 1e-4


def ceval(ctx, name, exprs, shard):
    """coq_eval + parsing; scope annotations are stripped first (negative numerals are printed
    as `(-1)%Z`)"""
    import os
    t0 = os.times()
    raw = ctx.coq_eval(name, PRE, exprs, shard=shard, parse=False)
    t1 = os.times()
    CPU[name] = CPU.get(name, 0.0) + (t1.children_user + t1.children_system - t0.children_user - t0.children_system)
    return [parse_coq_value(re.sub(r"\s+", " ", re.sub(r"%\w+", "", v))) for v in raw]


CPU = {}      # coqc CPU seconds per batch (wall time depends on the load of the machine)

QDEN = 65536
TWO_PI = 2 * math.pi


# ------------------------------------------------------------------------------------------
# independent python helpers (not the model, not the implementation)


def edges_py(H, W, wrap, mask):
    """4-neighbour edges of the H x W grid (right and down neighbour; periodic when wrap),
    both ends inside the mask"""
    out = []
    m = None if mask is None else np.asarray(mask, bool).reshape(H, W)
    for r in range(H):
        for c in range(W):
            for dr, dc in ((0, 1), (1, 0)):
                r2, c2 = r + dr, c + dc
                if wrap:
                    r2 %= H
                    c2 %= W
                elif r2 >= H or c2 >= W:
                    continue
                if m is not None and not (m[r, c] and m[r2, c2]):
                    continue
                out.append((r * W + c, r2 * W + c2))
    return out


def components(n, edges):
    par = list(range(n))

    def f(x):
        while par[x] != x:
            par[x] = par[par[x]]
            x = par[x]
        return x

    for a, b in edges:
        ra, rb = f(a), f(b)
        if ra != rb:
            par[ra] = rb
    return [f(i) for i in range(n)]


def has_hole(H, W, mask):
    """a complement component that does not touch the border"""
    if mask is None:
        return False
    m = np.asarray(mask, bool).reshape(H, W)
    comp = ~m
    lab = components(H * W, [(a, b) for a, b in edges_py(H, W, False, comp.flatten())])
    border = set()
    for r in range(H):
        for c in range(W):
            if comp[r, c] and (r in (0, H - 1) or c in (0, W - 1)):
                border.add(lab[r * W + c])
    return any(comp.flat[i] and lab[i] not in border for i in range(H * W))


# ------------------------------------------------------------------------------------------
# generators


def gen_mask(r, H, W, kind=None):
    if kind is None:
        kind = r.choice(["none", "none", "full", "holes", "split", "split", "bernoulli", "blob", "seam", "isolated"])
    if kind == "none":
        return kind, None
    m = np.ones((H, W), bool)
    if kind == "seam":
        # the mask hugs the border: its pieces touch each other only across the wrap-around seam
        # (one component when wrap_around, several otherwise)
        m[:] = False
        a, b = r.randint(1, max(1, W // 3)), r.randint(1, max(1, W // 3))
        how = r.choice(["cols", "rows", "both", "corner"])
        if how in ("cols", "both"):
            m[:, :a] = True
            m[:, W - b:] = True
        if how in ("rows", "both"):
            a2, b2 = r.randint(1, max(1, H // 3)), r.randint(1, max(1, H // 3))
            m[:a2, :] = True
            m[H - b2:, :] = True
        if how == "corner":
            m[0, :a] = True
            m[H - 1, :a] = True
            m[:max(1, H // 3), 0] = True
            m[:max(1, H // 3), W - 1] = True
        if r.random() < 0.4:
            m[r.randrange(H), r.randrange(W)] = False
        return kind, m
    if kind == "isolated":
        # single-pixel components (no edge touches them) next to larger pieces
        m[:] = False
        for i in range(H):
            for j in range(W):
                if (i + j) % 2 == 0 and r.random() < 0.6:
                    m[i, j] = True
        if H >= 2 and W >= 2 and r.random() < 0.7:
            r0, c0 = r.randrange(H - 1), r.randrange(W - 1)
            m[r0:r0 + 2, c0:c0 + 2] = True
        m[0, 0] = True
        m[H - 1, W - 1] = r.random() < 0.5
        return kind, m
    if kind == "holes":
        for _ in range(r.randint(1, 3)):
            h, w = r.randint(1, max(1, H // 3)), r.randint(1, max(1, W // 3))
            r0, c0 = r.randint(0, H - h), r.randint(0, W - w)
            m[r0:r0 + h, c0:c0 + w] = False
    elif kind == "split":
        # empty bands cut the grid into several regions; extra holes inside
        if W >= 3 and r.random() < 0.7:
            c0 = r.randint(1, W - 2)
            m[:, c0] = False
        if H >= 3 and r.random() < 0.6:
            r0 = r.randint(1, H - 2)
            m[r0, :] = False
        if r.random() < 0.5:
            m[r.randrange(H), r.randrange(W)] = False
        if r.random() < 0.5:
            m[H - 1, :] = False
        if r.random() < 0.5:
            m[:, W - 1] = False
    elif kind == "bernoulli":
        p = r.choice([0.55, 0.7, 0.85])
        for i in range(H):
            for j in range(W):
                m[i, j] = r.random() < p
    elif kind == "blob":
        cy, cx = r.uniform(0, H - 1), r.uniform(0, W - 1)
        rad = r.uniform(1.0, max(H, W) / 1.5)
        rin = r.choice([0.0, rad / 2.5])
        yy, xx = np.mgrid[0:H, 0:W]
        d = np.hypot(yy - cy, xx - cx)
        m = (d <= rad) & (d >= rin)
        if r.random() < 0.4 and W >= 4:
            m[:, W // 2] = False
    return kind, m


def gen_field(r, H, W, periodic):
    yy, xx = np.mgrid[0:H, 0:W].astype(float)
    kinds = ["periodic"] if periodic else ["ramp", "quadratic", "bump", "bandlimited", "ramp+bump"]
    kind = r.choice(kinds)
    if kind == "ramp":
        f = r.uniform(-1, 1) * yy + r.uniform(-1, 1) * xx
    elif kind == "quadratic":
        y0, x0 = r.uniform(-2, H + 1), r.uniform(-2, W + 1)
        f = r.uniform(-1, 1) * (yy - y0) ** 2 + r.uniform(-1, 1) * (xx - x0) ** 2 + r.uniform(-1, 1) * (yy - y0) * (xx - x0)
    elif kind == "bump":
        y0, x0 = r.uniform(0, H - 1), r.uniform(0, W - 1)
        s = r.uniform(1.0, max(H, W) / 2 + 1)
        f = r.choice([-1, 1]) * np.exp(-((yy - y0) ** 2 + (xx - x0) ** 2) / (2 * s * s))
    elif kind == "ramp+bump":
        y0, x0 = r.uniform(0, H - 1), r.uniform(0, W - 1)
        s = r.uniform(1.5, max(H, W) / 2 + 1)
        f = r.uniform(-.3, .3) * yy + r.uniform(-.3, .3) * xx + 3 * np.exp(-((yy - y0) ** 2 + (xx - x0) ** 2) / (2 * s * s))
    elif kind == "bandlimited":
        f = np.zeros((H, W))
        for _ in range(r.randint(2, 5)):
            ky, kx = r.uniform(-0.18, 0.18), r.uniform(-0.18, 0.18)
            f += r.uniform(0.3, 1) * np.cos(TWO_PI * (ky * yy + kx * xx) + r.uniform(0, TWO_PI))
    else:  # periodic: integer frequencies, smooth across the seam
        f = np.zeros((H, W))
        for _ in range(r.randint(1, 3)):
            ky, kx = r.choice([0, 1, -1, 1]), r.choice([0, 1, -1, 1])
            if ky == 0 and kx == 0:
                kx = 1
            f += r.uniform(0.3, 1) * np.cos(TWO_PI * (ky * yy / H + kx * xx / W) + r.uniform(0, TWO_PI))
    return kind, f


def scale_smooth(r, f, edges, smax=0.96, smin=0.3, flat_span=None):
    """scale so that the largest difference across an edge is s*pi, s in [smin, smax]; keep |phi|
    moderate so float32 resolution stays far below the tolerance.  flat_span: instead scale the
    whole field to that total range (fields that never wrap)"""
    flat = f.flatten()
    m = max([abs(flat[a] - flat[b]) for a, b in edges] + [1e-12])
    s = r.uniform(smin, smax)
    g = f * (s * math.pi / m) if m > 1e-9 else f
    amp = np.abs(g - g.mean()).max()
    if amp > 45:
        g = g * (45 / amp)
    if flat_span is not None:
        rng = g.max() - g.min()
        if rng > flat_span:
            g = g * (flat_span / rng)
        g = g - (g.max() + g.min()) / 2 + r.uniform(-0.2, 0.2)
    else:
        g = g + r.uniform(-3, 3)
    g = g.astype(np.float32).astype(np.float64)            # exactly representable generating field
    gf = g.flatten()
    worst = max([abs(gf[a] - gf[b]) for a, b in edges] + [0.0])
    if worst >= math.pi - 2e-3:                            # stay 2e-3 below the threshold after rounding
        g = (g * ((math.pi - 4e-3) / worst)).astype(np.float32).astype(np.float64)
    return g


def wrap_input(r, phi, how):
    if how == "mod":
        w = (phi + math.pi) % TWO_PI - math.pi            # [-pi, pi)
    else:
        w = np.angle(np.exp(1j * phi))                     # (-pi, pi]
    return w.astype(np.float32)


def quantise(w32):
    q = np.round(w32.astype(np.float64) * QDEN) / QDEN
    return q.astype(np.float32)


def make_case(r, H, W, route, mode, mask_kind=None, wrap=None, steep=False):
    """mode: smooth (wrapped smooth field) | already (smooth field passed unwrapped) | noise |
    offset2pi (wrapped smooth field shifted by integer multiples of 2*pi, one integer per
    connected component: still a wrapped version of the field) | flat (bf route: a smooth field
    whose wrapped version spans less than pi, so that the embedding returns it as is)"""
    if wrap is None:
        wrap = r.random() < 0.5
    mkind, mask = gen_mask(r, H, W, mask_kind)
    if route == "bf":
        # bf route always has a mask (embedding); wrap_around default (True) or explicit False
        if mask is None:
            mask = np.ones((H, W), bool)
    edges = edges_py(H, W, wrap, None if mask is None else mask.flatten())
    periodic = wrap and r.random() < 0.75
    fkind, f = gen_field(r, H, W, periodic)
    if mode == "noise":
        fkind = "noise"
        phi = np.array([[r.uniform(-30, 30) for _ in range(W)] for _ in range(H)]).astype(np.float32).astype(np.float64)
    elif mode == "flat":
        phi = scale_smooth(r, f, edges, flat_span=r.uniform(0.2, 2.6))
    elif steep:
        phi = scale_smooth(r, f, edges, smin=0.97, smax=0.999)
    else:
        phi = scale_smooth(r, f, edges)
    how = r.choice(["mod", "angle"])
    quant = r.random() < 0.5 and route == "direct"
    if mode == "already":
        x = phi.astype(np.float32)
        if quant:
            x = quantise(x)
            phi = x.astype(np.float64)
    else:
        x = wrap_input(r, phi, how)
        if quant:
            x = quantise(x)
    shift = None
    if mode == "offset2pi":
        n = H * W
        mflat = np.ones(n, bool) if mask is None else mask.flatten()
        lab = components(n, edges)
        per = {root: r.randint(-3, 3) for root in sorted(set(lab))}
        if r.random() < 0.4:
            m0 = r.choice([-2, -1, 1, 2, 3])
            per = {root: m0 for root in per}
        shift = np.array([per[lab[i]] for i in range(n)]).reshape(H, W)
        x = (x.astype(np.float64) + TWO_PI * shift).astype(np.float32)
        quant = False
    garbage = False
    bf = None
    if route == "bf":
        # bf_mask: the embedding region (superset of the mask); mask_bf selects inside it
        bf = mask.copy()
        for _ in range(r.randint(0, H * W // 4)):
            bf[r.randrange(H), r.randrange(W)] = True
    if mask is not None and r.random() < 0.6 and mode != "flat":
        # pixels outside the mask carry arbitrary values: only the mask matters
        garbage = True
        g = np.array([[r.choice([r.uniform(-3.1, 3.1), r.uniform(-40, 40)]) for _ in range(W)] for _ in range(H)],
                     dtype=np.float32)
        if quant:
            g = quantise(g)
        x = np.where(mask, x, g).astype(np.float32)
    case = {
        "garbage_outside_mask": garbage,
        "route": route, "mode": mode, "H": H, "W": W, "wrap": bool(wrap),
        "mask": None if mask is None else [int(v) for v in mask.flatten()],
        "mask_kind": mkind, "field": fkind, "quant": bool(quant),
        "phi": [float(v).hex() for v in phi.flatten()],
        "x": [float(v).hex() for v in x.flatten()],
        "method_kw": r.choice(["default", "explicit"]),
        "steep": bool(steep),
    }
    if route == "direct":
        # how the tensors are handed over (the values are the same): dtype, memory layout,
        # mask dtype, autograd flag
        case["dtype"] = r.choice(["float32"] * 2 + ["float64"])
        # half of the cases are NOT contiguous: transposed views, Fortran-ordered numpy arrays wrapped by
        # torch.from_numpy (column-major strides), every-other-row/column views of a larger buffer, a view with a
        # storage offset, a numpy view with strides in both axes; the mask gets the same kind of layout
        case["layout"] = r.choice(["contiguous"] * 4 + ["transposed", "fortran", "strided", "strided_cols", "offset_view",
                                                        "np_strided"])
        case["mask_dtype"] = r.choice(["bool"] * 3 + ["uint8", "int64", "float32", "int32", "float64"])
        case["requires_grad"] = r.random() < 0.15
    if route == "bf":
        case["two_pass"] = r.random() < 0.6
        # wrap_around=True is also the default of unwrap_phase_2d_torch: pass it or leave it out
        case["wrap_kw"] = "default" if (wrap and r.random() < 0.5) else "explicit"
        case["bf_mask"] = [int(v) for v in bf.flatten()]
    return case


def case_arrays(case):
    H, W = case["H"], case["W"]
    phi = np.array([float.fromhex(v) for v in case["phi"]]).reshape(H, W)
    x = np.array([float.fromhex(v) for v in case["x"]], dtype=np.float32).reshape(H, W)
    mask = None if case["mask"] is None else np.array(case["mask"], bool).reshape(H, W)
    return phi, x, mask


# ------------------------------------------------------------------------------------------
# running the implementation (recording the real _build_edges / _final_offsets data flow)


class Recorder:
    """wraps _pixel_reliability / _build_edges / _final_offsets while the real driver runs and
    records their data flow (nothing is changed)"""

    def __init__(self):
        self.calls = []     # dicts: phi(list float), edges [(i1,i2,inc)], offs [float], rel, state
        self.problem = None
        self.last_rel = None

    def __enter__(self):
        import quantem.core.utils.imaging_utils as iu
        self.iu = iu
        self.orig = {}
        for nm in ("_build_edges", "_final_offsets", "_pixel_reliability"):
            if not hasattr(iu, nm):
                self.problem = "imaging_utils.%s no longer exists" % nm
                return self
            self.orig[nm] = getattr(iu, nm)
        rec = self

        def pixel_reliability(phi, *a, **kw):
            res = rec.orig["_pixel_reliability"](phi, *a, **kw)
            try:
                rec.last_rel = [float(v) for v in res.detach().double().flatten().tolist()]
            except Exception as e:  # noqa
                rec.problem = "unexpected _pixel_reliability result: %r" % (e,)
            return res

        def build_edges(phi, *a, **kw):
            res = rec.orig["_build_edges"](phi, *a, **kw)
            try:
                i1, i2, inc = res
                rec.calls.append({
                    "phi": [float(v) for v in phi.flatten().tolist()],
                    "edges": list(zip([int(v) for v in i1.tolist()], [int(v) for v in i2.tolist()],
                                      [int(v) for v in inc.tolist()])),
                    "offs": None, "state": None, "rel": rec.last_rel,
                })
                rec.last_rel = None
            except Exception as e:  # noqa
                rec.problem = "unexpected _build_edges result: %r" % (e,)
            return res

        def final_offsets(uf, *a, **kw):
            res = rec.orig["_final_offsets"](uf, *a, **kw)
            try:
                if rec.calls and rec.calls[-1]["offs"] is None:
                    rec.calls[-1]["offs"] = [float(v) for v in res.flatten().tolist()]
                    rec.calls[-1]["state"] = uf_state_of(uf)
            except Exception as e:  # noqa
                rec.problem = "unexpected _final_offsets result: %r" % (e,)
            return res

        iu._pixel_reliability = pixel_reliability
        iu._build_edges = build_edges
        iu._final_offsets = final_offsets
        return self

    def __exit__(self, *exc):
        for nm, f in self.orig.items():
            setattr(self.iu, nm, f)
        return False


def uf_state_of(uf):
    """(parent, rank, offset) of a UnionFindPhase as lists (offsets are integer-valued floats)"""
    return ([int(v) for v in uf.parent.tolist()], [int(v) for v in uf.rank.tolist()],
            [float(v) for v in uf.offset.tolist()])


def _layout(t, lay, fill):
    """the same values in another memory layout (torch)"""
    import torch
    H, W = t.shape
    if lay == "transposed":
        return t.t().contiguous().t()
    if lay == "fortran":
        return torch.from_numpy(np.asfortranarray(t.numpy()))
    if lay == "strided":
        big = torch.full((2 * H, 2 * W), fill, dtype=t.dtype)
        big[::2, ::2] = t
        return big[::2, ::2]
    if lay == "strided_cols":
        big = torch.full((H, 3 * W + 1), fill, dtype=t.dtype)
        big[:, 1::3] = t
        return big[:, 1::3]
    if lay == "offset_view":
        big = torch.full((H + 2, W + 3), fill, dtype=t.dtype)
        big[1:H + 1, 2:W + 2] = t
        return big[1:H + 1, 2:W + 2]
    if lay == "np_strided":
        big = np.full((3 * H, 2 * W), fill, dtype=t.numpy().dtype)
        big[1::3, ::2] = t.numpy()
        return torch.from_numpy(big)[1::3, ::2]
    return t


def hand_over(case, x, mask):
    """the input tensors in the dtype / memory layout / mask dtype of the case (same values)"""
    import torch
    dt = {"float32": torch.float32, "float64": torch.float64}[case.get("dtype", "float32")]
    lay = case.get("layout", "contiguous")
    xt = _layout(torch.from_numpy(x.copy()).to(dt), lay, 7.25)
    mt = None
    if mask is not None:
        md = case.get("mask_dtype", "bool")
        mt = torch.from_numpy(mask.copy())
        if md != "bool":
            mt = mt.to({"uint8": torch.uint8, "int64": torch.int64, "float32": torch.float32, "int32": torch.int32,
                        "float64": torch.float64}[md])
        mt = _layout(mt, lay, True if md == "bool" else 1)
    if case.get("requires_grad") and lay == "contiguous":
        xt.requires_grad_(True)
    assert tuple(xt.shape) == x.shape and (lay == "contiguous" or x.size <= 1 or min(x.shape) == 1 or not xt.is_contiguous())
    return xt, mt


def run_impl(case):
    import torch
    from quantem.core.utils.imaging_utils import unwrap_phase_2d_torch

    phi, x, mask = case_arrays(case)
    H, W = case["H"], case["W"]
    obs = {}
    with Recorder() as rec:
        if case["route"] == "direct":
            xt, mt = hand_over(case, x, mask)
            kw = {} if case["method_kw"] == "default" else {"method": "reliability-sorting"}
            out = unwrap_phase_2d_torch(xt, mask=mt, wrap_around=case["wrap"], **kw)
            obs["out"] = out.detach().cpu().numpy().astype(np.float64).flatten().tolist()
            obs["out_shape"] = list(out.shape)
        else:
            from quantem.diffractive_imaging.direct_ptycho_utils import unwrap_bf_overlap_phase_torch
            xt = torch.from_numpy(x.copy())
            mt = torch.from_numpy(mask.copy())
            bf = np.array(case["bf_mask"], bool).reshape(H, W)
            bft = torch.from_numpy(bf.copy())
            cplx = torch.polar(torch.ones(int(bf.sum()), dtype=torch.float32), xt[bft])
            mask_bf = mt[bft]
            kw = {} if case["method_kw"] == "default" else {"method": "reliability-sorting"}
            if case.get("wrap_kw", "explicit") == "explicit":
                kw["wrap_around"] = case["wrap"]
            res = unwrap_bf_overlap_phase_torch(cplx, mask_bf, bft, two_pass=case["two_pass"], **kw)
            full = np.full(H * W, np.nan)
            full[np.flatnonzero(bf.flatten())] = res.detach().cpu().numpy().astype(np.float64)
            obs["out"] = full.tolist()
            obs["res"] = res.detach().cpu().numpy().astype(np.float64).tolist()
            obs["angle"] = torch.angle(cplx).numpy().astype(np.float64).tolist()
            obs["mask_bf"] = [bool(v) for v in mask_bf.tolist()]
    obs["calls"] = rec.calls
    obs["rec_problem"] = rec.problem
    return obs


# ------------------------------------------------------------------------------------------
# the property itself


def oracle(case, obs):
    """returns (key, what) when the property text fails on the implementation's output"""
    phi, x, mask = case_arrays(case)
    H, W, n = case["H"], case["W"], case["H"] * case["W"]
    out = np.array(obs["out"], float)
    mflat = np.ones(n, bool) if mask is None else mask.flatten()
    edges = edges_py(H, W, case["wrap"], None if mask is None else mflat)
    lab = components(n, edges)
    phif = phi.flatten()
    if case["route"] == "direct" and obs.get("out_shape", [H, W]) != [H, W]:
        return "output-shape", "output shape %s for an input of shape %s" % (obs["out_shape"], [H, W])
    if np.isnan(out[mflat]).any():
        return "nan-output", "output contains NaN inside the mask"
    if case["mode"] in ("smooth", "already", "offset2pi", "flat"):
        worst = 0.0
        for root in sorted(set(lab[i] for i in range(n) if mflat[i])):
            idx = [i for i in range(n) if lab[i] == root and mflat[i]]
            d = out[idx] - phif[idx]
            worst = max(worst, float(d.max() - d.min()))
        if worst > TOL:
            key = "unwrapped-input-changed" if case["mode"] == "already" else "smooth-not-recovered"
            return key + ("-bf" if case["route"] == "bf" else ""), (
                "output - generating field varies by %.3g inside one connected mask component "
                "(H=%d W=%d wrap_around=%s mask=%s field=%s)" % (worst, H, W, case["wrap"], case["mask_kind"], case["field"]))
    # only pixels of the mask are observed (what happens outside the mask is not part of the claim)
    sel = np.flatnonzero(mflat)
    xin = x.astype(np.float64).flatten()
    if case["route"] == "direct" and case["mode"] == "already" and len(sel):
        d = out[sel] - xin[sel]
        if float(d.max() - d.min()) > TOL:
            return "unwrapped-input-changed", (
                "already-unwrapped smooth input is not returned up to ONE constant: spread %.3g" % float(d.max() - d.min()))
    if len(sel):
        d = (out[sel] - xin[sel])
        k = (d - d[0]) / TWO_PI
        dev = float(np.abs(k - np.round(k)).max()) * TWO_PI
        if dev > TOL:
            return "not-congruent" + ("-bf" if case["route"] == "bf" else ""), (
                "output - wrapped input is not a multiple of 2*pi plus one constant: deviation %.3g" % dev)
    return None


# ------------------------------------------------------------------------------------------
# Coq expressions


def edges_expr(n, edges):
    return "uf_offsets %d (el [%s]%%Z)" % (n, "; ".join("(%d, %d, %d)" % e for e in edges))


def grid_expr(case):
    phi, x, mask = case_arrays(case)
    ints = [int(round(float(v) * QDEN)) for v in x.flatten()]
    assert all(abs(i / QDEN - float(v)) == 0 for i, v in zip(ints, x.flatten()))
    m = "(fun _ => true)" if mask is None else "(mask_of [%s])" % "; ".join(cbool(b) for b in mask.flatten())
    return "ztriples (incs_of PI (phase_of %d [%s]%%Z) (grid_pairs %d %d %s %s))" % (
        QDEN, "; ".join(str(i) for i in ints), case["H"], case["W"], cbool(case["wrap"]), m)


def mask_expr(case):
    mask = case["mask"]
    return "(fun _ => true)" if mask is None else "(mask_of [%s])" % "; ".join(cbool(bool(b)) for b in mask)


def obs_expr(n, edges):
    return "uf_run_obs %d (el [%s]%%Z)" % (n, "; ".join("(%d, %d, %d)" % e for e in edges))


def case_expr(case, obs):
    """one expression per case:
    (union-find observables of call 0, of call 1, model increments on quantised input,
     the model's grid edges, reliability + sorted keys (or 0), embedding structure (or 0))"""
    n = case["H"] * case["W"]
    parts = [obs_expr(n, c["edges"]) for c in obs["calls"][:2]]
    while len(parts) < 2:
        parts.append("(@None (list Z * (list Z * list Z * list Z)))")
    g = grid_expr(case) if case["quant"] else "(@nil (Z * Z * Z))"
    pairs = "zpairs (grid_pairs %d %d %s %s)" % (case["H"], case["W"], cbool(case["wrap"]), mask_expr(case))
    rel = rel_expr(case) if rel_wanted(case, obs) else "0%Z"
    bf = bf_expr(case, obs) if case["route"] == "bf" and not obs["rec_problem"] else "0%Z"
    return "(%s, %s, %s, %s, %s, %s)" % (parts[0], parts[1], g, pairs, rel, bf)


def split_val(v):
    """-> (value for compare_case, value for compare_case2, rel value, bf value)"""
    offs, states = [], []
    for k in (0, 1):
        if isinstance(v[k], tuple) and v[k][0] == "Some":
            offs.append(("Some", v[k][1][0]))
            states.append(("Some", v[k][1][1]))
        else:
            offs.append(None)
            states.append(None)
    return (offs[0], offs[1], v[2]), (v[3], states[0], states[1]), v[4], v[5]


REL_MAX = 64      # pixels: the reliability / sort comparison runs on quantised cases up to this size


def rel_wanted(case, obs):
    return bool(case["quant"] and case["route"] == "direct" and case["H"] * case["W"] <= REL_MAX
                and obs["calls"] and not obs["rec_problem"] and case.get("rel_slot", True))


def rel_expr(case):
    phi, x, mask = case_arrays(case)
    ints = [int(round(float(v) * QDEN)) for v in x.flatten()]
    ph = "(phase_of %d [%s]%%Z)" % (QDEN, "; ".join(str(i) for i in ints))
    return ("(map qpair (rel_list PI32 %d %d %s), "
            "map (fun ke => (qpair (fst ke), (Z.of_nat (fst (snd ke)), Z.of_nat (snd (snd ke))))) "
            "(code_sorted PI32 %d %d %s %s %s))") % (
        case["H"], case["W"], ph, case["H"], case["W"], cbool(case["wrap"]), mask_expr(case), ph)


def bf_expr(case, obs):
    bf = [bool(v) for v in case["bf_mask"]]
    k = sum(bf)
    bfl = "[%s]" % "; ".join(cbool(b) for b in bf)
    ang = "[%s]" % "; ".join(cq(Fraction(float(v))) for v in obs["angle"])
    mbf = "[%s]" % "; ".join(cbool(b) for b in obs["mask_bf"])
    return ("(embed %s [%s]%%Z (-1)%%Z, embed %s %s false, bf_branch PI32 %s %s %s, map Z.of_nat (positions %s))"
            % (bfl, "; ".join(str(i) for i in range(k)), bfl, mbf, bfl, ang, mbf, bfl))


def compare_case(case, obs, val):
    """returns list of (key, what) correspondence mismatches; counts near-threshold exclusions"""
    bad = []
    near = 0
    n = case["H"] * case["W"]
    if obs["rec_problem"]:
        return [("recorder-correspondence", obs["rec_problem"])], 0
    expect_calls = 1 if case["route"] == "direct" else None
    if expect_calls is not None and len(obs["calls"]) != expect_calls:
        bad.append(("driver-correspondence", "the reliability driver called _build_edges %d times for one unwrap"
                    % len(obs["calls"])))
    for ci, call in enumerate(obs["calls"][:2]):
        mv = val[ci]
        offs = call["offs"]
        if offs is None or any(abs(o - round(o)) > 1e-6 for o in offs):
            bad.append(("uf-correspondence", "_final_offsets did not return integers: %r" % (offs,)))
            continue
        io = [int(round(o)) for o in offs]
        if not (isinstance(mv, tuple) and mv[0] == "Some"):
            bad.append(("uf-correspondence", "model union-find returned None (fuel exhausted)"))
        elif list(mv[1]) != io:
            diff = [i for i in range(n) if mv[1][i] != io[i]][:5]
            bad.append(("uf-correspondence",
                        "offsets of UnionFindPhase/_final_offsets differ from the model on the recorded edge list "
                        "at pixels %s: impl %s model %s" % (diff, [io[i] for i in diff], [mv[1][i] for i in diff])))
        elif case["route"] == "direct" and ci == 0:
            xin = np.array(call["phi"], np.float64)
            pred = xin + TWO_PI * np.array(io, float)
            pred = pred - pred.mean()
            dev = float(np.abs(pred - np.array(obs["out"])).max())
            if dev > TOL:
                bad.append(("driver-correspondence",
                            "output differs from phi + 2*pi*offsets - mean by %.3g" % dev))
    if case["quant"] and obs["calls"]:
        phi, x, mask = case_arrays(case)
        xf = [Fraction(float(v)) for v in x.flatten()]
        P = Fraction(math.pi)
        def canon(triples):
            # undirected: (a, b, inc) and (b, a, -inc) are the same constraint
            d = {}
            for a, b, inc in triples:
                if a > b:
                    a, b, inc = b, a, -inc
                d.setdefault((a, b), set()).add(inc)
            return d

        model = canon(val[2])
        impl = canon(obs["calls"][0]["edges"])
        if set(model) != set(impl):
            only_m = sorted(set(model) - set(impl))[:4]
            only_i = sorted(set(impl) - set(model))[:4]
            bad.append(("edges-correspondence", "edge sets differ: only in model %s, only in _build_edges %s"
                        % (only_m, only_i)))
        else:
            for e in impl:
                d = abs(xf[e[0]] - xf[e[1]])
                if abs(float(d - P)) < 1e-5:
                    near += 1
                    continue
                if impl[e] != model[e]:
                    bad.append(("edges-correspondence", "increment of edge %s: _build_edges %s, model %s (d=%.7f)"
                                % (e, sorted(impl[e]), sorted(model[e]), float(xf[e[0]] - xf[e[1]]))))
                    break
    return bad, near


def compare_case2(case, obs, val):
    """processing order = permutation of the model's grid edges (every recorded call); union-find
    state (parent, rank, offset) after the last union of every call, exactly"""
    bad = []
    if obs["rec_problem"]:
        return bad
    model_pairs = sorted((int(a), int(b)) for a, b in val[0])
    for ci, call in enumerate(obs["calls"][:2]):
        impl_pairs = sorted((a, b) for a, b, _ in call["edges"])
        if impl_pairs != model_pairs:
            only_m = [e for e in model_pairs if e not in set(impl_pairs)][:4]
            only_i = [e for e in impl_pairs if e not in set(model_pairs)][:4]
            bad.append(("edge-order-correspondence",
                        "the edges fed to the union-find (call %d: %d edges) are not a permutation of the grid edges of "
                        "the mask (%d edges): only in the model %s, only in the implementation %s"
                        % (ci, len(impl_pairs), len(model_pairs), only_m, only_i)))
        mv = val[1 + ci]
        st = call["state"]
        if st is None:
            continue
        if not (isinstance(mv, tuple) and mv[0] == "Some"):
            bad.append(("uf-correspondence", "model union-find state is None (fuel exhausted)"))
            continue
        mpar, mrank, moff = mv[1]
        if [int(v) for v in mpar] != st[0] or [int(v) for v in mrank] != st[1] or [float(v) for v in moff] != st[2]:
            which = "parent" if [int(v) for v in mpar] != st[0] else "rank" if [int(v) for v in mrank] != st[1] else "offset"
            bad.append(("uf-correspondence",
                        "UnionFindPhase.%s after the last union of call %d differs from the model's state" % (which, ci)))
    return bad


def nb_py(H, W, i, dr, dc):
    r, c = divmod(i, W)
    return ((r + dr) % H) * W + (c + dc) % W


def compare_rel(case, obs, val, stats):
    """_pixel_reliability vs the model's rel_list; the implementation's order vs the model's keys"""
    bad = []
    H, W = case["H"], case["W"]
    n = H * W
    phi, x, mask = case_arrays(case)
    mflat = np.ones(n, bool) if mask is None else mask.flatten()
    xf = x.astype(np.float64).flatten()
    call = obs["calls"][0]
    rel = call["rel"]
    if rel is None or len(rel) != n:
        return [("reliability-correspondence", "_pixel_reliability was not called before _build_edges or returned %s values"
                 % (None if rel is None else len(rel)))]
    model_rel = [Fraction(int(a), int(b)) for a, b in val[0]]
    # pixels where one of the eight wrapped differences sits within 1e-4 of the wrap discontinuity
    unsure = np.zeros(n, bool)
    for i in range(n):
        for dr, dc in ((0, -1), (0, 1), (-1, 0), (1, 0), (-1, -1), (1, 1), (-1, 1), (1, -1)):
            d = abs(xf[nb_py(H, W, i, dr, dc)] - xf[i])
            t = (d + math.pi) % TWO_PI
            if t < 1e-4 or t > TWO_PI - 1e-4:
                unsure[i] = True
    for i in range(n):
        if mask is not None and not mflat[i]:
            if rel[i] != float("inf"):
                bad.append(("reliability-correspondence", "pixel %d is outside the mask but its reliability is %r, not inf" % (i, rel[i])))
                break
            continue
        if unsure[i]:
            stats["rel_unsure"] += 1
            continue
        m = float(model_rel[i])
        stats["rel_compared"] += 1
        if not abs(rel[i] - m) <= 2e-3 + 1e-4 * abs(m):
            bad.append(("reliability-correspondence",
                        "_pixel_reliability at pixel %d (row %d, col %d) is %.6f, the model's wrapped second differences give %.6f"
                        % (i, i // W, i % W, rel[i], m)))
            break
    # the sort: along the implementation's order the model's keys must ascend (ties and near-ties free)
    key = {}
    keys_sorted = []
    for ka, kb, (a, b) in val[1]:
        k = Fraction(int(ka), int(kb))
        key[(int(a), int(b))] = k
        keys_sorted.append(k)
    if any(keys_sorted[i] > keys_sorted[i + 1] for i in range(len(keys_sorted) - 1)):
        bad.append(("reliability-correspondence", "the model's own sorted keys do not ascend"))
    ties = sum(1 for i in range(len(keys_sorted) - 1) if keys_sorted[i] == keys_sorted[i + 1])
    stats["sort_ties"] += ties
    touched_unsure = any(unsure[a] or unsure[b] for a, b, _ in call["edges"])
    if not touched_unsure and not bad:
        seq = []
        for a, b, _ in call["edges"]:
            if (a, b) not in key:
                seq = None
                break
            seq.append(float(key[(a, b)]))
        if seq is not None:
            stats["sort_compared"] += 1
            for i in range(len(seq) - 1):
                if seq[i] > seq[i + 1] + 5e-3 + 2e-4 * abs(seq[i]):
                    bad.append(("reliability-correspondence",
                                "the edges are not processed in ascending order of rel[i1] + rel[i2]: position %d has key %.5f, "
                                "position %d has key %.5f (model keys)" % (i, seq[i], i + 1, seq[i + 1])))
                    break
    elif touched_unsure:
        stats["sort_skipped_unsure"] += 1
    return bad


def predicted_output(call):
    xin = np.array(call["phi"], np.float64)
    pred = xin + TWO_PI * np.array([round(o) for o in call["offs"]], float)
    return pred - pred.mean()


def compare_bf(case, obs, val, stats):
    """the embedding pipeline stage by stage; structure (which sample sits where, the embedded
    mask, the branch, the read-back positions) comes from the model"""
    bad = []
    if obs["rec_problem"]:
        return bad
    H, W = case["H"], case["W"]
    n = H * W
    idx = [int(v) for v in val[0]]
    mg = [bool(v) for v in val[1]]
    branch = int(val[2])
    pos = [int(v) for v in val[3]]
    ang = np.array(obs["angle"], np.float64)
    res = np.array(obs["res"], np.float64)
    calls = obs["calls"]
    if len(idx) != n or len(mg) != n or len(pos) != len(ang):
        return [("bf-correspondence", "model embedding has the wrong size")]
    pg = np.array([ang[i] if i >= 0 else 0.0 for i in idx])
    mgf = np.array(mg, float)
    span = float(pg.max() - pg.min()) if n else 0.0
    if abs(span - math.pi) < 1e-5:
        stats["bf_span_near_pi"] += 1
        return bad
    want_calls = 0 if branch < 2 else (2 if case["two_pass"] else 1)
    stats["bf_branch_%d" % branch] += 1
    if len(calls) != want_calls:
        return [("bf-correspondence", "the embedding route ran %d unwrapping passes, the model takes branch %d (%d passes); "
                 "span of the embedded grid %.6f, two_pass=%s" % (len(calls), branch, want_calls, span, case["two_pass"]))]
    if branch < 2:
        if not np.array_equal(res, ang):
            bad.append(("bf-correspondence", "no unwrapping branch: the result is not the input angle"))
        return bad
    in1 = np.array(calls[0]["phi"], np.float64)
    if not np.array_equal(in1, pg * mgf):
        i = int(np.flatnonzero(in1 != pg * mgf)[0])
        bad.append(("bf-correspondence", "first-pass input at grid pixel %d is %r, embedded angle * mask is %r"
                    % (i, in1[i], (pg * mgf)[i])))
        return bad
    if any(c["offs"] is None for c in calls):
        return bad
    g = predicted_output(calls[0]) * mgf
    if case["two_pass"]:
        in2 = np.array(calls[1]["phi"], np.float64)
        dev = float(np.abs(in2 - g).max())
        if dev > TOL:
            bad.append(("bf-correspondence", "second-pass input differs from mask * (first-pass output) by %.3g" % dev))
            return bad
        g = predicted_output(calls[1]) * mgf
    dev = float(np.abs(res - g[pos]).max()) if len(pos) else 0.0
    if dev > TOL:
        bad.append(("bf-correspondence", "result differs from mask * (last output) read back at the bright-field pixels by %.3g" % dev))
    return bad


# ------------------------------------------------------------------------------------------


def corpus_cases():
    from ..common import VERIF
    p = VERIF / "corpus" / "C17" / "corpus.json"
    return json.loads(p.read_text()) if p.exists() else []


def gen_cases(ctx: Ctx):
    r = ctx.rng
    cases = list(corpus_cases())
    hi = ctx.budget(12, 32)
    shapes = [(1, 1), (1, 2), (2, 1), (1, 7), (6, 1), (2, 2), (2, 5), (3, 3), (3, 5), (4, 4)]
    nd = ctx.budget(200, 700)
    for k in range(nd):
        if k < len(shapes):
            H, W = shapes[k]
        elif r.random() < 0.7:
            H, W = r.randint(3, min(hi, 12)), r.randint(3, min(hi, 12))
        else:
            H, W = r.randint(2, hi), r.randint(2, hi)
        mode = r.choice(["smooth"] * 6 + ["already"] * 2 + ["noise"] * 2 + ["offset2pi"] * 2)
        cases.append(make_case(r, H, W, "direct", mode, steep=(mode != "noise" and r.random() < 0.2)))
    # thin grids (1 x N, N x 1, 2 x N, N x 2): self edges and duplicate edges under wrap_around
    for k in range(ctx.budget(24, 80)):
        N = r.randint(1, min(hi, 14))
        H, W = r.choice([(1, N), (N, 1), (2, N), (N, 2)])
        mode = r.choice(["smooth"] * 4 + ["already", "noise", "offset2pi"])
        cases.append(make_case(r, H, W, "direct", mode, wrap=(k % 2 == 0),
                               mask_kind=r.choice([None, "seam", "bernoulli", "isolated", "none"])))
    # masks that touch the wrap-around seam / single-pixel components, with and without wrap_around
    for k in range(ctx.budget(30, 100)):
        H, W = r.randint(3, min(hi, 12)), r.randint(3, min(hi, 12))
        mode = r.choice(["smooth"] * 5 + ["already", "offset2pi", "noise"])
        cases.append(make_case(r, H, W, r.choice(["direct", "direct", "bf"]) if mode in ("smooth", "noise") else "direct",
                               mode, wrap=(k % 3 != 0), mask_kind=r.choice(["seam", "seam", "isolated"]),
                               steep=(mode != "noise" and r.random() < 0.3)))
    for k in range(ctx.budget(70, 250)):
        H, W = r.randint(3, min(hi, 14)), r.randint(3, min(hi, 14))
        cases.append(make_case(r, H, W, "bf", r.choice(["smooth"] * 5 + ["noise", "flat"]),
                               steep=(r.random() < 0.15)))
    return cases


def check_grid(ctx: Ctx):
    cases = gen_cases(ctx)
    obs_all, exprs = [], []
    near_total = 0
    kept = []
    for case in cases:
        try:
            obs = run_impl(case)
        except Exception as e:  # noqa  the property promises a result for every such input
            ctx.count(None)
            ctx.violation("unwrap-raises" + ("-bf" if case["route"] == "bf" else ""),
                          "unwrapping raises %s: %s (H=%d W=%d wrap_around=%s mask=%s method=%s)" % (
                              type(e).__name__, e, case["H"], case["W"], case["wrap"], case["mask_kind"], case["method_kw"]),
                          {"kind": "grid", "case": case})
            continue
        kept.append(case)
        obs_all.append(obs)
        phi, x, mask = case_arrays(case)
        n = case["H"] * case["W"]
        mflat = np.ones(n, bool) if mask is None else mask.flatten()
        edges = edges_py(case["H"], case["W"], case["wrap"], None if mask is None else mflat)
        lab = components(n, edges)
        ncomp = len(set(lab[i] for i in range(n) if mflat[i]))
        wraps = bool(case["mode"] != "already" and mflat.any() and np.abs(phi - x).flatten()[mflat].max() > 1.0)
        hole = has_hole(case["H"], case["W"], mask)
        ctx.dist("route=%s" % case["route"])
        ctx.dist("mode=%s" % case["mode"])
        ctx.dist("field=%s" % case["field"])
        ctx.dist("mask=%s" % case["mask_kind"])
        ctx.dist("wrap_around=%s" % case["wrap"])
        ctx.dist("components=%s" % ("0" if ncomp == 0 else "1" if ncomp == 1 else "2" if ncomp == 2 else ">=3"))
        ctx.dist("mask_has_hole=%s" % hole)
        ctx.dist("size=%s" % ("<=16px" if n <= 16 else "<=64px" if n <= 64 else "<=144px" if n <= 144 else ">144px"))
        ctx.dist("wraps_present=%s" % wraps)
        ctx.dist("edge_increments_compared=%s" % case["quant"])
        ctx.dist("garbage_outside_mask=%s" % case.get("garbage_outside_mask", False))
        if case["route"] == "direct":
            ctx.dist("dtype=%s" % case.get("dtype", "float32"))
            ctx.dist("layout=%s" % case.get("layout", "contiguous"))
            ctx.dist("mask_dtype=%s" % (case.get("mask_dtype", "bool") if mask is not None else "no-mask"))
        else:
            ctx.dist("bf/wrap_kw=%s" % case.get("wrap_kw", "explicit"))
            ctx.dist("bf/passes=%d" % len(obs["calls"]))
        ctx.dist("steep(0.97..0.999*pi)=%s" % case.get("steep", False))
        sizes = {}
        for v in (lab[i] for i in range(n) if mflat[i]):
            sizes[v] = sizes.get(v, 0) + 1
        ctx.dist("single_pixel_component=%s" % any(v == 1 for v in sizes.values()))
        ctx.dist("thin_grid=%s" % (min(case["H"], case["W"]) <= 2))
        if case["wrap"] and mask is not None:
            seam = any((a // case["W"] == b // case["W"] and abs(a - b) == case["W"] - 1 and case["W"] > 2)
                       or (a % case["W"] == b % case["W"] and abs(a - b) == (case["H"] - 1) * case["W"] and case["H"] > 2)
                       for a, b in edges)
            ctx.dist("mask_uses_seam_edges=%s" % seam)
        ctx.count((case["route"], case["mode"], case["H"], case["W"], case["wrap"], tuple(case["x"]),
                   None if case["mask"] is None else tuple(case["mask"]), case.get("dtype"), case.get("layout"),
                   case.get("mask_dtype")),
                  nontrivial=(wraps or case["mode"] == "already") and len(edges) > 0)
        bad = oracle(case, obs)
        if bad:
            ctx.violation(bad[0], bad[1], {"kind": "grid", "case": case})
    cases = kept
    if not cases:
        return
    big = any(c["H"] * c["W"] > 200 for c in cases)
    # the reliability / sort comparison is the expensive part of the model run: bounded number of cases
    slots = ctx.budget(45, 250)
    for c, o in zip(cases, obs_all):
        c["rel_slot"] = True
        if rel_wanted(c, o):
            if slots <= 0:
                c["rel_slot"] = False
            slots -= 1
    exprs = [case_expr(c, o) for c, o in zip(cases, obs_all)]
    vals = ceval(ctx, "grid", exprs, 6 if big else 10)
    from collections import Counter
    stats = Counter()
    nd = 0
    for case, obs, v in zip(cases, obs_all, vals):
        v1, v2, vrel, vbf = split_val(v)
        mism, near = compare_case(case, obs, v1)
        mism = list(mism) + compare_case2(case, obs, v2)
        if rel_wanted(case, obs):
            mism += compare_rel(case, obs, vrel, stats)
            stats["rel_cases"] += 1
        if case["route"] == "bf" and not obs["rec_problem"]:
            mism += compare_bf(case, obs, vbf, stats)
            stats["bf_cases"] += 1
        near_total += near
        ctx.cov["traces_validated_against_impl"] += 1
        for key, what in mism:
            nd += 1
            ctx.cov["disagreements_checked"] += 1
            ctx.violation(key, what + "  [case H=%d W=%d wrap_around=%s mask=%s field=%s mode=%s route=%s]" % (
                case["H"], case["W"], case["wrap"], case["mask_kind"], case["field"], case["mode"], case["route"]),
                {"kind": "grid", "case": case}, found_input=oracle(case, obs) is not None)
    ctx.cov["round3_correspondence"] = dict(stats)
    ctx.cov["near_threshold_pairs_excluded"] = near_total
    mid = cases[len(cases) // 3]
    ctx.sample({"kind": "grid", "H": mid["H"], "W": mid["W"], "wrap_around": mid["wrap"], "mask": mid["mask"],
                "field": mid["field"], "mode": mid["mode"], "route": mid["route"],
                "n_edges": len(obs_all[len(cases) // 3]["calls"][0]["edges"]) if obs_all[len(cases) // 3]["calls"] else 0})
    ctx.log("grid: %d cases, %d correspondence mismatches, %d near-threshold pairs excluded" % (len(cases), nd, near_total))


def run_uf_direct(n, edges, trace=None):
    import quantem.core.utils.imaging_utils as iu
    uf = iu.UnionFindPhase(n)
    for a, b, inc in edges:
        uf.union(a, b, inc)
        if trace is not None:
            trace.append(uf_state_of(uf))
    return [float(v) for v in iu._final_offsets(uf).tolist()], uf_state_of(uf)


def state_eq(mv, st):
    """model value Some (parent, rank, offset) vs implementation state"""
    if not (isinstance(mv, tuple) and mv[0] == "Some"):
        return False
    mpar, mrank, moff = mv[1]
    return [int(v) for v in mpar] == st[0] and [int(v) for v in mrank] == st[1] and [float(v) for v in moff] == st[2]


def uf_direct_expr(n, edges, small):
    es = "(el [%s]%%Z)" % "; ".join("(%d, %d, %d)" % e for e in edges)
    tr = "uf_trace %d %s" % (n, es) if small else "(@nil (option (list Z * list Z * list Z)))"
    return "(uf_run_obs %d %s, %s)" % (n, es, tr)


def compare_uf_direct(n, edges, offs, st, trace, v):
    if not (isinstance(v[0], tuple) and v[0][0] == "Some"):
        return "model union-find returned None (fuel exhausted)"
    moffs, mstate = v[0][1]
    if [float(z) for z in moffs] != offs:
        return "final offsets: impl %s model %s" % (offs, moffs)
    if not state_eq(("Some", mstate), st):
        return "final (parent, rank, offset): impl %s model %s" % (st, mstate)
    if trace is not None:
        if len(v[1]) != len(trace):
            return "trace length: impl %d model %d" % (len(trace), len(v[1]))
        for k, (mv, t) in enumerate(zip(v[1], trace)):
            if not state_eq(mv, t):
                return "state after union %d %s: impl %s model %s" % (k, edges[k], t, mv)
    return None


def check_uf_direct(ctx: Ctx):
    """UnionFindPhase driven directly with arbitrary edge lists (cycles whose increments do not
    add up, repeated edges, self edges): final offsets, final (parent, rank, offset) and, for
    n <= 12, the state after EVERY union vs the model, exactly"""
    r = ctx.rng
    cases = []
    for _ in range(ctx.budget(150, 800)):
        n = r.choice([1, 2, 3, r.randint(2, 12), r.randint(5, 40)])
        m = r.randint(0, 3 * n)
        edges = [(r.randrange(n), r.randrange(n), r.randint(-3, 3)) for _ in range(m)]
        cases.append((n, edges))
    exprs, impl = [], []
    for n, edges in cases:
        small = n <= 12
        trace = [] if small else None
        offs, st = run_uf_direct(n, edges, trace)
        impl.append((offs, st, trace))
        exprs.append(uf_direct_expr(n, edges, small))
    vals = ceval(ctx, "ufdirect", exprs, 20)
    nd = 0
    nsteps = 0
    for (n, edges), (offs, st, trace), v in zip(cases, impl, vals):
        ctx.count(("uf", n, tuple(edges)), nontrivial=len(edges) >= n)
        ctx.dist("ufdirect/edges_vs_n=%s" % ("<n" if len(edges) < n else ">=n"))
        ctx.dist("ufdirect/per_step_trace=%s" % (trace is not None))
        ctx.cov["traces_validated_against_impl"] += 1
        nsteps += len(trace) if trace is not None else 0
        why = compare_uf_direct(n, edges, offs, st, trace, v)
        if why:
            nd += 1
            ctx.cov["disagreements_checked"] += 1
            ctx.violation("uf-correspondence",
                          "UnionFindPhase/_final_offsets and the model disagree on n=%d edges=%s: %s"
                          % (n, edges, why), {"kind": "uf", "n": n, "edges": [list(e) for e in edges]},
                          found_input=False)
    ctx.cov["uf_states_compared_per_step"] = nsteps
    ctx.sample({"kind": "uf", "n": cases[0][0], "edges": [list(e) for e in cases[0][1]], "impl_offsets": impl[0][0]})
    ctx.log("uf direct: %d cases, %d single-union states compared, %d mismatches" % (len(cases), nsteps, nd))


def wrap_direct_cases(r, k):
    xs = [0.0, math.pi / 2, -math.pi / 2, 3.0, -3.0, 6.0, -6.0, 9.5, -9.5]
    while len(xs) < k:
        xs.append(r.choice([r.uniform(-7, 7), r.uniform(-70, 70)]))
    return [round(v * QDEN) / QDEN for v in xs]


def run_wrap_direct(xs):
    import torch
    import quantem.core.utils.imaging_utils as iu
    t = torch.tensor(xs, dtype=torch.float32)
    return [float(v) for v in iu._wrap_to_pi(t).tolist()], [float(v) for v in iu._wrap_to_pi(t.double()).tolist()]


def check_wrap_direct(ctx: Ctx):
    """_wrap_to_pi (used inside _pixel_reliability) vs the model's wrapP on exactly representable
    arguments, float32 and float64; arguments within 1e-4 of the discontinuity are skipped"""
    xs = wrap_direct_cases(ctx.rng, ctx.budget(120, 400))
    w32, w64 = run_wrap_direct(xs)
    ints = [int(round(v * QDEN)) for v in xs]
    v = ceval(ctx, "wrapdirect", ["map qpair (map (wrapP PI32) (qlist %d [%s]%%Z))" % (QDEN, "; ".join(map(str, ints)))], 1)[0]
    nd = skipped = 0
    for x, a32, a64, (num, den) in zip(xs, w32, w64, v):
        m = float(Fraction(int(num), int(den)))
        t = (x + math.pi) % TWO_PI
        ctx.count(("wrap", x), nontrivial=abs(x) > math.pi)
        if t < 1e-4 or t > TWO_PI - 1e-4:
            skipped += 1
            continue
        ctx.cov["traces_validated_against_impl"] += 1
        if abs(a32 - m) > 2e-5 + 1e-6 * abs(x) or abs(a64 - m) > 2e-5 + 1e-6 * abs(x):
            nd += 1
            ctx.cov["disagreements_checked"] += 1
            ctx.violation("wrap-correspondence", "_wrap_to_pi(%r) = %r (float32) / %r (float64), the model's wrapP gives %r"
                          % (x, a32, a64, m), {"kind": "wrap", "x": x}, found_input=False)
    ctx.dist("wrapdirect/compared", len(xs) - skipped)
    ctx.log("wrap direct: %d values, %d skipped near the discontinuity, %d mismatches" % (len(xs), skipped, nd))


BIG_N = 2 ** 24 + 8     # one row with more than 2**24 pixels; the mask keeps the last 6


def big_inputs():
    import torch
    true = torch.arange(6, dtype=torch.float32) * 2.0
    phi = torch.zeros(1, BIG_N)
    mask = torch.zeros(1, BIG_N, dtype=torch.bool)
    mask[0, -6:] = True
    phi[0, -6:] = (true + math.pi) % TWO_PI - math.pi
    return true, phi, mask


def run_big(e2e: bool):
    import quantem.core.utils.imaging_utils as iu
    true, phi, mask = big_inputs()
    obs = {}
    rel = iu._pixel_reliability(phi, mask)
    i1, i2, inc = iu._build_edges(phi, rel, mask, wrap_around=False)
    obs["edges"] = sorted(zip(i1.tolist(), i2.tolist(), inc.tolist()))
    w = [float(v) for v in phi[0, -6:].tolist()]
    exp = []
    for k in range(5):
        d = w[k] - w[k + 1]
        exp.append((BIG_N - 6 + k, BIG_N - 5 + k, -1 if d > math.pi else 1 if d < -math.pi else 0))
    obs["expected"] = exp
    obs["edges_ok"] = obs["edges"] == exp
    crash_fast = any(a >= BIG_N or b >= BIG_N for a, b, _ in obs["edges"])
    if e2e or crash_fast:
        try:
            out = iu.unwrap_phase_2d_torch(phi, mask=mask, wrap_around=False)
            d = (out[0, -6:] - true).double()
            obs["spread"] = float(d.max() - d.min())
        except Exception as e:  # noqa
            obs["raised"] = "%s: %s" % (type(e).__name__, e)
    return obs


def oracle_big(obs):
    if "raised" in obs:
        return ("unwrap_phase_2d_torch raises %s for a 1 x %d grid (mask = last 6 pixels, ramp of slope 2 rad/pixel)"
                % (obs["raised"], BIG_N))
    if obs.get("spread", 0.0) > TOL:
        return ("1 x %d grid, mask = last 6 pixels, ramp of slope 2 rad/pixel: output - field varies by %.3g inside the "
                "connected mask region" % (BIG_N, obs["spread"]))
    return None


def check_big_index(ctx: Ctx):
    """grid shapes above 2**24 pixels: the pixel indices returned by _build_edges must still be
    the neighbouring mask pixels (quick: edge list only; thorough: also the full unwrap)"""
    obs = run_big(e2e=not ctx.quick)
    ctx.count(("bigindex", BIG_N), nontrivial=True)
    ctx.dist("size=>2^24px")
    ctx.cov["traces_validated_against_impl"] += 1
    bad = oracle_big(obs)
    if not obs["edges_ok"] or bad:
        what = bad or ""
        if not obs["edges_ok"]:
            what = ("_build_edges returns pixel indices that are not neighbouring mask pixels on a grid with more than "
                    "2**24 pixels (indices pass through float32): got %s, expected %s. %s" % (obs["edges"], obs["expected"], what))
        ctx.violation("edge-index-float32-precision", what,
                      {"kind": "bigindex", "shape": [1, BIG_N], "mask_true": list(range(BIG_N - 6, BIG_N)),
                       "field_on_mask": [2.0 * k for k in range(6)], "wrap_around": False, "impl": obs},
                      found_input=True)
    ctx.log("big index: edges_ok=%s %s" % (obs["edges_ok"], {k: v for k, v in obs.items() if k in ("raised", "spread")}))


def check_dispatch(ctx: Ctx):
    """the documented method names: default and "reliability-sorting" give the exact method
    (already covered by the oracle above: both spellings are used), "poisson" is accepted (its
    result is outside the claim and is not inspected), anything else is rejected"""
    import torch
    from quantem.core.utils.imaging_utils import unwrap_phase_2d_torch
    yy, xx = np.mgrid[0:6, 0:7].astype(float)
    phi = (0.9 * yy + 1.3 * xx).astype(np.float32)
    w = torch.from_numpy(((phi + math.pi) % TWO_PI - math.pi).astype(np.float32))
    ctx.count(("dispatch", "default"), nontrivial=True)
    try:
        b = unwrap_phase_2d_torch(w, method="reliability-sorting", wrap_around=False)
    except Exception as e:  # noqa
        ctx.violation("dispatch-reliability-name", "method='reliability-sorting' is rejected: %s: %s" % (type(e).__name__, e),
                      {"kind": "dispatch"})
        return
    try:
        a = unwrap_phase_2d_torch(w, wrap_around=False)
        same = float((a - b).abs().max()) <= TOL
    except Exception:  # noqa
        same = False
    if not same:
        ctx.violation("dispatch-default-method", "the default method is no longer reliability-sorting",
                      {"kind": "dispatch"})
    d = (b.numpy().astype(float) - phi.astype(float))
    if float(d.max() - d.min()) > TOL:
        ctx.violation("smooth-not-recovered", "method='reliability-sorting' does not recover a 6x7 ramp (spread %.3g)"
                      % float(d.max() - d.min()), {"kind": "dispatch"})
    try:
        p = unwrap_phase_2d_torch(w, method="poisson")
        ctx.dist("dispatch/poisson=%s" % ("ok" if tuple(p.shape) == (6, 7) else "shape"))
    except Exception as e:  # noqa  (outside the claim: recorded, not judged)
        ctx.dist("dispatch/poisson=raises:%s" % type(e).__name__)
    try:
        unwrap_phase_2d_torch(w, method="no-such-method")
        ctx.dist("dispatch/unknown=accepted")
    except Exception as e:  # noqa
        ctx.dist("dispatch/unknown=raises:%s" % type(e).__name__)


def run(ctx: Ctx):
    ctx.hash_sources("core/utils/imaging_utils.py",
                     ["_wrap_to_pi", "_find_wrap", "_pixel_reliability", "_build_edges", "UnionFindPhase",
                      "_final_offsets", "_unwrap_phase_2d_torch_reliability_sorting", "unwrap_phase_2d_torch"])
    ctx.hash_sources("diffractive_imaging/direct_ptycho_utils.py", ["unwrap_bf_overlap_phase_torch"])
    ctx.cov["rule"] = (
        "grid cases: (H, W, wrap_around, mask, field, mode, route, hand-over): shapes 1x1..12x12 quick / ..32x32 thorough "
        "plus a thin-grid family (1xN, Nx1, 2xN, Nx2: self / duplicate wrap edges) and a seam family; fields ramp, "
        "quadratic, Gaussian bump, ramp+bump, band-limited random, periodic (integer frequencies, for wrap_around), all "
        "scaled so the largest difference across a used edge is s*pi, s in [0.3, 0.96], steep family s in [0.97, 0.999] "
        "(>= 2e-3 below pi after float32 rounding); masks none/full/holes/split bands/Bernoulli/annular blob/seam (pieces "
        "that touch only across the wrap-around seam)/isolated (single-pixel components); modes smooth (wrapped by mod or "
        "angle), already (unwrapped input), offset2pi (wrapped input shifted by integer multiples of 2*pi, per component "
        "or globally), flat (embedding route: wrapped span below pi, returned as is), noise (non-smooth: congruence + "
        "correspondence only); routes unwrap_phase_2d_torch (float32/float64; half of the cases NON-CONTIGUOUS: transposed, "
        "Fortran-ordered numpy arrays through torch.from_numpy, every-other-row/column views, views with a storage offset, "
        "numpy views strided in both axes, the mask in the same layout; bool/uint8/int32/int64/float32/float64 masks, "
        "requires_grad) and unwrap_bf_overlap_phase_torch (masked embedding, one or two "
        "passes, wrap_around passed or defaulted). UnionFindPhase is also driven directly with random cyclic edge lists "
        "(state compared after every union for n <= 12), _wrap_to_pi directly. A case is distinct by its arrays and "
        "hand-over; non-trivial when the wrapped input differs from the field by at least one 2*pi jump (or mode=already) "
        "and there is at least one edge")
    ctx.assumptions += [
        "float32 arithmetic of the implementation vs exact rationals of the model: inputs keep every wrapped edge "
        "difference at least 2e-3 away from the threshold pi; quantised (k/65536) inputs make the edge-increment "
        "comparison exact; pairs within 1e-5 of the threshold are excluded and counted",
        "torch.roll/arange/stack/argsort, tensor indexing and .item() behave as documented (exercised, not proved)",
        "the reliability sort only chooses an order: the theorems hold for every order; the model's reliability values "
        "(float32 pi as the half-period) are compared with _pixel_reliability to 2e-3 on quantised inputs of at most 64 "
        "pixels, pixels with a wrapped difference within 1e-4 of the discontinuity skipped; torch.argsort is not stable, "
        "so only 'keys ascend along the real order' (5e-3 slack) is compared, ties free",
        "embedding route: torch.angle / boolean-mask assignment and indexing behave as documented; the structure "
        "(which sample sits where, branch, read-back positions) is computed by the model, the float arithmetic of each "
        "stage by numpy from the recorded data",
    ]
    ctx.cov["trusted_base"] += [
        "Coq 8.16.1 kernel incl. vm_compute (used to run the model); no native_compute",
        "hand-written model coq/model/C17_Model.v + C17_Model_Ext.v tied to /repo by this correspondence run AND by the "
        "translator tie (C17_wrap_tie, C17_union_find_tie, C17_build_edges_tie, C17_driver_tie re-proved on every run "
        "against the functions translated from the current source)",
        "harness/props/C17.py (generators, recorder around _pixel_reliability/_build_edges/_final_offsets, oracle, "
        "printers), harness/common.py",
        "theorems are over Q with an arbitrary half-period P; the implementation uses float32/float64 with P = pi "
        "(agreement to 1e-4 is validated on every case, not proved)",
    ]
    ctx.proofs_or_violation()
    # translator tie (round 4): the unwrapping code is translated from its CURRENT source and proved equal to the
    # model on every run (harness/translate_C17.py, harness/c17_tie.py, coq/gen_proofs/C17_Gen*.v)
    try:
        from ..c17_tie import run_tie
        run_tie(ctx)
    except Exception as e:  # noqa
        ctx.broken_obligation = "; ".join(filter(None, [ctx.broken_obligation, "translator tie could not run: %r" % (e,)]))
    check_grid(ctx)
    check_uf_direct(ctx)
    check_wrap_direct(ctx)
    check_dispatch(ctx)
    check_big_index(ctx)
    ctx.cov["coqc_cpu_seconds"] = {k: round(v, 1) for k, v in CPU.items()}
    ctx.log("coqc cpu seconds per batch: %s" % ctx.cov["coqc_cpu_seconds"])


def replay(ctx: Ctx, path):
    rp = json.loads(open(path).read())
    if rp.get("kind") == "grid":
        case = rp["case"]
        try:
            obs = run_impl(case)
        except Exception as e:  # noqa
            print("unwrapping raises %s: %s" % (type(e).__name__, e))
            return 1
        bad = oracle(case, obs)
        from collections import Counter
        stats = Counter()
        v = ceval(ctx, "replay", [case_expr(case, obs)], 1)[0]
        v1, v2, vrel, vbf = split_val(v)
        mism, near = compare_case(case, obs, v1)
        mism = list(mism) + compare_case2(case, obs, v2)
        if rel_wanted(case, obs):
            mism += compare_rel(case, obs, vrel, stats)
        if case["route"] == "bf" and not obs["rec_problem"]:
            mism += compare_bf(case, obs, vbf, stats)
        v = v1
        phi, x, mask = case_arrays(case)
        print("case: H=%d W=%d wrap_around=%s route=%s mode=%s field=%s mask=%s" % (
            case["H"], case["W"], case["wrap"], case["route"], case["mode"], case["field"], case["mask_kind"]))
        print("generating field:\n", phi)
        print("input:\n", x)
        print("mask:\n", mask)
        print("impl output:\n", np.array(obs["out"]).reshape(case["H"], case["W"]))
        print("impl offsets:", [c["offs"] for c in obs["calls"]])
        print("model:", v[:2])
        print("correspondence:", mism or "agrees")
        print("oracle:", bad or "property holds on this case")
        return 1 if (bad or mism) else 0
    if rp.get("kind") == "bigindex":
        obs = run_big(e2e=True)
        bad = oracle_big(obs)
        print("_build_edges:", obs["edges"])
        print("expected    :", obs["expected"])
        print("oracle:", bad or "property holds on this case")
        return 1 if (bad or not obs["edges_ok"]) else 0
    if rp.get("kind") == "uf":
        n, edges = rp["n"], [tuple(e) for e in rp["edges"]]
        trace = []
        offs, st = run_uf_direct(n, edges, trace)
        v = ceval(ctx, "replay", [uf_direct_expr(n, edges, True)], 1)[0]
        why = compare_uf_direct(n, edges, offs, st, trace, v)
        print("impl offsets:", offs, "state:", st)
        print("model:", v[0])
        print("correspondence:", why or "agrees")
        return 1 if why else 0
    if rp.get("kind") == "wrap":
        w32, w64 = run_wrap_direct([rp["x"]])
        print("_wrap_to_pi(%r) = %r / %r" % (rp["x"], w32[0], w64[0]))
        return 0
    if rp.get("kind") == "xtest":
        # translator cross-test: re-run the tie (translation, proofs, cross-test) on the current source
        from ..c17_tie import run_tie
        ok = run_tie(ctx)
        print("translator tie re-run:", "holds" if ok and not ctx.n_violations else "BROKEN: %s" % (ctx.broken_obligation or rp.get("what")))
        return 0 if ok and not ctx.n_violations else 1
    print("replay of kind %r: re-run ./check C17" % rp.get("kind"))
    return 0
