"""c17_tie.py — the translator tie of C17, re-established on every run:

  harness/translate_C17.py (source of imaging_utils.py)  ->  build/C17/Gen_C17.v
  coqc Gen_C17.v
  coqc coq/gen_proofs/C17_GenProofs.v        FIXED script: gen_* = the model's definitions
  coqc coq/gen_proofs/C17_GenProperties.v    Theorem C17_*_tie + Print Assumptions (counted as obligations)

and the translator's own cross-test: the generated functions are evaluated by vm_compute and compared
with calling the real Python functions (`_wrap_to_pi`, `_find_wrap`, `UnionFindPhase` + `_final_offsets`,
`_build_edges`, the reliability-sorting driver), so that a translator bug is not silent."""
from __future__ import annotations

import math
import re
import time
from fractions import Fraction

import numpy as np

from .common import COQ, COQ_FLAGS, SRC, Ctx, cbool, cq, parse_coq_value, sh
from .translate_C17 import TRUSTED, Reject, translate

GEN_DIR = COQ / "gen_proofs"
QDEN = 65536
TWO_PI = 2 * math.pi

PRE = """From QV.lib Require Import Prelude.
From QV.model Require Import C17_Model C17_Model_Ext C17_Model_Tie.
From GenC17 Require Import Gen_C17.
From Coq Require Import QArith.
Local Close Scope Q_scope.
Definition PI : Q := %s.
Definition PI32 : Q := %s.
Fixpoint grun (fuel : nat) (st : uf) (es : list edge) : option uf :=
  match es with
  | [] => Some st
  | (x, y, i) :: r => match gen_union fuel st x y i with Some st' => grun fuel st' r | None => None end
  end.
Definition gobs (n : nat) (es : list edge) :=
  match grun (S (length es)) (gen_uf_init n) es with
  | Some st => option_map (fun o => (o, st_z st)) (gen_final_offsets (S (length es)) st)
  | None => None
  end.
""" % (cq(Fraction(math.pi)), cq(Fraction(float(np.float32(math.pi)))))


def _theorems(props):
    return re.findall(r"(?m)^\s*Theorem\s+(\w+)", props.read_text())


def run_tie(ctx: Ctx) -> bool:
    """returns True when the tie theorems were re-proved on this run"""
    t0 = time.time()
    rec = {"status": "ok"}
    ctx.cov["translator_tie"] = rec
    for s in TRUSTED:
        if s not in ctx.cov["trusted_base"]:
            ctx.cov["trusted_base"].append(s)
    saved_cmd = ctx.cov.get("checker_cmd", "")
    saved_problems = list(getattr(ctx, "_proof_problems", []))
    problems = []
    props = GEN_DIR / "C17_GenProperties.v"
    script = GEN_DIR / "C17_GenProofs.v"

    def not_checked(why):
        ths = _theorems(props)
        ctx.cov["obligations"] += len(ths)
        for t in ths:
            ctx.cov["theorems"][t] = "NOT CHECKED (%s)" % why

    try:
        text, info = translate(SRC)
        rec.update(info)
    except Reject as e:
        problems.append("translator tie: the generated functions can no longer be shown equal to the model: the translator "
                        "(fail closed) rejected the current source of the unwrapping code: %s" % e)
        not_checked("translator rejected the source")
        text = None
    except Exception as e:  # noqa  (a crash of the translator is a rejection too)
        problems.append("translator tie: the translator failed on the current source: %r" % (e,))
        not_checked("translator failed")
        text = None
    compiled = False
    if text is not None:
        gen = ctx.dir / "Gen_C17.v"
        for stale in (gen.with_suffix(".vo"), ctx.dir / "C17_GenProofs.vo", ctx.dir / "C17_GenProperties.vo"):
            if stale.exists():
                stale.unlink()
        gen.write_text(text)
        rec["generated_file"] = str(gen)
        flags = COQ_FLAGS + ["-Q", str(ctx.dir), "GenC17"]
        bad = ctx.static_scan([gen, script, props])
        if bad:
            problems.append("forbidden declarations: %s" % bad[:5])
        rc, out = ctx.coq_make(["proof/C17_Proofs_Tie.vo", "proof/C17_Proofs_Ext.vo"])
        if rc != 0:
            problems.append("translator tie: library build failed:\n" + "\n".join(out.strip().splitlines()[-10:]))
        rc, out = sh(["timeout", "300", "coqc"] + flags + [str(gen)], cwd=ctx.dir, timeout=330)
        if rc != 0:
            problems.append("translator tie: generated file Gen_C17.v does not compile (the translated code is ill-typed "
                            "against the fixed meanings):\n" + "\n".join(out.strip().splitlines()[-12:]))
            not_checked("generated file does not compile")
        else:
            compiled = True
            rc, out = sh(["timeout", "300", "coqc"] + flags + ["-o", str(ctx.dir / "C17_GenProofs.vo"), str(script)],
                         cwd=ctx.dir, timeout=330)
            if rc != 0:
                problems.append("translator tie: the functions translated from the current source of imaging_utils.py no "
                                "longer equal the model (coq/model/C17_Model.v): fixed proof script C17_GenProofs.v fails:\n"
                                + "\n".join(out.strip().splitlines()[-14:]))
                not_checked("fixed proof script fails")
            elif not ctx.require_proofs(props_name="C17_GenProperties", props_path=props,
                                        extra_flags=["-Q", str(ctx.dir), "GenC17"], make_targets=[]):
                problems += ["translator tie: " + p for p in ctx._proof_problems]
    ctx._proof_problems = saved_problems
    ctx.cov["checker_cmd"] = (saved_cmd + "  ;  python -m harness.translate_C17 > build/C17/Gen_C17.v && coqc ... Gen_C17.v && "
                              "coqc ... coq/gen_proofs/C17_GenProofs.v && coqc ... coq/gen_proofs/C17_GenProperties.v")
    rec["wall_s"] = round(time.time() - t0, 2)
    if compiled:
        try:
            crosstest(ctx, rec)
        except Exception as e:  # noqa
            problems.append("translator cross-test could not run: %r" % (e,))
    rec["wall_s_with_crosstest"] = round(time.time() - t0, 2)
    if problems:
        rec["status"] = "broken"
        rec["problems"] = [p[:1500] for p in problems]
        msg = "; ".join(problems)
        ctx.broken_obligation = (ctx.broken_obligation + "; " + msg) if ctx.broken_obligation else msg
        ctx.log("PROOF OBLIGATION BROKEN (translator tie):", msg[:2500])
        return False
    ctx.log("translator tie: %d definitions translated from %s, tied by theorem to the model (%.1fs + cross-test %.1fs)"
            % (rec.get("generated_definitions", 0), rec.get("source"), rec["wall_s"],
               rec["wall_s_with_crosstest"] - rec["wall_s"]))
    return True


# ------------------------------------------------------------------------------------------ cross-test
def _eval(ctx, name, exprs, shard):
    raw = ctx.coq_eval(name, PRE, exprs, shard=shard, parse=False, extra_flags=["-Q", str(ctx.dir), "GenC17"])
    return [parse_coq_value(re.sub(r"\s+", " ", re.sub(r"%\w+", "", v))) for v in raw]


def _ints(x):
    out = [int(round(float(v) * QDEN)) for v in x]
    assert all(i / QDEN == float(v) for i, v in zip(out, x))
    return out


def _small_case(r):
    """quantised smooth field on a small grid, optional mask"""
    H, W = r.randint(1, 5), r.randint(1, 5)
    yy, xx = np.mgrid[0:H, 0:W].astype(float)
    f = r.uniform(-1.4, 1.4) * yy + r.uniform(-1.4, 1.4) * xx + r.uniform(-.2, .2) * yy * xx + r.uniform(-3, 3)
    w = (f + math.pi) % TWO_PI - math.pi
    w = (np.round(w * QDEN) / QDEN).astype(np.float32)
    mask = None
    if r.random() < 0.6:
        mask = np.array([[r.random() < 0.75 for _ in range(W)] for _ in range(H)], bool)
    return H, W, w, mask, r.random() < 0.5


def crosstest(ctx: Ctx, rec):
    import torch
    import quantem.core.utils.imaging_utils as iu
    r = ctx.rng
    exprs, checks = [], []

    # (a) _wrap_to_pi / _find_wrap on exactly representable arguments
    xs = [round(v * QDEN) / QDEN for v in [0.0, 3.0, -3.0, 9.5, -9.5] + [r.uniform(-40, 40) for _ in range(55)]]
    exprs.append("map qpair (map (gen_wrap_to_pi PI32) (qlist %d [%s]%%Z))" % (QDEN, "; ".join(map(str, _ints(xs)))))
    w32 = [float(v) for v in iu._wrap_to_pi(torch.tensor(xs, dtype=torch.float32)).tolist()]

    def chk_wrap(v):
        bad = []
        for x, a, (num, den) in zip(xs, w32, v):
            t = (x + math.pi) % TWO_PI
            if t < 1e-4 or t > TWO_PI - 1e-4:
                continue
            m = float(Fraction(int(num), int(den)))
            if abs(a - m) > 2e-5 + 1e-6 * abs(x):
                bad.append("_wrap_to_pi(%r) = %r, translated function gives %r" % (x, a, m))
        return bad
    checks.append(chk_wrap)
    ab = [(round(r.uniform(-7, 7) * QDEN) / QDEN, round(r.uniform(-7, 7) * QDEN) / QDEN) for _ in range(60)]
    ab = [(a, b) for a, b in ab if abs(abs(a - b) - math.pi) > 1e-4]
    exprs.append("[%s]%%Z" % "; ".join("gen_find_wrap PI (%s) (%s)" % (cq(Fraction(a)), cq(Fraction(b))) for a, b in ab))
    fw = [int(v) for v in iu._find_wrap(torch.tensor([a for a, _ in ab], dtype=torch.float64),
                                        torch.tensor([b for _, b in ab], dtype=torch.float64)).tolist()]

    def chk_fw(v):
        got = [int(z) for z in v]
        return [] if got == fw else ["_find_wrap: implementation %s, translated function %s" % (fw, got)]
    checks.append(chk_fw)

    # (b) UnionFindPhase + _final_offsets on random edge lists (cycles, repeats, self edges)
    for _ in range(30 if ctx.quick else 150):
        n = r.choice([1, 2, 3, r.randint(2, 10)])
        edges = [(r.randrange(n), r.randrange(n), r.randint(-3, 3)) for _ in range(r.randint(0, 3 * n))]
        uf = iu.UnionFindPhase(n)
        for a, b, i in edges:
            uf.union(a, b, i)
        offs = [float(v) for v in iu._final_offsets(uf).tolist()]
        st = ([int(v) for v in uf.parent.tolist()], [int(v) for v in uf.rank.tolist()], [float(v) for v in uf.offset.tolist()])
        exprs.append("gobs %d (el [%s]%%Z)" % (n, "; ".join("(%d, %d, %d)" % e for e in edges)))

        def chk_uf(v, n=n, edges=edges, offs=offs, st=st):
            if not (isinstance(v, tuple) and v[0] == "Some"):
                return ["union-find n=%d edges=%s: translated functions ran out of fuel" % (n, edges)]
            mo, (mp, mr, mf) = v[1]
            if [float(z) for z in mo] != offs or [int(z) for z in mp] != st[0] or [int(z) for z in mr] != st[1] \
                    or [float(z) for z in mf] != st[2]:
                return ["union-find n=%d edges=%s: implementation offsets %s state %s, translated functions %s"
                        % (n, edges, offs, st, v[1])]
            return []
        checks.append(chk_uf)

    # (c) _build_edges and (d) the driver on small quantised grids with the REAL reliabilities
    for _ in range(24 if ctx.quick else 120):
        H, W, w, mask, wrap = _small_case(r)
        phi_t = torch.from_numpy(w.copy())
        mask_t = None if mask is None else torch.from_numpy(mask.copy())
        rel = iu._pixel_reliability(phi_t, mask_t)
        i1, i2, inc = iu._build_edges(phi_t, rel, mask_t, wrap_around=wrap)
        real = list(zip([int(v) for v in i1.tolist()], [int(v) for v in i2.tolist()], [int(v) for v in inc.tolist()]))
        relf = [float(v) for v in rel.flatten().tolist()]
        relq = "[%s]" % "; ".join(cq(Fraction(v)) if math.isfinite(v) else "0%Q" for v in relf)
        ph = "(fn_of %d [%s]%%Z)" % (QDEN, "; ".join(map(str, _ints(w.flatten()))))
        n = H * W
        nedges = len(real)
        if mask is None:
            be = "gen_build_edges_nomask PI %d %d %s (fnq %s) %s" % (H, W, ph, relq, cbool(wrap))
            dr = "gen_unwrap_nomask %d PI %d %d %s %s (fnq %s)" % (2 * n + 2, H, W, ph, cbool(wrap), relq)
        else:
            ml = "(mask_of [%s])" % "; ".join(cbool(bool(b)) for b in mask.flatten())
            be = "gen_build_edges_mask PI %d %d %s (fnq %s) %s %s" % (H, W, ph, relq, ml, cbool(wrap))
            dr = "gen_unwrap_mask %d PI %d %d %s %s %s (fnq %s)" % (2 * n + 2, H, W, ph, ml, cbool(wrap), relq)
        out = iu.unwrap_phase_2d_torch(phi_t, mask=mask_t, wrap_around=wrap).double().flatten().tolist()
        exprs.append("(triples_of (%s), option_map (map qpair) (%s))" % (be, dr))

        def chk_be(v, real=real, relf=relf, w=w, out=out, desc=(H, W, wrap, None if mask is None else mask.tolist())):
            bad = []
            gen = [(int(a), int(b), int(c)) for a, b, c in v[0]]
            xf = [float(z) for z in w.flatten()]
            near = {(a, b) for a, b, _ in real if abs(abs(xf[a] - xf[b]) - math.pi) < 1e-5}
            if sorted(e for e in gen if e[:2] not in near) != sorted(e for e in real if e[:2] not in near):
                bad.append("_build_edges%s: implementation %s, translated function %s" % (desc, sorted(real), sorted(gen)))
            else:
                keys = [relf[a] + relf[b] for a, b, _ in gen]
                gaps = [abs(keys[i] - keys[j]) for i in range(len(keys)) for j in range(i)]
                if (not gaps or min(gaps) > 1e-3) and not near and gen != real:
                    bad.append("_build_edges%s: order of the implementation %s differs from the translated function's %s "
                               "although all sort keys are distinct" % (desc, real, gen))
            if not (isinstance(v[1], tuple) and v[1][0] == "Some"):
                bad.append("driver%s: the translated driver ran out of fuel" % (desc,))
            elif not near:
                g = np.array([float(Fraction(int(a), int(b))) for a, b in v[1][1]])
                o = np.array(out)
                m = np.ones(len(o), bool) if desc[3] is None else np.array(desc[3], bool).flatten()
                # every order gives the same result up to one constant per connected component only for smooth
                # fields; compare modulo 2*pi per pixel and exactly up to a constant
                d = (g - o)[m]
                if len(d) and float(np.abs(d - np.round((d - d[0]) / TWO_PI) * TWO_PI - d[0]).max()) > 1e-4:
                    bad.append("driver%s: implementation output and translated driver differ by more than multiples of 2*pi "
                               "plus a constant" % (desc,))
                keys = [relf[a] + relf[b] for a, b, _ in gen]
                gaps = [abs(keys[i] - keys[j]) for i in range(len(keys)) for j in range(i)]
                if (not gaps or min(gaps) > 1e-3) and len(d) and float(np.abs(g - o).max()) > 1e-4:
                    bad.append("driver%s: implementation output differs from the translated driver's by %.3g (all sort keys "
                               "distinct)" % (desc, float(np.abs(g - o).max())))
            return bad
        checks.append(chk_be)

    vals = _eval(ctx, "tie_xtest", exprs, 25)
    nbad = 0
    for chk, v in zip(checks, vals):
        ctx.cov["traces_validated_against_impl"] += 1
        for what in chk(v):
            nbad += 1
            ctx.cov["disagreements_checked"] += 1
            ctx.violation("translator-crosstest", "the translated functions (build/C17/Gen_C17.v) and the real Python "
                          "functions disagree: " + what[:1500], {"kind": "xtest", "what": what[:4000]}, found_input=False)
    rec["crosstest_inputs"] = len(xs) + len(ab) + len(checks) - 2
    rec["crosstest_mismatches"] = nbad
    ctx.dist("translator_crosstest/inputs", rec["crosstest_inputs"])
