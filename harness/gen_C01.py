"""Seeded generators of object-graph specs for C01 / C14 and the driver shared by both checks.
A spec is a JSON-able nested list (see impl_C01.build).  All randomness comes from the
`random.Random` handed in (ctx.rng)."""
from __future__ import annotations

import concurrent.futures as cf
import copy
import hashlib
import json
import multiprocessing as mp
import os

ATTR_NAMES = ["a", "b", "c", "x", "y", "data", "_priv", "name", "shape", "values", "k_1", "T", "class_name",
              "version", "level", "items", "w0", "obj", "cfg", "meta"]
DICT_KEYS = ATTR_NAMES + ["0", "1", "10", "007", "a b", "k.v", "x-y", "with:colon", "_tensor_shape", "logger_name",
                          "UPPER", "ünï", "50%", "c", "log_dir", ".hidden", ".cache", "..x", "~tmp", "#1"]
NP_DTYPES = ["bool", "int8", "int16", "int32", "int64", "uint8", "uint16", "uint32", "uint64",
             "float16", "float32", "float64"]
ARR_DTYPES = ["bool", "int8", "int16", "int32", "int64", "uint8", "uint16", "uint32", "uint64", "float16", "float32",
              "float64", "complex64", "complex128", "<U3", "S3", "datetime64[ns]", "timedelta64[s]"]
SHAPES = [[], [], [0], [0, 3], [2, 0, 2], [1], [3], [5], [2, 3], [2, 1, 2], [4, 4]]
TENSOR_DTYPES = ["float32", "float64", "float16", "bfloat16", "int64", "int32", "uint8", "bool", "complex64"]
STRS = ["", "a", "hello world", "a/b", "üñí", 'q"uote', "50%", "123", "x.is_path", "None", "line\nbreak"]
FLOATS = [0.0, -0.0, 1.0, 0.1, -2.5, 1e22, 5e-324, 1.7976931348623157e308, float("inf"), float("-inf"), float("nan"),
          3.141592653589793, 2.0 ** 53, 1 / 3]
INTS = [0, 1, -1, 7, 255, -128, 2 ** 31, 2 ** 62, -2 ** 63, 2 ** 63 - 1, 2 ** 70, -2 ** 100, 10 ** 18]
BITGENS = ["PCG64", "MT19937", "Philox", "SFC64"]
TWIN_CLASSES = ["twin.NodeA", "twin.NodeB"]         # harness.c01_classes_twin: same names, other module
ATTRS_CLASSES = ["NodeAttrs", "NodeSlots"]          # attrs-decorated classes of harness.c01_classes (fixed fields)
ATTRS_FIELDS = ["a", "b", "x", "data"]


def _np_scalar(r, dt=None, small=False):
    dt = dt or r.choice(NP_DTYPES)
    if dt == "bool":
        return ["np", dt, r.random() < 0.5]
    if dt.startswith("float"):
        import numpy as np
        x = r.choice([0.1, -2.5, 1.0, 3.0, 0.333, 1e3, float("inf")]) if not small else r.choice([0.5, 1.0, -2.25, 3.0])
        return ["np", dt, float(getattr(np, dt)(x)).hex()]
    bits = int(dt.lstrip("uint"))
    if dt.startswith("u"):
        hi = 2 ** bits - 1
        v = r.choice([0, 1, 5, hi if not small else 9, r.randint(0, min(hi, 1000))])
    else:
        hi = 2 ** (bits - 1) - 1
        v = r.choice([0, 1, -3, hi if not small else 9, -hi - 1 if not small else -9, r.randint(-100, 100)])
    return ["np", dt, v]


def gen_numeric_seq(r):
    """all-numeric sequence inside the quantified domain: integers within int64, and within
    +-2**53 when a float (or the uint64+signed promotion to float64) is present"""
    n = r.randint(1, 5)
    flavour = r.choice(["bools", "ints", "ints+bools", "floats", "floats+ints", "npints", "npfloats", "npmix",
                        "u64+signed", "u64+small"])
    out = []
    for _ in range(n):
        if flavour == "bools":
            out.append(["bool", r.random() < 0.5])
        elif flavour == "ints":
            out.append(["int", r.choice([0, 1, -1, 2 ** 62, -2 ** 63, 2 ** 63 - 1, r.randint(-1000, 1000)])])
        elif flavour == "ints+bools":
            out.append(r.choice([["bool", r.random() < 0.5], ["int", r.randint(-9, 9)]]))
        elif flavour == "floats":
            out.append(["float", r.choice([x for x in FLOATS if x == x] + [r.random()]).hex()])
        elif flavour == "floats+ints":
            out.append(r.choice([["float", r.choice([0.5, -0.25, 1e10, r.random()]).hex()],
                                 ["int", r.choice([0, 3, -7, 2 ** 53, -2 ** 53, r.randint(-10 ** 6, 10 ** 6)])],
                                 ["bool", True]]))
        elif flavour == "npints":
            out.append(_np_scalar(r, r.choice(["int8", "int16", "int32", "int64", "uint8", "uint16", "uint32"])))
        elif flavour == "npfloats":
            out.append(_np_scalar(r, r.choice(["float16", "float32", "float64"])))
        elif flavour == "npmix":
            out.append(r.choice([_np_scalar(r, r.choice(["int8", "int32", "uint16", "float32", "bool"]), small=True),
                                 ["int", r.randint(-50, 50)], ["float", r.choice([0.5, 2.0]).hex()]]))
        elif flavour == "u64+signed":
            out.append(r.choice([["np", "uint64", r.choice([0, 5, 2 ** 53])], ["int", r.randint(-9, 9)],
                                 ["np", "int8", -3]]))
        else:
            out.append(r.choice([["np", "uint64", r.choice([0, 5, 2 ** 63 - 1])], ["np", "uint8", 7], ["bool", True]]))
    return out


def gen_leaf(r, in_cont, torch_ok=True):
    kinds = ["none", "bool", "int", "float", "str", "path", "np", "arr", "arr", "arr0", "arrE"]
    if torch_ok:
        kinds += ["tensor", "tensor", "module", "logger", "rng", "complex", "npcomplex"]
        if not in_cont:
            kinds += ["optimizer", "scheduler", "tgen"]
    k = r.choice(kinds)
    if k == "none":
        return ["none"]
    if k == "bool":
        return ["bool", r.random() < 0.5]
    if k == "int":
        return ["int", r.choice(INTS + [r.randint(-10 ** 6, 10 ** 6)])]
    if k == "float":
        return ["float", r.choice(FLOATS + [r.random(), r.uniform(-1e6, 1e6)]).hex()]
    if k == "str":
        return ["str", r.choice(STRS)]
    if k == "path":
        return ["path", r.choice(["/a/b", "rel/x.txt", ".", "/", "data dir/fü"])]
    if k == "np":
        return _np_scalar(r)
    if k == "arr":
        # "zeros": every element is the fill value (the store keeps no chunk for such an array)
        return ["arr", r.choice(ARR_DTYPES), r.choice(SHAPES), r.randrange(10 ** 6), r.choice(["C", "C", "C", "F", "F", "strided", "strided", "zeros"])]
    if k == "arr0":
        return ["arr", r.choice(ARR_DTYPES), [], r.randrange(10 ** 6), "C"]
    if k == "arrE":
        return ["arr", r.choice(ARR_DTYPES), r.choice([[0], [0, 3], [2, 0], [1, 0, 4]]), r.randrange(10 ** 6), "C"]
    if k == "tensor":
        dt = r.choice(TENSOR_DTYPES)
        floaty = dt.startswith(("float", "bfloat", "complex"))
        is_param = floaty and r.random() < 0.25
        return ["tensor", dt, r.choice([[], [0], [3], [2, 2], [1, 2, 1]]), bool(floaty and r.random() < 0.5), is_param,
                r.randrange(10 ** 6)]
    if k == "module":
        return ["module", r.choice(["linear", "seq", "modulelist", "tiny", "tiny-nobuf"]), r.randrange(10 ** 6)]
    if k == "logger":
        return ["logger", "c01.lg%d" % r.randint(0, 5), r.choice([0, 10, 20, 30, 40])]
    if k == "rng":
        return ["rng", r.choice(BITGENS), r.randrange(10 ** 6)]
    if k == "optimizer":
        return ["optimizer", r.choice(["adam", "sgd"]), r.randrange(10 ** 6), r.randint(0, 2)]
    if k == "scheduler":
        return ["scheduler", r.choice(["adam", "sgd"]), r.randrange(10 ** 6), r.randint(0, 3)]
    if k == "tgen":
        return ["tgen", r.randrange(10 ** 6)]
    if k == "npcomplex":
        return ["np", r.choice(["complex64", "complex128"]), [r.choice([0.0, 1.5, -2.0]), r.choice([1.0, -0.5, 0.0])]]
    return ["complex", r.choice([0.0, 1.5, -2.0]), r.choice([1.0, -0.5])]


def gen_hashable(r):
    k = r.choice(["int", "str", "float", "none", "path", "tuple", "bool", "np", "rng", "complex"])
    if k == "rng":
        return ["rng", r.choice(BITGENS), r.randrange(10 ** 6)]
    if k == "complex":
        return ["complex", float(r.randint(2, 99)), r.choice([1.0, -0.5])]
    if k == "int":
        return ["int", r.randint(2, 10 ** 6)]
    if k == "str":
        return ["str", r.choice(["s", "t", "uv", "", "7"])]
    if k == "float":
        return ["float", r.choice([2.5, -0.75, 1e9, 0.1]).hex()]
    if k == "none":
        return ["none"]
    if k == "path":
        return ["path", r.choice(["/p", "q/r"])]
    if k == "bool":
        return ["bool", True]
    if k == "np":
        return ["np", "int16", r.randint(20, 99)]
    return ["tuple", [["int", r.randint(100, 999)], ["str", r.choice(["a", "b"])]] if r.random() < 0.5 else
            [["int", r.randint(100, 999)], ["int", r.randint(0, 9)]]]


def _distinct_set(r, n, numeric):
    out, seen = [], set()
    for _ in range(n * 3):
        if len(out) >= n:
            break
        e = (["int", r.randint(2, 999)] if r.random() < 0.6 else ["float", (r.randint(2, 99) + 0.5).hex()]) \
            if numeric else gen_hashable(r)
        key = json.dumps(e)
        # keep python-equal elements apart (1 == 1.0 == True would be merged by the set itself)
        pyval = (e[1] if e[0] in ("int", "bool") else float.fromhex(e[1]) if e[0] == "float" else key)
        if pyval in seen or key in seen:
            continue
        seen.add(pyval)
        seen.add(key)
        out.append(e)
    return out


def gen_value(r, depth, in_cont, width, allow_obj=True, torch_ok=True):
    if depth <= 0 or r.random() < 0.35:
        return gen_leaf(r, in_cont, torch_ok)
    k = r.choice(["list", "list", "tuple", "dict", "dict", "set", "obj", "numseq", "numseq", "empty"])
    if k == "obj" and not (allow_obj or not in_cont):
        k = "dict"
    if k == "empty":
        return r.choice([["list", []], ["tuple", []], ["dict", []], ["set", []]])
    if k == "numseq":
        return [r.choice(["list", "tuple", "set"]), gen_numeric_seq(r)] if r.random() < 0.8 else \
            ["set", _distinct_set(r, r.randint(1, 4), True)]
    if k in ("list", "tuple"):
        return [k, [gen_value(r, depth - 1, True, width, allow_obj, torch_ok) for _ in range(r.randint(0, width))]]
    if k == "set":
        if r.random() < 0.5:
            nums = gen_numeric_seq(r)
            if all(e[0] != "float" or float.fromhex(e[1]) == float.fromhex(e[1]) for e in nums):
                return ["set", nums]
        return ["set", _distinct_set(r, r.randint(0, width), False)]
    if k == "dict":
        keys = r.sample(DICT_KEYS, r.randint(0, width))
        return ["dict", [[kk, gen_value(r, depth - 1, True, width, allow_obj, torch_ok)] for kk in keys]]
    return gen_obj(r, depth - 1, width, allow_obj, torch_ok)


def gen_obj(r, depth, width, allow_obj_in_cont=True, torch_ok=True, names=None):
    cls = r.choice(["NodeA", "NodeB", "NodeC"])
    if r.random() < 0.15:
        cls = r.choice(TWIN_CLASSES)        # a class of the same name from a second module
    if names is None and r.random() < 0.12:
        # attrs-decorated class: the serializer reads the declared fields (fields left out keep their default None)
        cls = r.choice(ATTRS_CLASSES)
        keys = r.sample(ATTRS_FIELDS, r.randint(1, min(width, len(ATTRS_FIELDS))))
    else:
        keys = r.sample(names or ATTR_NAMES, r.randint(1, width))
    return ["obj", cls,
            [[kk, gen_value(r, depth, False, max(2, width - 1), allow_obj_in_cont, torch_ok)] for kk in keys]]


def gen_hist(r, rounds=None):
    """an OBJECT HISTORY ACROSS SAVES: after the first save the same live graph is changed in place (impl_C01.mutate, driven
    by `seed`; each value is touched with probability p) and saved again, `rounds` times: onto the same target (mode 'o')
    or a new one (any store / compression / target type / mode)"""
    n = rounds or r.choice([1, 1, 2])
    return {"seed": r.randrange(2 ** 32), "p": r.choice([0.25, 0.4, 0.6]),
            "rounds": [{"target": r.choice(["same", "new", "new"]), "cfg": gen_cfg(r)} for _ in range(n)]}


def gen_cfg(r):
    return {"store": r.choice(["zip", "dir"]), "compression": r.choice([None, 0, 1, 2, 3, 4, 5, 6, 7, 8, 9]),
            "as_path": r.random() < 0.5, "mode": r.choice(["w", "o"])}


# ------------------------------------------------------------------------------------------
# overwrite histories: what the target held BEFORE the graph under test is saved onto it with mode 'o'
def _extra_value(r):
    """a value of the earlier graph that the later one lacks: mostly kinds that own a store member (array / group)"""
    sd = r.randrange(10 ** 6)
    return r.choice([
        ["arr", r.choice(["float64", "int32", "float32", "uint8", "bool", "complex64"]), r.choice([[2], [2, 2], [3], []]), sd, "C"],
        ["arr", "float64", [2, 2], sd, "C"],
        ["list", [["arr", "float64", [2, 2], sd, "C"], ["str", "old"]]],
        ["tuple", [["arr", "int8", [3], sd, "C"], ["arr", "int8", [3], sd + 1, "C"], ["arr", "int8", [3], sd + 2, "C"]]],
        ["dict", [["old_k", ["arr", "int16", [3], sd, "C"]], ["n", ["int", 1]]]],
        ["obj", "NodeB", [["old_a", ["arr", "float32", [2], sd, "C"]], ["s", ["str", "old"]]]],
        ["tensor", "float32", [2], False, False, sd], ["set", [["int", 5], ["str", "old"]]],
        ["int", r.randint(0, 99)], ["str", "old"], ["path", "old/p"], ["list", [["int", 1], ["int", 2], ["int", 3]]],
    ])


def gen_prev(r, spec, p_ext=0.6, top=True):
    """an EARLIER STATE of the graph `spec` (what a long-lived object looked like at its previous save): the same
    names with other contents, containers / objects that had MORE children (the graph under test is the shrunk one),
    arrays with other contents (non-zero where the later one is all fill value), other shapes, members that changed
    their storage kind (attribute <-> array <-> group), members that did not exist yet"""
    k = spec[0]
    if k == "obj":
        fields = [[kk, gen_prev(r, v, p_ext, False)] for kk, v in spec[2] if top or r.random() < 0.9]
        used = {kk for kk, _ in spec[2]}
        free = [n for n in (ATTRS_FIELDS if spec[1] in ATTRS_CLASSES else ATTR_NAMES) if n not in used]
        if r.random() < p_ext:
            for nm in r.sample(free, min(len(free), r.randint(1, 2))):
                fields.append([nm, _extra_value(r)])
        return ["obj", spec[1], fields or [[kk, v] for kk, v in spec[2]][:1]]
    if k in ("list", "tuple"):
        items = [gen_prev(r, x, p_ext, False) for x in spec[1]]
        if r.random() < p_ext:
            items += [_extra_value(r) for _ in range(r.randint(1, 3))]
        return [k, items]
    if k == "set":
        return [k, list(spec[1]) + ([["str", "old%d" % r.randint(0, 9)]] if r.random() < p_ext else [])]
    if k == "dict":
        ent = [[kk, gen_prev(r, v, p_ext, False)] for kk, v in spec[1]]
        used = {kk for kk, _ in spec[1]}
        free = [n for n in DICT_KEYS if n not in used]
        if r.random() < p_ext:
            for nm in r.sample(free, r.randint(1, 2)):
                ent.append([nm, _extra_value(r)])
        return [k, ent]
    if k == "arr":
        lay = spec[4] if len(spec) > 4 else "C"
        if lay == "zeros" or r.random() < 0.5:
            return ["arr", spec[1], spec[2], spec[3] + 1, "C"]                     # same dtype / shape, other (non-zero) contents
        if r.random() < 0.5:
            return ["arr", spec[1], r.choice([[2], [3, 2], [5]]), spec[3] + 1, "C"]    # other shape
        return _extra_value(r)
    if k in ("hyb", "module", "optimizer", "scheduler", "summarywriter", "logger", "rootlogger"):
        return spec
    return _extra_value(r) if r.random() < 0.2 else spec


def history_pool():
    """(label, spec): graphs for the always-run overwrite histories (each is written over an earlier, larger state of
    itself on both stores): zero-filled arrays next to non-zero ones, sequences / dicts of arrays and of groups,
    nested objects, a numeric fast-path list"""
    i = lambda n: ["int", n]  # noqa: E731
    a = lambda dt, sh, sd, lay="C": ["arr", dt, sh, sd, lay]  # noqa: E731
    g1 = root(("name", ["str", "second"]), ("frames", ["list", [a("float64", [2, 2], 1)]]),
              ("table", ["dict", [["a", a("int32", [3], 2)], ["label", ["str", "x"]]]]),
              ("mask", a("float64", [4, 4], 3, "zeros")), ("flags", a("bool", [3], 4, "zeros")),
              ("leaf", ["obj", "NodeB", [["scale", f(2.5)], ["weights", a("float32", [2, 3], 5)], ["z", a("int16", [2], 6, "zeros")]]]),
              ("nums", ["list", [i(1), i(2)]]))
    g2 = root(("t", ["tuple", [["dict", [["k", a("uint8", [2], 7)]]], ["list", [a("float32", [2], 8, "zeros"), ["str", "s"]]]]]),
              ("d", ["dict", [["o", ["obj", "NodeC", [["a", a("complex64", [2], 9)]]]], ["l", ["list", [["tensor", "float32", [2], False, False, 4], ["str", "q"]]]]]]),
              ("s", ["set", [i(3), ["str", "z"]]]), ("e", ["list", []]), ("x", ["tensor", "float64", [2], True, False, 5]), cls="NodeB")
    return [("overwrite-history-0", g1), ("overwrite-history-1", g2)]


def spec_size(s):
    if s[0] == "hyb":
        return 1 + sum(spec_size(v) for _, _, v in s[2])
    if s[0] in ("list", "tuple", "set"):
        return 1 + sum(spec_size(x) for x in s[1])
    if s[0] == "dict":
        return 1 + sum(spec_size(v) for _, v in s[1])
    if s[0] == "obj":
        return 1 + sum(spec_size(v) for _, v in s[2])
    return 1


def spec_depth(s):
    if s[0] == "hyb":
        return 1 + max([spec_depth(v) for _, _, v in s[2]] or [0])
    if s[0] in ("list", "tuple", "set"):
        return 1 + max([spec_depth(x) for x in s[1]] or [0])
    if s[0] == "dict":
        return 1 + max([spec_depth(v) for _, v in s[1]] or [0])
    if s[0] == "obj":
        return 1 + max([spec_depth(v) for _, v in s[2]] or [0])
    return 0


def root(*fields, cls="NodeA"):
    return ["obj", cls, [[k, v] for k, v in fields]]


def f(x):
    return ["float", float(x).hex()]


def special_pool():
    """hand-picked single-feature graphs: every kind the property lists, with the edge values the
    tests never store.  (label, spec) — all inside the quantified domain."""
    i = lambda n: ["int", n]  # noqa: E731
    s = lambda x: ["str", x]  # noqa: E731
    P = []
    P.append(("set-mixed", root(("s", ["set", [i(1), s("a")]]))))
    P.append(("set-numeric", root(("s", ["set", [i(1), i(2), i(3)]]), ("t", ["set", [f(1.5), i(2)]]), ("u", ["set", [["bool", True]]]))))
    P.append(("set-empty-nested", root(("s", ["set", []]), ("l", ["list", [["set", [i(5), ["tuple", [i(1), s("x")]]]]]]),
                                       ("d", ["dict", [["k", ["set", [["none"], s("z")]]]]]))))
    for n, dts in enumerate([["float64", "int16", "bool"], ["float32", "uint64", "complex64"], ["<U3", "S3", "int8"],
                             ["datetime64[ns]", "timedelta64[s]", "float16"], ["uint8", "int64", "complex128"]]):
        P.append(("zero-dim-%d" % n, root(*[("z%d" % j, ["arr", dt, [], 11 + 7 * j + n, "C"]) for j, dt in enumerate(dts)],
                                          ("d", ["dict", [["z", ["arr", dts[1], [], 5 + n, "C"]]]]),
                                          ("l", ["list", [["arr", dts[0], [], 3 + n, "C"], s("x")]]))))
    for n, dts in enumerate([["float64", "int32"], ["bool", "<U3"], ["complex64", "uint16"], ["S3", "float16"]]):
        P.append(("empty-arrays-%d" % n, root(("e0", ["arr", dts[0], [0], 1, "C"]), ("e1", ["arr", dts[1], [0, 3], 1, "C"]),
                                              ("e2", ["arr", dts[0], [2, 0, 2], 1, "C"]),
                                              ("l", ["tuple", [["arr", dts[1], [3, 0], 1, "C"], ["none"]]]))))
    P.append(("empty-containers", root(("a", ["list", []]), ("b", ["tuple", []]), ("c", ["dict", []]), ("x", ["set", []]),
                                       ("y", ["list", [["list", []], ["dict", []], ["tuple", []]]]),
                                       ("data", ["dict", [["a", ["dict", []]], ["b", ["list", []]]]]))))
    P.append(("numeric-mixes", root(("a", ["list", [["bool", True], ["bool", False]]]), ("b", ["list", [["bool", True], i(2)]]),
                                    ("c", ["list", [i(1), f(2.5), ["bool", True]]]), ("x", ["tuple", [i(1), i(2), i(3)]]),
                                    ("y", ["list", [i(2 ** 62), i(-2 ** 63), i(2 ** 63 - 1)]]), ("data", ["list", [i(2 ** 53), f(0.5), i(-2 ** 53)]]))))
    P.append(("numeric-np-mixes", root(("a", ["list", [["np", "int8", 1], ["np", "int8", -2]]]),
                                       ("b", ["list", [["np", "float32", float.hex(0.10000000149011612)], f(0.5)]]),
                                       ("c", ["list", [["np", "uint64", 5], i(1)]]), ("x", ["list", [["np", "uint64", 5], ["np", "uint8", 1]]]),
                                       ("y", ["tuple", [["np", "float16", float.hex(1.0)], ["np", "int16", 3001]]]),
                                       ("data", ["list", [["np", "bool", True], ["np", "bool", False]]]),
                                       ("k_1", ["list", [["np", "uint64", 2 ** 63 - 1], ["np", "uint64", 0]]]))))
    P.append(("scalars", root(*[("f%d" % n, f(x)) for n, x in enumerate(FLOATS)], *[("i%d" % n, i(x)) for n, x in enumerate(INTS)],
                              ("n", ["none"]), ("t", ["bool", True]), ("u", ["bool", False]))))
    P.append(("strings-paths", root(*[("s%d" % n, s(x)) for n, x in enumerate(STRS)], ("p", ["path", "/a/b"]), ("q", ["path", "rel/x"]),
                                    ("l", ["list", [["path", "x"], i(1)]]), ("d", ["dict", [["k", ["path", "y"]], ["k2", s("y")]]]),
                                    ("t", ["tuple", [["path", "/t"], ["path", "u"]]]))))
    P.append(("np-scalars", root(*[("n_%s" % dt, ["np", dt, (True if dt == "bool" else float.hex(0.1) if dt == "float64" else
                                                             float.hex(0.5) if dt.startswith("float") else 2 ** 64 - 1 if dt == "uint64" else 7)])
                                   for dt in NP_DTYPES])))
    P.append(("nesting", root(("a", ["list", [["dict", [["k", ["list", [i(1), s("a")]]], ["0", ["none"]]]], ["tuple", [["list", [["dict", []]]]]]]]),
                              ("b", ["dict", [["0", s("a")], ["10", ["arr", "float64", [2], 3, "C"]], ["values", i(3)], ["class_name", s("x")]]]),
                              ("values", i(4)), ("class_name", s("mine")),
                              ("obj", ["obj", "NodeB", [["x", i(1)], ["obj", ["obj", "NodeC", [["x", ["arr", "int8", [2], 1, "C"]], ["y", ["list", [i(1), i(2)]]]]]]]]),
                              ("c", ["list", [["obj", "NodeB", [["a", i(1)], ["b", ["arr", "float32", [], 9, "C"]]]], s("z")]]),
                              ("x", ["dict", [["o", ["obj", "NodeC", [["a", ["set", [i(4), i(5)]]]]]]]]),
                              ("y", ["tuple", [["obj", "NodeA", [["a", ["none"]]]]]]))))
    # two classes of the same name from two modules, each as root, attribute, list / set-free tuple item and
    # dict value of the other: the loaded class must be the one of the recorded module
    for n, (c1, c2) in enumerate([("NodeA", "twin.NodeA"), ("twin.NodeA", "NodeA"), ("twin.NodeB", "NodeB")]):
        P.append(("same-name-classes-%d" % n,
                  root(("a", ["obj", c2, [["x", i(1)]]]), ("b", ["obj", c1, [["x", i(2)], ["o", ["obj", c2, [["y", s("t")]]]]]]),
                       ("l", ["list", [["obj", c2, [["x", i(3)]]], ["obj", c1, [["x", i(4)]]], s("z")]]),
                       ("t", ["tuple", [["obj", c1, [["x", i(5)]]], ["obj", c2, [["x", i(6)]]]]]),
                       ("d", ["dict", [["k", ["obj", c2, [["x", i(7)]]]], ["m", ["obj", c1, [["x", i(8)]]]]]]), cls=c1)))
    P.append(("digit-key-dicts", root(("d", ["dict", [["0", s("a")], ["1", i(2)]]]), ("e", ["dict", [["0", ["arr", "float32", [2], 4, "C"]]]]),
                                      ("f", ["dict", [["2", ["none"]]]]), ("g", ["dict", [["007", i(1)], ["10", ["list", [i(1), s("q")]]]]]),
                                      ("h", ["dict", [["0", i(1)], ["1", i(2)], ["2", i(3)]]]), ("k", ["dict", [["1", ["path", "p/q"]], ["0", f(0.5)]]]),
                                      ("l", ["list", [["dict", [["0", ["dict", [["0", s("deep")]]]]]]]]))))
    # keys that look like hidden files / editor droppings once they become store members: array-, container-,
    # object- and tensor-valued entries live in their own files, so these names reach the file system
    P.append(("dotted-keys", root(("d", ["dict", [[".hidden", ["arr", "float32", [2], 4, "C"]], [".cache", ["list", [i(1), s("q")]]],
                                                 ["..x", ["dict", [["~tmp", ["arr", "int8", [3], 1, "C"]]]]], ["#1", i(1)],
                                                 [".child", ["obj", "NodeA", [["a", i(1)]]]]]]),
                                  ("x", i(1)))))
    P.append(("loggers", root(("lg", ["logger", "c01.pool", 30]), ("l", ["list", [["logger", "c01.pool2", 10], i(1)]]), ("rl", ["rootlogger"]))))
    for bg in BITGENS:
        P.append(("rng-" + bg, root(("r", ["rng", bg, 3]), ("x", i(1)))))
    P.append(("tensors", root(*[("t%d" % n, ["tensor", dt, sh, rg, pa, 5 + n]) for n, (dt, sh, rg, pa) in enumerate(
        [("float32", [3], False, False), ("float64", [2, 2], True, False), ("float16", [], False, False), ("bfloat16", [2], True, False),
         ("int64", [0], False, False), ("bool", [2], False, False), ("complex64", [2], False, False), ("float32", [2], True, True),
         ("float32", [1], False, True), ("uint8", [3], False, False)])],
        ("l", ["list", [["tensor", "float32", [2], True, False, 1], s("a")]]), ("d", ["dict", [["t", ["tensor", "int32", [1], False, False, 2]]]]),
        # seeds divisible by 3 are built as views into a larger buffer (impl_C01.build): requires_grad inside containers
        ("lv", ["list", [["tensor", "float32", [5], True, False, 3], ["tensor", "float64", [2, 2], True, False, 6]]]),
        ("tv", ["tuple", [["tensor", "float32", [3], True, False, 9]]]),
        ("dv", ["dict", [["w", ["tensor", "float64", [2], True, False, 12]], ["b", ["tensor", "float32", [], True, False, 15]]]]),
        ("v", ["tensor", "float32", [4], True, False, 18]))))
    P.append(("modules", root(("m1", ["module", "linear", 1]), ("m2", ["module", "seq", 2]), ("m3", ["module", "modulelist", 3]),
                              ("m4", ["module", "tiny", 4]), ("l", ["tuple", [["module", "tiny-nobuf", 5]]]), ("g", ["tgen", 77]))))
    P.append(("optimizers", root(("o1", ["optimizer", "adam", 1, 2]), ("o2", ["optimizer", "sgd", 2, 0]), ("s1", ["scheduler", "sgd", 3, 3]))))
    P.append(("dill-fallback", root(("c", ["complex", 1.0, 2.0]), ("x", i(1)))))
    # dill-fallback values inside containers (fixes/C01-dill-fallback-in-container.diff) and complex NumPy scalars
    # (fixes/C01-npscalar-complex.diff): attribute, list, tuple, dict, set, nested
    P.append(("dill-in-containers", root(("l", ["list", [["complex", 1.0, 2.0], s("a")]]), ("d", ["dict", [["k", ["complex", 0.0, -1.0]], ["0", i(1)]]]),
                                         ("t", ["tuple", [["list", [["complex", 2.0, 0.5]]], ["none"]]]), ("s", ["set", [["complex", 3.0, 1.0], s("z")]]),
                                         ("u", ["arr", "uint8", [5], 7, "C"]), ("lu", ["list", [["arr", "uint8", [4], 8, "C"], s("bytes")]]))))
    P.append(("np-complex", root(("c", ["np", "complex64", [1.0, 2.0]]), ("z", ["np", "complex128", [0.0, -0.5]]),
                                 ("l", ["list", [["np", "complex64", [1.5, 1.0]], i(1)]]), ("d", ["dict", [["k", ["np", "complex128", [2.0, 2.0]]]]]),
                                 ("m", ["list", [["np", "complex64", [1.0, 0.0]], f(0.5)]]), ("x", i(1)))))
    # random generators inside containers (fixes/C01-rng-in-container.diff): every bit generator, every container kind
    P.append(("rng-in-containers", root(("l", ["list", [["rng", "PCG64", 1], i(1)]]), ("t", ["tuple", [["rng", "MT19937", 2]]]),
                                        ("d", ["dict", [["r", ["rng", "Philox", 3]], ["n", ["list", [["rng", "SFC64", 4], s("x")]]]]]),
                                        ("s", ["set", [["rng", "PCG64", 5], s("y")]]), ("r", ["rng", "SFC64", 6]))))
    # torch container modules (ModuleList / Sequential / ParameterList): nn.Modules, so _serialize_value saves them whole;
    # as attributes and inside list / tuple / dict / nested containers
    P.append(("torch-containers", root(("ml", ["module", "modulelist", 3]), ("sq", ["module", "seq", 4]), ("pl", ["paramlist", 5]),
                                       ("l", ["list", [["module", "modulelist", 6], ["module", "seq", 7], s("a")]]),
                                       ("d", ["dict", [["m", ["module", "modulelist", 8]], ["p", ["paramlist", 9]],
                                                       ["n", ["tuple", [["module", "seq", 10], ["list", [["paramlist", 11]]]]]]]]))))
    # attrs-decorated classes (__attrs_attrs__ branch of _recursive_save / whitelist of _recursive_load), with and without slots,
    # as root, as attribute, inside containers
    for n, (c1, c2) in enumerate([("NodeAttrs", "NodeSlots"), ("NodeSlots", "NodeAttrs")]):
        P.append(("attrs-classes-%d" % n, root(("a", ["arr", "float32", [2, 2], 3, "C"]), ("b", ["list", [i(1), s("q")]]),
                                               ("x", ["obj", c2, [["a", f(1.5)], ["data", ["dict", [["k", ["arr", "int8", [], 4, "C"]]]]], ["x", ["path", "p/q"]]]]),
                                               ("data", ["list", [["obj", c1, [["b", ["tensor", "float32", [2], True, False, 4]]]], ["obj", c2, [["x", ["set", [i(3), i(4)]]]]]]]),
                                               cls=c1)))
    # tensorboard SummaryWriter (metadata only: re-created with the saved log_dir / queue / flush / suffix), as attribute
    # and inside list / dict / set
    P.append(("summarywriter", root(("w", ["summarywriter", "tb"]), ("l", ["list", [["summarywriter", "tb2", 3, 7, ".x"], ["int", 1]]]),
                                    ("d", ["dict", [["w", ["summarywriter", "tb3", 10, 60, ""]]]]),
                                    ("t", ["tuple", [["summarywriter", "tb4"], ["logger", "c01.sw", 20]]]), ("x", ["int", 1]))))
    P.append(("array-dtypes", root(*[("a%d" % n, ["arr", dt, sh, 40 + n, lay]) for n, (dt, sh, lay) in enumerate(
        [(d, [2, 3], "C") for d in ARR_DTYPES] + [("float64", [4, 4], "F"), ("int32", [3], "strided"), ("float32", [2, 1, 2], "F"),
                                                  ([["a", "<i4"], ["b", "<f8"]], [3], "C")])])))
    return P


def oracle_only_pool():
    """kinds the Coq model has no constructor for: judged by the oracle alone (same kind of object back)"""
    return []


def outside_pool():
    """graphs outside the quantified domain whose behaviour the model nevertheless predicts (save writes the group,
    the container decoder has no branch for it: load raises).  Model agreement is recorded, never judged."""
    i = lambda n: ["int", n]  # noqa: E731
    return [
        ("outside:optimizer-in-list", root(("l", ["list", [["optimizer", "sgd", 1, 1], i(1)]]))),
        ("outside:scheduler-in-dict", root(("d", ["dict", [["s", ["scheduler", "adam", 2, 2]]]]))),
        ("outside:optimizer-in-tuple-nested", root(("t", ["tuple", [["list", [["optimizer", "adam", 3, 0]]], ["str", "a"]]]))),
    ]


def known_limit_pool():
    """graphs on which the implementation is known to violate C01 (see known_findings.json): each
    is replayed on every run; key = label"""
    i = lambda n: ["int", n]  # noqa: E731
    return [
        ("ndarray-bigendian", root(("a", ["arr", ">i4", [3], 5, "C"]))),
        ("ndarray-object-dtype", root(("a", ["arr", "O", [3], 5, "C"]))),
        ("legacy-randomstate", root(("r", ["randomstate", 3]))),
        ("numeric-seq-int-float-precision", root(("l", ["list", [i(2 ** 53 + 1), f(0.5)]]))),
        ("dict-key-path-component", root(("d", ["dict", [["", ["arr", "float64", [2], 1, "C"]]]]))),
        ("dict-key-path-component", root(("d", ["dict", [[".", ["arr", "float64", [2], 1, "C"]]]]))),
        ("dict-key-path-component", root(("d", ["dict", [["a\\b", ["list", [i(1), ["str", "a"]]]]]]))),
        ("dict-key-path-component", root(("d", ["dict", [["zarr.json", ["arr", "float64", [2], 1, "C"]]]]))),
    ]


# ------------------------------------------------------------------------------------------
# shrinking
def shrink_candidates(spec):
    """specs with one element / field removed or one container replaced by a child"""
    k = spec[0]
    out = []
    if k in ("list", "tuple", "set"):
        for j in range(len(spec[1])):
            out.append([k, spec[1][:j] + spec[1][j + 1:]])
        for j, x in enumerate(spec[1]):
            for c in shrink_candidates(x):
                out.append([k, spec[1][:j] + [c] + spec[1][j + 1:]])
    elif k == "dict":
        for j in range(len(spec[1])):
            out.append([k, spec[1][:j] + spec[1][j + 1:]])
        for j, (kk, v) in enumerate(spec[1]):
            for c in shrink_candidates(v):
                out.append([k, spec[1][:j] + [[kk, c]] + spec[1][j + 1:]])
    elif k == "hyb":
        for j in range(len(spec[2])):
            if len(spec[2]) > 1:
                out.append([k, spec[1], spec[2][:j] + spec[2][j + 1:]])
    elif k == "obj":
        for j in range(len(spec[2])):
            if len(spec[2]) > 1:
                out.append([k, spec[1], spec[2][:j] + spec[2][j + 1:]])
        for j, (kk, v) in enumerate(spec[2]):
            for c in shrink_candidates(v):
                out.append([k, spec[1], spec[2][:j] + [[kk, c]] + spec[2][j + 1:]])
    return out


# ------------------------------------------------------------------------------------------
# worker pool
_POOL = None


def _avail_gb():
    """available memory in GB (a worker holds torch: ~0.6 GB): fewer workers on a machine that is short of memory"""
    try:
        for line in open("/proc/meminfo"):
            if line.startswith("MemAvailable:"):
                return max(2, int(line.split()[1]) // (1024 * 1024))
    except Exception:  # noqa
        pass
    return 8


def pool():
    global _POOL
    if _POOL is None:
        n = int(os.environ.get("VERIF_C01_WORKERS", "0")) or max(2, min(8, (os.cpu_count() or 4) // 2, _avail_gb()))
        _POOL = cf.ProcessPoolExecutor(max_workers=n, mp_context=mp.get_context("spawn"))
    return _POOL


def run_cases(cases):
    """run every case in the worker pool; a worker killed from outside (out-of-memory killer on a loaded machine) breaks
    the whole pool: the cases without a result are then re-run in a fresh, smaller pool (cases are deterministic
    functions of their spec), at last in this process"""
    from concurrent.futures.process import BrokenProcessPool
    from .impl_C01 import run_case
    global _POOL
    results = [None] * len(cases)
    for attempt in range(3):
        todo = [i for i, r in enumerate(results) if r is None]
        if not todo:
            return results
        try:
            futs = [(i, pool().submit(run_case, cases[i])) for i in todo]
            for i, f in futs:
                try:
                    results[i] = f.result()
                except BrokenProcessPool:
                    raise
        except BrokenProcessPool:
            shutdown()
            os.environ["VERIF_C01_WORKERS"] = "2"
    for i, r in enumerate(results):
        if r is None:
            results[i] = run_case(cases[i])
    return results


def shutdown():
    global _POOL
    if _POOL is not None:
        _POOL.shutdown(wait=False, cancel_futures=True)
        _POOL = None


def shrink(case, key, budget=40):
    """greedy tree pruning: smallest spec on which the oracle still reports `key`"""
    from .impl_C01 import run_case
    best = case
    while budget > 0:
        cands = shrink_candidates(best["spec"])[:12]
        if not cands:
            break
        trial = []
        for n, c in enumerate(cands):
            cc = copy.deepcopy(best)
            cc["spec"] = c
            cc["id"] = "%s-s%d" % (case["id"], n)
            cc["dispatch"] = False
            trial.append(cc)
        budget -= len(trial)
        results = list(pool().map(run_case, trial))
        hit = next((t for t, r in zip(trial, results)
                    if any(k == key for k, _ in list(r["diffs"]) + [d for h in r.get("hist", []) for d in h["diffs"]])), None)
        if hit is None:
            break
        best = hit
    return best


def case_hash(case):
    return hashlib.sha1(json.dumps([case["spec"], case["cfg"], case.get("skip_save_names"), case.get("skip_save_types"),
                                    case.get("skip_load_names"), case.get("skip_load_types"), case.get("prev_spec"), case.get("hist")], sort_keys=True, default=str).encode()).hexdigest()
