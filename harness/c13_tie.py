"""c13_tie.py — tie between the index arithmetic of the registration functions (their SOURCE, re-read on
every run) and the definitions coq/model/C13_Model.v transcribes by hand, as theorems re-proved on every run:

  translate the arithmetic of cross_correlation_shift / dft_upsample / cross_correlation_shift_torch /
  align_images_fourier_torch / upsampled_correlation_torch / dftUpsample_torch  ->  build/C13/Gen_C13.v
  coqc Gen_C13.v
  coqc coq/gen_proofs/C13_GenProofs.v       FIXED script: gen_f = the model's definition, all arguments
  coqc coq/gen_proofs/C13_GenProperties.v   Theorem C13_*_tie + Print Assumptions
  cross-test: every gen_f is evaluated by vm_compute on random arguments and compared with Python evaluating the
  very same source expression (numpy / torch semantics) on the same arguments

Fail-closed: expressions are located by the NAME they are assigned to inside the function (any nesting depth),
local names are inlined (so renaming a local or reordering independent statements changes nothing), and the
expression grammar is small (int / float arithmetic, // % on ints, % of a float by a positive int, ceil / floor /
round, conditional expressions, `arange`, `ifftshift(arange(n))`, `outer`, 3-element index vectors, 2-component
np.array vectors, slice bounds).  Anything else raises Reject -> the tie is reported broken."""
from __future__ import annotations

import ast
import hashlib
import math
import re
import time
from fractions import Fraction
from pathlib import Path

from .common import COQ, COQ_FLAGS, SRC, Ctx, sh

REL = "core/utils/imaging_utils.py"
GEN_DIR = COQ / "gen_proofs"

TRUSTED = [
    "harness/c13_tie.py (Python ast -> Gallina for the index arithmetic of the six registration functions; fail-closed "
    "grammar; cross-tested on every run against Python executing the same source expressions) with the fixed meanings: "
    "Python int -> Z (// = Z.div, % = Z.modulo), Python / numpy / torch float -> exact rational Q (the expressions only "
    "combine integers, halves and quotients by the upsampling factor), float % positive int = x - n floor(x / n), "
    "np.ceil / math.ceil / torch.ceil = Qceiling, math.floor / torch.floor = Qfloor, torch.round = round half to even "
    "(model's round_he), arange(a, b)[i] = a + i, ifftshift(arange(n))[k] = (k + n // 2) mod n, outer(a, b)[i, k] = a[i] b[k], "
    "exp(c * 2j * pi * x) represented by its phase c * x, x[a:b] on an axis of length W has Python's slice length "
    "(py_slice_len in the generated file), .astype(int) / int() / float() / torch.tensor() / .item() / .to() / .unsqueeze() "
    "are value-preserving on these expressions",
]


class Reject(Exception):
    pass


def _rej(node, why):
    raise Reject("%s at line %s: %s" % (why, getattr(node, "lineno", "?"), ast.unparse(node)[:140] if node is not None else ""))


def q(fr: Fraction) -> str:
    return "(%d # %d)" % (fr.numerator, fr.denominator) if fr.denominator != 1 else "(inject_Z (%d))" % fr.numerator


IDENT_CALLS = {"int", "float", "torch.tensor", "np.array1"}
IDENT_METHODS = {"astype", "item", "to", "unsqueeze"}


class Fn:
    """one function of the source: its assignments (any depth) in source order"""

    def __init__(self, fdef: ast.FunctionDef):
        self.fdef = fdef
        self.assigns = []          # (lineno, target key, value node)
        for node in ast.walk(fdef):
            if isinstance(node, ast.FunctionDef) and node is not fdef:
                continue
            if isinstance(node, ast.Assign) and len(node.targets) == 1:
                t = node.targets[0]
                if isinstance(t, ast.Name):
                    self.assigns.append((node.lineno, t.id, node.value))
                elif isinstance(t, ast.Tuple) and all(isinstance(e, ast.Name) for e in t.elts):
                    for i, e in enumerate(t.elts):
                        if isinstance(node.value, ast.Tuple) and len(node.value.elts) == len(t.elts):
                            self.assigns.append((node.lineno, e.id, node.value.elts[i]))
                        else:
                            self.assigns.append((node.lineno, e.id, ("unpack", node.value, i)))
            elif isinstance(node, ast.AugAssign) and isinstance(node.target, ast.Name):
                self.assigns.append((node.lineno, node.target.id,
                                     ast.BinOp(left=ast.Name(id=node.target.id, ctx=ast.Load(), lineno=node.lineno - 0.5),
                                               op=node.op, right=node.value, lineno=node.lineno)))
        self.assigns.sort(key=lambda a: a[0])

    def nth(self, name, k=0):
        hits = [a for a in self.assigns if a[1] == name]
        if len(hits) <= k:
            raise Reject("assignment #%d to `%s` not found in %s" % (k + 1, name, self.fdef.name))
        return hits[k]

    def last_before(self, name, line):
        hits = [a for a in self.assigns if a[1] == name and a[0] < line]
        return hits[-1] if hits else None

    def inner(self, name):
        for node in ast.walk(self.fdef):
            if isinstance(node, ast.FunctionDef) and node.name == name:
                return node
        raise Reject("inner function %s not found" % name)


class Tr:
    """expression translator.  env: source text of a sub-expression (ast.unparse) or a local name -> (coq term, type);
    types Z / Q / B.  Names not in env are inlined from the function's earlier assignments."""

    def __init__(self, fn: Fn | None, env, comp=None, line=10 ** 9, depth=0):
        self.fn, self.env, self.comp, self.line, self.depth = fn, env, comp, line, depth

    def sub(self, line):
        if self.depth > 12:
            raise Reject("inlining too deep")
        return Tr(self.fn, self.env, self.comp, line, self.depth + 1)

    @staticmethod
    def toQ(t):
        c, ty = t
        if ty == "Q":
            return c
        if ty == "Z":
            return "(inject_Z %s)" % c
        raise Reject("boolean used as a number")

    def e(self, n):
        key = ast.unparse(n) if not isinstance(n, tuple) else None
        if key is not None and key in self.env:
            v = self.env[key]
            return v(self.comp) if callable(v) else v
        if isinstance(n, tuple) and n[0] == "unpack":
            _rej(n[1], "tuple unpacking of a non-symbol")
        if isinstance(n, ast.Constant):
            if isinstance(n.value, bool):
                _rej(n, "bool constant")
            if isinstance(n.value, int):
                return ("(%d)" % n.value, "Z")
            if isinstance(n.value, float):
                return (q(Fraction(n.value)), "Q")
            _rej(n, "constant")
        if isinstance(n, ast.Name):
            a = self.fn.last_before(n.id, self.line) if self.fn else None
            if a is None:
                _rej(n, "unknown name")
            return self.sub(a[0]).e(a[2])
        if isinstance(n, ast.UnaryOp) and isinstance(n.op, ast.USub):
            c, ty = self.e(n.operand)
            return ("(- %s)" % c, ty) if ty in ("Z", "Q") else _rej(n, "negation")
        if isinstance(n, ast.BinOp):
            a, b = self.e(n.left), self.e(n.right)
            both_z = a[1] == "Z" and b[1] == "Z"
            if isinstance(n.op, (ast.Add, ast.Sub, ast.Mult)):
                op = {ast.Add: "+", ast.Sub: "-", ast.Mult: "*"}[type(n.op)]
                if both_z:
                    return ("(%s %s %s)%%Z" % (a[0], op, b[0]), "Z")
                return ("(%s %s %s)%%Q" % (self.toQ(a), op, self.toQ(b)), "Q")
            if isinstance(n.op, ast.Div):
                return ("(%s / %s)%%Q" % (self.toQ(a), self.toQ(b)), "Q")
            if isinstance(n.op, ast.FloorDiv):
                if both_z:
                    return ("(%s / %s)%%Z" % (a[0], b[0]), "Z")
                _rej(n, "// on floats")
            if isinstance(n.op, ast.Mod):
                if both_z:
                    return ("(%s mod %s)%%Z" % (a[0], b[0]), "Z")
                if b[1] == "Z":
                    return ("(qmodz %s %s)" % (self.toQ(a), b[0]), "Q")
                _rej(n, "% by a float")
            _rej(n, "operator")
        if isinstance(n, ast.IfExp):
            c = self.e(n.test)
            if c[1] != "B":
                _rej(n.test, "condition")
            a, b = self.e(n.body), self.e(n.orelse)
            if a[1] == b[1] == "Z":
                return ("(if %s then %s else %s)" % (c[0], a[0], b[0]), "Z")
            return ("(if %s then %s else %s)" % (c[0], self.toQ(a), self.toQ(b)), "Q")
        if isinstance(n, ast.Compare) and len(n.ops) == 1:
            a, b = self.e(n.left), self.e(n.comparators[0])
            op = type(n.ops[0])
            if a[1] == b[1] == "Z":
                m = {ast.NotEq: "(negb (%s =? %s)%%Z)", ast.Eq: "(%s =? %s)%%Z", ast.Gt: "(%s >? %s)%%Z", ast.Lt: "(%s <? %s)%%Z",
                     ast.GtE: "(%s >=? %s)%%Z", ast.LtE: "(%s <=? %s)%%Z"}
            else:
                m = {ast.NotEq: "(negb (Qeq_bool %s %s))", ast.Eq: "(Qeq_bool %s %s)"}
                a, b = (self.toQ(a), "Q"), (self.toQ(b), "Q")
            if op not in m:
                _rej(n, "comparison")
            return (m[op] % (a[0], b[0]), "B")
        if isinstance(n, ast.Subscript) and isinstance(n.slice, ast.Constant) and isinstance(n.slice.value, int):
            base = ast.unparse(n.value)
            k = "%s[%d]" % (base, n.slice.value)
            if k in self.env:
                return self.env[k]
            if isinstance(n.value, ast.Name):          # v[i] of a local vector: np.array([a, b]) / torch.tensor([a, b])
                a = self.fn.last_before(n.value.id, self.line) if self.fn else None
                if a is not None:
                    return Tr(self.fn, self.env, n.slice.value, a[0], self.depth + 1).e(a[2])
            _rej(n, "subscript")
        if isinstance(n, ast.Call):
            f = ast.unparse(n.func)
            args = n.args
            if f in ("int", "float", "torch.tensor") and len(args) == 1:
                return self.e(args[0])
            if f in ("np.array", "torch.tensor") and len(args) == 1 and isinstance(args[0], (ast.List, ast.Tuple)) \
                    and len(args[0].elts) == 2:
                if self.comp is None:
                    _rej(n, "2-vector outside a component context")
                return self.e(args[0].elts[self.comp])
            if f == "np.array" and len(args) == 1:
                return self.e(args[0])                  # np.array(peak), np.array(cc.shape): symbols with components
            if f in ("np.ceil", "math.ceil", "torch.ceil") and len(args) == 1:
                return ("(Qceiling %s)" % self.toQ(self.e(args[0])), "Z")
            if f in ("math.floor", "torch.floor", "np.floor") and len(args) == 1:
                return ("(Qfloor %s)" % self.toQ(self.e(args[0])), "Z")
            if f == "torch.round" and len(args) == 1:
                return ("(round_he %s)" % self.toQ(self.e(args[0])), "Z")
            if isinstance(n.func, ast.Attribute) and n.func.attr in IDENT_METHODS:
                return self.e(n.func.value)
            _rej(n, "call")
        if isinstance(n, ast.List) and len(n.elts) == 2 and self.comp is not None:
            return self.e(n.elts[self.comp])
        _rej(n, "expression")

    # ------------------------------------------------------------ 1-D arrays, element i
    def elem(self, n, i):
        key = ast.unparse(n)
        if key in self.env:
            v = self.env[key]
            return v(self.comp) if callable(v) else v
        if isinstance(n, ast.Name):
            a = self.fn.last_before(n.id, self.line)
            if a is None:
                _rej(n, "unknown array")
            return self.sub(a[0]).elem(a[2], i)
        if isinstance(n, ast.Call):
            f = ast.unparse(n.func)
            if isinstance(n.func, ast.Attribute) and n.func.attr in IDENT_METHODS:
                return self.elem(n.func.value, i)
            if f.endswith(".arange") or f == "arange":
                pos = [a for a in n.args]
                if len(pos) == 1:
                    return ("(%s)" % i, "Z")
                if len(pos) == 2:
                    lo = self.e(pos[0])
                    if lo[1] != "Z":
                        _rej(n, "arange bound")
                    return ("(%s + %s)%%Z" % (lo[0], i), "Z")
                _rej(n, "arange")
            if f.endswith("fft.ifftshift") and len(n.args) == 1:
                inner = n.args[0]
                if not (isinstance(inner, ast.Call) and ast.unparse(inner.func).endswith("arange") and len(inner.args) == 1):
                    _rej(n, "ifftshift of something else than arange(n)")
                nn = self.e(inner.args[0])
                if nn[1] != "Z":
                    _rej(n, "arange bound")
                return ("((%s + %s / 2) mod %s)%%Z" % (i, nn[0], nn[0]), "Z")
            _rej(n, "array call")
        if isinstance(n, ast.BinOp) and isinstance(n.op, (ast.Add, ast.Sub, ast.Mult)):
            op = {ast.Add: "+", ast.Sub: "-", ast.Mult: "*"}[type(n.op)]

            def side(x):
                try:
                    return self.elem(x, i)
                except Reject:
                    return self.e(x)
            a, b = side(n.left), side(n.right)
            if a[1] == b[1] == "Z":
                return ("(%s %s %s)%%Z" % (a[0], op, b[0]), "Z")
            return ("(%s %s %s)%%Q" % (self.toQ(a), op, self.toQ(b)), "Q")
        _rej(n, "array expression")

    def arange_bounds(self, n):
        """(lo, hi) of an arange(lo, hi) expression (after inlining a name)"""
        if isinstance(n, ast.Name):
            a = self.fn.last_before(n.id, self.line)
            if a is None:
                _rej(n, "unknown array")
            return self.sub(a[0]).arange_bounds(a[2])
        if isinstance(n, ast.Call) and ast.unparse(n.func).endswith("arange") and len(n.args) == 2:
            lo, hi = self.e(n.args[0]), self.e(n.args[1])
            if lo[1] == hi[1] == "Z":
                return lo[0], hi[0]
        _rej(n, "not an arange(lo, hi)")


def phase_of(tr: Tr, n, ia, ik):
    """n = exp-argument  c * (2j | -2j) * pi / D * outer(A, B)   (any association)  ->  coq Q term of  sign / D * A[ia] * B[ik]"""
    num, den, sign, seen_j, seen_pi, outer = [], [], [1], [0], [0], []

    def walk(x, inv):
        if isinstance(x, ast.Name) and tr.fn.last_before(x.id, tr.line) is not None and ast.unparse(x) not in tr.env:
            a = tr.fn.last_before(x.id, tr.line)
            return walk(a[2], inv)
        if isinstance(x, ast.BinOp) and isinstance(x.op, ast.Mult):
            walk(x.left, inv)
            walk(x.right, inv)
        elif isinstance(x, ast.BinOp) and isinstance(x.op, ast.Div):
            walk(x.left, inv)
            walk(x.right, not inv)
        elif isinstance(x, ast.UnaryOp) and isinstance(x.op, ast.USub):
            sign[0] = -sign[0]
            walk(x.operand, inv)
        elif isinstance(x, ast.Constant) and isinstance(x.value, complex):
            if x.value != 2j or inv:
                _rej(x, "complex constant")
            seen_j[0] += 1
        elif ast.unparse(x) in ("np.pi", "math.pi"):
            if inv:
                _rej(x, "pi in a denominator")
            seen_pi[0] += 1
        elif isinstance(x, ast.Call) and ast.unparse(x.func).endswith("outer") and len(x.args) == 2 and not inv:
            outer.append((x.args[0], x.args[1]))
        elif isinstance(x, ast.BinOp) and isinstance(x.op, ast.Mult) is False and False:
            pass
        else:
            (den if inv else num).append(x)

    walk(n, False)
    # torch form: factor * (A.unsqueeze(1) * B.unsqueeze(0)) : the two unsqueeze factors land in `num`
    if not outer:
        us = [x for x in num if isinstance(x, ast.Call) and isinstance(x.func, ast.Attribute) and x.func.attr == "unsqueeze"]
        if len(us) != 2:
            _rej(n, "no outer product in the kernel argument")
        ax = {ast.unparse(u.args[0]): u for u in us}
        if set(ax) != {"0", "1"}:
            _rej(n, "unsqueeze axes")
        first_is_row = ast.unparse(us[0].args[0]) == "1"
        num = [x for x in num if x not in us]
        outer.append((us[0].func.value, us[1].func.value) if first_is_row else (us[1].func.value, us[0].func.value))
        outer.append("torch")
    if seen_j[0] != 1 or seen_pi[0] != 1 or len([o for o in outer if o != "torch"]) != 1:
        _rej(n, "kernel argument is not  c * 2j * pi / D * outer(A, B)")
    A, B = outer[0]
    return num, den, sign[0], A, B


def _function(tree, name):
    for node in tree.body:
        if isinstance(node, ast.FunctionDef) and node.name == name:
            return node
    raise Reject("function %s not found" % name)


def _vec3(tr: Tr, node, var="d"):
    """3-element index vector:  xp.mod(x0 + xp.arange(-1, 2), n).astype(int)   or   [(x0 + dx) % M for dx in (-1, 0, 1)]"""
    while isinstance(node, ast.Call) and isinstance(node.func, ast.Attribute) and node.func.attr in IDENT_METHODS:
        node = node.func.value
    if isinstance(node, ast.ListComp) and len(node.generators) == 1:
        g = node.generators[0]
        if not (isinstance(g.target, ast.Name) and ast.unparse(g.iter) in ("(-1, 0, 1)", "[-1, 0, 1]") and not g.ifs):
            _rej(node, "comprehension")
        env = dict(tr.env)
        env[g.target.id] = (var, "Z")
        c = Tr(tr.fn, env, None, tr.line).e(node.elt)
    elif isinstance(node, ast.Call) and ast.unparse(node.func).endswith(".mod") and len(node.args) == 2:
        env = dict(tr.env)
        for an in ("xp.arange(-1, 2)", "np.arange(-1, 2)"):
            env[an] = (var, "Z")
        t2 = Tr(tr.fn, env, None, tr.line)
        a, b = t2.e(node.args[0]), t2.e(node.args[1])
        if a[1] != "Z" or b[1] != "Z" or var not in a[0]:
            _rej(node, "index vector")
        c = ("(%s mod %s)%%Z" % (a[0], b[0]), "Z")
    else:
        _rej(node, "index vector")
    if c[1] != "Z":
        _rej(node, "index vector type")
    return "(map (fun %s : Z => %s) [-1; 0; 1]%%Z)" % (var, c[0])


def _slice_ok(fn: Fn, patch_name, arr_key, env, line_of):
    """local[lx - 1:lx + 2, ly - 1:ly + 2]  + test `<patch>.shape == (3, 3)`"""
    a = fn.nth(patch_name)
    node = a[2]
    if not (isinstance(node, ast.Subscript) and isinstance(node.slice, ast.Tuple) and len(node.slice.elts) == 2
            and all(isinstance(s, ast.Slice) and s.step is None and s.lower is not None and s.upper is not None for s in node.slice.elts)):
        _rej(node, "3x3 patch is not a 2-D slice")
    if ast.unparse(node.value) not in arr_key:
        _rej(node, "patch taken from another array")
    tests = [n for n in ast.walk(fn.fdef) if isinstance(n, ast.If) and ast.unparse(n.test) == "%s.shape == (3, 3)" % patch_name]
    if len(tests) != 1:
        raise Reject("the test `%s.shape == (3, 3)` is gone in %s" % (patch_name, fn.fdef.name))
    tr = Tr(fn, env, None, a[0])
    parts = []
    for s in node.slice.elts:
        lo, hi = tr.e(s.lower), tr.e(s.upper)
        if lo[1] != "Z" or hi[1] != "Z":
            _rej(node, "slice bounds")
        parts.append("(py_slice_len %s %s W =? 3)%%Z" % (lo[0], hi[0]))
    return "(%s && %s)%%bool" % tuple(parts), tests[0]


HEADER = """(* GENERATED by harness/c13_tie.py from %s — do not edit *)
From QV.lib Require Import Prelude.
From QV.model Require Import C13_Model.
From Coq Require Import QArith Qround.
Local Close Scope Q_scope.

(* float %% positive int *)
Definition qmodz (x : Q) (n : Z) : Q := (x - inject_Z n * inject_Z (Qfloor (x / inject_Z n)))%%Q.
(* len(range(W)[a:b]) for a step-1 slice: Python clamps negative bounds by adding W, then to [0, W] *)
Definition py_clamp (a W : Z) : Z := Z.max 0 (Z.min W (if (a <? 0)%%Z then a + W else a))%%Z.
Definition py_slice_len (a b W : Z) : Z := Z.max 0 (py_clamp b W - py_clamp a W)%%Z.

"""


def translate(src_root: Path):
    path = src_root / "quantem" / REL
    tree = ast.parse(path.read_text())
    defs, pyx = [], {}          # coq definitions; python cross-test recipes

    def D(name, params, ty, body, py=None):
        defs.append("Definition %s %s : %s :=\n  %s." % (name, params, ty, body))
        if py:
            pyx[name] = py

    # ------------------------------------------------------------------ cross_correlation_shift
    f = Fn(_function(tree, "cross_correlation_shift"))
    shape = lambda names: (lambda comp: (names[comp], "Z") if comp is not None else _rej(None, "shape vector without component"))
    env_r = {"cc.shape[0]": ("n", "Z"), "x0": ("x0", "Z")}          # rows: size cc.shape[0], index x0
    env_c = {"cc.shape[1]": ("n", "Z"), "y0": ("x0", "Z")}          # columns: size cc.shape[1], index y0
    a = f.nth("x_inds")
    D("gen_np_inds", "(n x0 : Z)", "list Z", _vec3(Tr(None, env_r), a[2]))
    a = f.nth("y_inds")
    D("gen_np_inds_col", "(n x0 : Z)", "list Z", _vec3(Tr(None, env_c), a[2]))
    # vx = cc_real[x_inds, y0], vy = cc_real[x0, y_inds]: which axis carries the index vector
    for nm, want in (("vx", "cc_real[x_inds, y0]"), ("vy", "cc_real[x0, y_inds]")):
        if ast.unparse(f.nth(nm)[2]) != want:
            _rej(f.nth(nm)[2], "%s is no longer %s" % (nm, want))
    pp = Fn(f.inner("parabolic_peak"))
    if [x.arg for x in pp.fdef.args.args] != ["v"]:
        raise Reject("parabolic_peak signature")
    rets = [n for n in ast.walk(pp.fdef) if isinstance(n, ast.Return)]
    if len(rets) != 1:
        raise Reject("parabolic_peak has %d return statements" % len(rets))
    envp = {"v[0]": ("v0", "Q"), "v[1]": ("v1", "Q"), "v[2]": ("v2", "Q")}
    c = Tr(pp, envp, None, rets[0].lineno).e(rets[0].value)
    D("gen_np_parab", "(v0 v1 v2 : Q)", "Q", Tr.toQ(c))
    for nm, arg in (("dx", "vx"), ("dy", "vy"), ("dxf", "icc[:, 1]"), ("dyf", "icc[1, :]")):
        if ast.unparse(f.nth(nm)[2]) != "parabolic_peak(%s)" % arg:
            _rej(f.nth(nm)[2], "%s is no longer parabolic_peak(%s)" % (nm, arg))
    a = f.nth("x0", 1)            # x0 = (x0 + dx) % cc.shape[0]
    D("gen_np_wrap", "(n x0 : Z) (dx : Q)", "Q", Tr.toQ(Tr(None, dict(env_r, dx=("dx", "Q"))).e(a[2])))
    a2 = f.nth("y0", 1)
    D("gen_np_wrap_col", "(n x0 : Z) (dx : Q)", "Q", Tr.toQ(Tr(None, dict(env_c, dy=("dx", "Q"))).e(a2[2])))
    # shifts (upsampled branch): assignment #2 (array expression) and the += that follows; then the centring (#last)
    sh_assigns = [x for x in f.assigns if x[1] == "shifts"]
    if len(sh_assigns) != 4:
        raise Reject("cross_correlation_shift assigns `shifts` %d times (expected 4)" % len(sh_assigns))
    if ast.unparse(sh_assigns[0][2]) != "(x0, y0)":
        _rej(sh_assigns[0][2], "shifts without upsampling")
    for comp, nm in ((0, "gen_np_offset"), (1, "gen_np_offset_col")):
        envo = {("x0", "y0")[comp]: ("x0", "Q"), "peak": (lambda c_: ("pk", "Z")), "local.shape": (lambda c_: ("W", "Z")),
                "upsample_factor": ("up", "Z"), ("dxf", "dyf")[comp]: ("dxf", "Q")}
        body = Tr(f, envo, comp, sh_assigns[2][0]).e(sh_assigns[2][2])
        D(nm, "(up W : Z) (x0 : Q) (pk : Z) (dxf : Q)", "Q", Tr.toQ(body))
    for comp, nm in ((0, "gen_np_centre"), (1, "gen_np_centre_col")):
        envc = {"shifts": ("t", "Q"), "cc.shape": (lambda c_: ("n", "Z"))}
        body = Tr(None, envc, comp).e(sh_assigns[3][2])
        D(nm, "(n : Z) (t : Q)", "Q", Tr.toQ(body))
    if not any(isinstance(n, ast.If) and ast.unparse(n.test) == "upsample_factor <= 1" for n in ast.walk(f.fdef)):
        raise Reject("the test `upsample_factor <= 1` is gone")
    ok, _ = _slice_ok(f, "icc", ("local",), {"lx": ("lx", "Z"), "ly": ("ly", "Z")}, None)
    D("gen_np_patch_ok", "(lx ly W : Z)", "bool", ok)
    if ast.unparse(f.nth("local")[2]) != "dft_upsample(cc, upsample_factor, (x0, y0), device=device)":
        _rej(f.nth("local")[2], "call of dft_upsample")

    # ------------------------------------------------------------------ dft_upsample
    # anchored on the return statement  xp.real(A @ F @ B): every local of this function may be renamed
    g = Fn(_function(tree, "dft_upsample"))
    if [x.arg for x in g.fdef.args.args][:3] != ["F", "up", "shift"]:
        raise Reject("dft_upsample signature")
    ret = [n for n in ast.walk(g.fdef) if isinstance(n, ast.Return)]
    if len(ret) != 1:
        raise Reject("dft_upsample has %d return statements" % len(ret))
    rv = ret[0].value
    ok = (isinstance(rv, ast.Call) and ast.unparse(rv.func) in ("xp.real", "np.real") and len(rv.args) == 1
          and isinstance(rv.args[0], ast.BinOp) and isinstance(rv.args[0].op, ast.MatMult)
          and isinstance(rv.args[0].left, ast.BinOp) and isinstance(rv.args[0].left.op, ast.MatMult)
          and isinstance(rv.args[0].left.left, ast.Name) and isinstance(rv.args[0].right, ast.Name)
          and ast.unparse(rv.args[0].left.right) == "F")
    if not ok:
        _rej(rv, "dft_upsample no longer returns real(kern_row @ F @ kern_col)")
    kern_names = (rv.args[0].left.left.id, rv.args[0].right.id)
    envu = {"up": ("up", "Z")}
    shp = [a_ for a_ in g.assigns if ast.unparse(a_[2] if not isinstance(a_[2], tuple) else a_[2][1]) == "F.shape"]
    if len(shp) != 2 or not all(isinstance(a_[2], tuple) for a_ in shp):
        raise Reject("dft_upsample: `M, N = F.shape` is gone")
    mname, nname = [a_[1] for a_ in sorted(shp, key=lambda a_: a_[2][2])]

    def find_arange(tr, node):
        hits = []

        def walk(x, line):
            if isinstance(x, ast.Name) and ast.unparse(x) not in tr.env:
                a_ = g.last_before(x.id, line)
                if a_ is not None and not isinstance(a_[2], tuple):
                    walk(a_[2], a_[0])
                return
            if isinstance(x, ast.Call) and ast.unparse(x.func).endswith("arange") and len(x.args) == 2:
                hits.append((x, line))
                return
            for ch in ast.iter_child_nodes(x):
                walk(ch, line)
        walk(node, tr.line)
        if len(hits) != 1:
            _rej(node, "window index vector is not one arange(lo, hi)")
        x, line = hits[0]
        t2 = Tr(g, tr.env, None, line)
        lo, hi = t2.e(x.args[0]), t2.e(x.args[1])
        if lo[1] != "Z" or hi[1] != "Z":
            _rej(x, "arange bounds")
        return lo[0], hi[0]

    for nm, gname, rowfirst in ((kern_names[0], "gen_np_kphase_row", True), (kern_names[1], "gen_np_kphase_col", False)):
        a = g.last_before(nm, ret[0].lineno)
        if a is None:
            raise Reject("dft_upsample: kernel %s is not assigned" % nm)
        node = a[2]
        if not (isinstance(node, ast.Call) and ast.unparse(node.func) in ("np.exp", "xp.exp") and len(node.args) == 1):
            _rej(node, "kernel is not exp(...)")
        tr = Tr(g, dict(envu, **({mname: ("n", "Z"), "shift[0]": ("x0", "Q")} if rowfirst else {nname: ("n", "Z"), "shift[1]": ("x0", "Q")})),
                None, a[0])
        num, den, sign, A, B = phase_of(tr, node.args[0], "a", "k")
        ia, ik = ("a", "k") if rowfirst else ("k", "a")      # kern_col = outer(freq, col + up shift): window index is second
        terms = [Tr.toQ(tr.e(x)) for x in num] + [Tr.toQ(tr.elem(A, ia)), Tr.toQ(tr.elem(B, ik))]
        dens = [Tr.toQ(tr.e(x)) for x in den]
        body = "(%s%s%s)%%Q" % ("- " if sign < 0 else "", " * ".join(terms), "".join(" / %s" % d for d in dens))
        D(gname, "(n up : Z) (x0 : Q) (a k : Z)", "Q", body)
        lo, hi = find_arange(tr, A if rowfirst else B)
        wname = "gen_np_row" if rowfirst else "gen_np_col"
        D(wname, "(up a : Z)", "Z", "(%s + a)%%Z" % lo)
        D(wname + "_len", "(up : Z)", "Z", "(%s - %s)%%Z" % (hi, lo))
        if rowfirst:
            D("gen_du", "(up : Z)", "Z", "(- %s)%%Z" % lo)      # the half width: row = arange(-du, du + 1)

    # ------------------------------------------------------------------ cross_correlation_shift_torch
    h = Fn(_function(tree, "cross_correlation_shift_torch"))
    for nm, gname, idx in (("dx", "gen_t_centre", 0), ("dy", "gen_t_centre_col", 1)):
        a = h.nth(nm)
        envt = {"xy_shift[%d]" % idx: ("t", "Q"), ("M", "N")[idx]: ("n", "Z")}
        D(gname, "(n : Z) (t : Q)", "Q", Tr.toQ(Tr(None, envt).e(a[2])))
    if ast.unparse(h.nth("xy_shift")[2]) != "align_images_fourier_torch(G1, G2, upsample_factor)":
        _rej(h.nth("xy_shift")[2], "call of align_images_fourier_torch")

    # ------------------------------------------------------------------ align_images_fourier_torch
    t = Fn(_function(tree, "align_images_fourier_torch"))
    envA = {"flat_idx": ("i", "Z"), "cc_real.shape[1]": ("ncols", "Z")}
    for nm, gname in (("x0", "gen_t_unravel_row"), ("y0", "gen_t_unravel_col")):
        a = t.nth(nm)
        c = Tr(None, envA).e(a[2])
        if c[1] != "Z":
            _rej(a[2], "unravel")
        D(gname, "(i ncols : Z)", "Z", c[0])
    for nm, gname, envi in (("x_inds", "gen_t_inds", {"M": ("n", "Z"), "x0": ("x0", "Z")}),
                            ("y_inds", "gen_t_inds_col", {"N": ("n", "Z"), "y0": ("x0", "Z")})):
        a = t.nth(nm)
        D(gname, "(n x0 : Z)", "list Z", _vec3(Tr(None, envi), a[2], var="dd"))
    for nm, want in (("vx", "cc_real[x_inds, y0]"), ("vy", "cc_real[x0, y_inds]")):
        if ast.unparse(t.nth(nm)[2]) != want:
            _rej(t.nth(nm)[2], "%s is no longer %s" % (nm, want))
    for nm, gname, v in (("dx", "gen_t_parab", "vx"), ("dy", "gen_t_parab_col", "vy")):
        a = t.nth(nm)
        envp = {"%s[0]" % v: ("v0", "Q"), "%s[1]" % v: ("v1", "Q"), "%s[2]" % v: ("v2", "Q")}
        D(gname, "(v0 v1 v2 : Q)", "Q", Tr.toQ(Tr(t, envp, None, a[0]).e(a[2])))
    for nm, gname, d in (("x0", "gen_t_half", "dx"), ("y0", "gen_t_half_col", "dy")):
        a = t.nth(nm, 1)
        envh = {nm: ("x0", "Z"), d: ("dx", "Q")}
        D(gname, "(x0 : Z) (dx : Q)", "Q", Tr.toQ(Tr(None, envh).e(a[2])))
    ups_if = [n for n in ast.walk(t.fdef) if isinstance(n, ast.If) and "upsample_factor" in ast.unparse(n.test)]
    if len(ups_if) != 1:
        raise Reject("align_images_fourier_torch: upsampling test")
    c = Tr(None, {"upsample_factor": ("up", "Z")}).e(ups_if[0].test)
    D("gen_t_upsamples", "(up : Z)", "bool", c[0])
    if ast.unparse(ups_if[0].body[0]) != "xy_shift = upsampled_correlation_torch(cc, upsample_factor, xy_shift)":
        _rej(ups_if[0].body[0], "call of upsampled_correlation_torch")

    # ------------------------------------------------------------------ upsampled_correlation_torch
    u = Fn(_function(tree, "upsampled_correlation_torch"))
    envU = {"upsampleFactor": ("up", "Z")}
    a = u.nth("xyShift")
    for comp, gname in ((0, "gen_t_round"), (1, "gen_t_round_col")):
        D(gname, "(up : Z) (x : Q)", "Q", Tr.toQ(Tr(None, dict(envU, xyShift=("x", "Q")), comp).e(a[2])))
    a = u.nth("globalShift")
    gs = Tr(None, envU).e(a[2])
    if gs[1] != "Z":
        _rej(a[2], "globalShift is not an integer")
    D("gen_t_gs", "(up : Z)", "Z", gs[0])
    a = u.nth("upsampleCenter")
    D("gen_t_center", "(up : Z) (xs : Q)", "Q", Tr.toQ(Tr(u, dict(envU, xyShift=("xs", "Q")), None, a[0]).e(a[2])))
    ok, _ = _slice_ok(u, "patch", ("imageCorrUpsample.real",), {"r": ("lx", "Z"), "c": ("ly", "Z")}, None)
    D("gen_t_patch_ok", "(lx ly W : Z)", "bool", ok)
    envP = {"icc[0, 1]": ("v0", "Q"), "icc[1, 1]": ("v1", "Q"), "icc[2, 1]": ("v2", "Q"),
            "icc[1, 0]": ("v0", "Q"), "icc[1, 2]": ("v2", "Q")}
    dxs = [x for x in u.assigns if x[1] == "dx" and not isinstance(x[2], tuple) and "icc" in ast.unparse(x[2])]
    dys = [x for x in u.assigns if x[1] == "dy" and not isinstance(x[2], tuple) and "icc" in ast.unparse(x[2])]
    if len(dxs) != 1 or len(dys) != 1:
        raise Reject("upsampled_correlation_torch: parabola assignments")
    if "icc[2, 1]" not in ast.unparse(dxs[0][2]) or "icc[1, 2]" not in ast.unparse(dys[0][2]):
        raise Reject("upsampled_correlation_torch: parabola axes")
    D("gen_t_wparab", "(v0 v1 v2 : Q)", "Q * Q", "(%s, %s)" % tuple(
        Tr.toQ(Tr(None, envP).e(part)) for part in (dxs[0][2].left, dxs[0][2].right))
        if isinstance(dxs[0][2], ast.BinOp) and isinstance(dxs[0][2].op, ast.Div) else _rej(dxs[0][2], "parabola is not a quotient"))
    D("gen_t_wparab_col", "(v0 v1 v2 : Q)", "Q * Q", "(%s, %s)" % tuple(
        Tr.toQ(Tr(None, envP).e(part)) for part in (dys[0][2].left, dys[0][2].right))
        if isinstance(dys[0][2], ast.BinOp) and isinstance(dys[0][2].op, ast.Div) else _rej(dys[0][2], "parabola is not a quotient"))
    # final: xyShift + (xySubShift + [dx, dy]) / up   with  xySubShift = peak - globalShift
    fin = [x for x in u.assigns if x[1] == "xyShift"][-1]
    sub = [x for x in u.assigns if x[1] == "xySubShift"][-1]
    if ast.unparse(sub[2]).replace(" ", "") != "xySubShift-globalShift.to(xySubShift.dtype)":
        _rej(sub[2], "xySubShift centring")
    for comp, gname in ((0, "gen_t_offset"), (1, "gen_t_offset_col")):
        envF = dict(envU, xyShift=("xs", "Q"), xySubShift=("(inject_Z r - inject_Z (%s))%%Q" % gs[0], "Q"),
                    dx=("d", "Q"), dy=("d", "Q"))
        D(gname, "(up : Z) (xs : Q) (r : Z) (d : Q)", "Q", Tr.toQ(Tr(None, envF, comp).e(fin[2])))

    # ------------------------------------------------------------------ dftUpsample_torch
    k = Fn(_function(tree, "dftUpsample_torch"))
    envK = {"upsampleFactor": ("up", "Z")}
    a = k.nth("numRow")
    nr = Tr(k, envK, None, a[0]).e(a[2])
    if nr[1] != "Z":
        _rej(a[2], "numRow is not an integer")
    D("gen_t_win", "(up : Z)", "Z", nr[0])
    if ast.unparse(k.nth("numCol")[2]) != "numRow":
        _rej(k.nth("numCol")[2], "numCol")
    for nm, gname in (("rowKern", "gen_t_kphase_row"), ("colKern", "gen_t_kphase_col")):
        a = k.nth(nm)
        node = a[2]
        while isinstance(node, ast.Call) and isinstance(node.func, ast.Attribute) and node.func.attr in IDENT_METHODS:
            node = node.func.value
        if not (isinstance(node, ast.Call) and ast.unparse(node.func) == "torch.exp" and len(node.args) == 1):
            _rej(node, "kernel is not exp(...)")
        envK2 = dict(envK, **({"M": ("n", "Z"), "xyShift[0]": ("ctr", "Q")} if nm == "rowKern" else {"N": ("n", "Z"), "xyShift[1]": ("ctr", "Q")}))
        envK2["numRow"] = ("(%s)" % nr[0], "Z")
        envK2["numCol"] = ("(%s)" % nr[0], "Z")
        tr = Tr(k, envK2, None, a[0])
        num, den, sign, A, B = phase_of(tr, node.args[0], "a", "k")
        # rowKern: outer(row_coords, row_freq)  -> (window index a, frequency k); colKern: outer(col_freq, col_coords)
        first_is_window = "coords" in ast.unparse(A)
        ia, ik = ("a", "k") if first_is_window else ("k", "a")
        terms = [Tr.toQ(tr.e(x)) for x in num] + [Tr.toQ(tr.elem(A, ia)), Tr.toQ(tr.elem(B, ik))]
        dens = [Tr.toQ(tr.e(x)) for x in den]
        body = "(%s%s%s)%%Q" % ("- " if sign < 0 else "", " * ".join(terms), "".join(" / %s" % d for d in dens))
        D(gname, "(n up : Z) (ctr : Q) (a k : Z)", "Q", body)
    text = HEADER % REL + "\n\n".join(defs) + "\n"
    info = {"source": REL, "functions": ["cross_correlation_shift", "dft_upsample", "cross_correlation_shift_torch",
                                         "align_images_fourier_torch", "upsampled_correlation_torch", "dftUpsample_torch"],
            "definitions": len(defs),
            "generated_sha256": hashlib.sha256(text.encode()).hexdigest()}
    return text, info


# --------------------------------------------------------------------------------------------- cross-test
def _py_reference(rng):
    """boolean Coq expressions `gen_f args =? value computed by Python with the library's own calls`"""
    import numpy as np
    import torch
    out = []

    def qs(x):
        fr = Fraction(x)
        return "(%d # %d)" % (fr.numerator, fr.denominator)

    def Zeq(a, v):
        out.append("(%s =? (%d))%%Z" % (a, v))

    def Qeq(a, v):
        out.append("Qeq_bool (%s) %s" % (a, qs(v)))

    def Leq(a, vs):
        out.append("(if list_eq_dec Z.eq_dec (%s) [%s]%%Z then true else false)" % (a, "; ".join(str(int(v)) for v in vs)))

    def Beq(a, v):
        out.append("Bool.eqb (%s) %s" % (a, "true" if v else "false"))

    for _ in range(40):
        up = rng.randint(1, 64)
        n = rng.randint(2, 40)
        du = int(np.ceil(1.5 * up).astype(int))
        Zeq("gen_du %d" % up, du)
        Zeq("gen_np_row_len %d" % up, len(np.arange(-du, du + 1)))
        Zeq("gen_np_row %d 0" % up, int(np.arange(-du, du + 1)[0]))
        Zeq("gen_t_win %d" % up, int(math.ceil(1.5 * up)))
        Zeq("gen_t_gs %d" % up, int(torch.floor(torch.ceil(torch.tensor(up * 1.5)) / 2.0)))
        Beq("gen_t_upsamples %d" % up, up > 2)
        # centring, both estimators, on dyadic values (exact in binary64)
        t = rng.randrange(-4 * n * 64, 4 * n * 64) / 64.0
        sh = (np.array([t, t]) + 0.5 * np.array((n, n))) % (n, n) - 0.5 * np.array((n, n))
        Qeq("gen_np_centre %d %s" % (n, qs(t)), float(sh[0]))
        Qeq("gen_np_centre_col %d %s" % (n, qs(t)), float(sh[1]))
        Qeq("gen_t_centre %d %s" % (n, qs(t)), (t + n / 2) % n - n / 2)
        # wrapped refined peak
        xi = rng.randrange(0, n)
        d = rng.randrange(-64, 65) / 128.0
        Qeq("gen_np_wrap %d %d %s" % (n, xi, qs(d)), (xi + d) % n)
        # torch rounding to the half-pixel / upsampled grid
        hv = float(torch.round(torch.tensor((xi + d) * 2.0, dtype=torch.float64)) / 2.0)
        Qeq("gen_t_half %d %s" % (xi, qs(d)), hv)
        xv = rng.randrange(0, 2 * n) / 2.0
        ut = rng.choice([4, 8, 16, 32, 64])          # dyadic factors: the quotient is exact in binary64
        rv = float((torch.round(torch.tensor([xv, xv], dtype=torch.float64) * float(ut)) / float(ut))[0])
        Qeq("gen_t_round %d %s" % (ut, qs(xv)), rv)
        gs = float(torch.floor(torch.ceil(torch.tensor(ut * 1.5)) / 2.0))
        Qeq("gen_t_center %d %s" % (ut, qs(rv)), gs - ut * rv)
        r_, dd = rng.randrange(0, int(math.ceil(1.5 * ut))), rng.randrange(-32, 33) / 64.0
        Qeq("gen_t_offset %d %s %d %s" % (ut, qs(rv), r_, qs(dd)), rv + ((r_ - gs) + dd) / float(ut))
        W = 2 * int(np.ceil(1.5 * ut)) + 1
        pk = rng.randrange(0, W)
        x0 = rng.randrange(0, n * 8) / 8.0
        shf = np.array([x0, x0]) + (np.array((pk, pk)) - np.array((W, W)) // 2) / ut
        shf += np.array([dd, dd]) / ut
        Qeq("gen_np_offset %d %d %s %d %s" % (ut, W, qs(x0), pk, qs(dd)), float(shf[0]))
        # parabolas on small integers
        v = [rng.randint(-9, 9) for _ in range(3)]
        den = 4 * v[1] - 2 * v[2] - 2 * v[0]
        pv = Fraction(v[2] - v[0], den) if den != 0 else Fraction(0)
        Qeq("gen_np_parab (%d#1) (%d#1) (%d#1)" % tuple(v), pv)
        Qeq("gen_t_parab (%d#1) (%d#1) (%d#1)" % tuple(v), pv)
        # wrap-around neighbour indices
        Leq("gen_np_inds %d %d" % (n, xi), np.mod(xi + np.arange(-1, 2), n).astype(int))
        Leq("gen_np_inds_col %d %d" % (n, xi), np.mod(xi + np.arange(-1, 2), n).astype(int))
        Leq("gen_t_inds %d %d" % (n, xi), [((xi + dd_) % n) for dd_ in (-1, 0, 1)])
        # slices: the 3x3 patch test (numpy slicing itself)
        W = rng.randint(1, 12)
        lx, ly = rng.randrange(0, W), rng.randrange(0, W)
        loc = np.zeros((W, W))
        ok = loc[lx - 1: lx + 2, ly - 1: ly + 2].shape == (3, 3)
        Beq("gen_np_patch_ok %d %d %d" % (lx, ly, W), ok)
        Beq("gen_t_patch_ok %d %d %d" % (lx, ly, W), tuple(torch.zeros(W, W)[lx - 1: lx + 2, ly - 1: ly + 2].shape) == (3, 3))
        # unravel
        ncols = rng.randint(1, 30)
        i = rng.randrange(0, ncols * 20)
        Zeq("gen_t_unravel_row %d %d" % (i, ncols), i // ncols)
        Zeq("gen_t_unravel_col %d %d" % (i, ncols), i % ncols)
        # frequency vector of the kernels: phase at x0 = 0 of the window sample with row value 1, times n up
        kk = rng.randrange(0, n)
        fv = int((np.fft.ifftshift(np.arange(n)) - n // 2)[kk])
        Qeq("gen_np_kphase_row %d %d 0 %d %d * inject_Z (%d * %d)" % (n, up, du + 1, kk, n, up), fv)
        Qeq("gen_np_kphase_col %d %d 0 %d %d * inject_Z (%d * %d)" % (n, up, du + 1, kk, n, up), fv)
        tf = int((torch.fft.ifftshift(torch.arange(n)) - math.floor(n / 2))[kk])
        Qeq("gen_t_kphase_row %d %d 0 1 %d * inject_Z (%d * %d)" % (n, up, kk, n, up), -tf)
        Qeq("gen_t_kphase_col %d %d 0 1 %d * inject_Z (%d * %d)" % (n, up, kk, n, up), -tf)
    return out


def run_tie(ctx: Ctx) -> bool:
    t0 = time.time()
    rec = {"status": "ok"}
    ctx.cov["translator_tie"] = rec
    for s in TRUSTED:
        if s not in ctx.cov["trusted_base"]:
            ctx.cov["trusted_base"].append(s)
    saved_cmd = ctx.cov.get("checker_cmd", "")
    saved_problems = list(getattr(ctx, "_proof_problems", []))
    problems = []
    props = GEN_DIR / "C13_GenProperties.v"

    def not_checked(why):
        ths = re.findall(r"(?m)^\s*Theorem\s+(\w+)", props.read_text())
        ctx.cov["obligations"] += len(ths)
        for th in ths:
            ctx.cov["theorems"][th] = "NOT CHECKED (%s)" % why

    try:
        text, info = translate(SRC)
        rec.update(info)
    except Reject as e:
        problems.append("index-arithmetic tie: the translator (fail closed) rejected the source of imaging_utils.py: %s" % e)
        not_checked("translator rejected the source")
        text = None
    if text is not None:
        gen = ctx.dir / "Gen_C13.v"
        for stale in (gen.with_suffix(".vo"), ctx.dir / "C13_GenProofs.vo", ctx.dir / "C13_GenProperties.vo"):
            if stale.exists():
                stale.unlink()
        gen.write_text(text)
        rec["generated_file"] = str(gen)
        flags = COQ_FLAGS + ["-Q", str(ctx.dir), "GenC13"]
        bad = ctx.static_scan([gen, GEN_DIR / "C13_GenProofs.v", props])
        if bad:
            problems.append("forbidden declarations: %s" % bad[:5])
        rc, out = sh(["timeout", "300", "coqc"] + flags + [str(gen)], cwd=ctx.dir, timeout=330)
        if rc != 0:
            problems.append("index-arithmetic tie: generated file Gen_C13.v does not compile:\n" + "\n".join(out.strip().splitlines()[-12:]))
            not_checked("generated file does not compile")
        else:
            script = GEN_DIR / "C13_GenProofs.v"
            rc, out = sh(["timeout", "300", "coqc"] + flags + ["-o", str(ctx.dir / "C13_GenProofs.vo"), str(script)],
                         cwd=ctx.dir, timeout=330)
            if rc != 0:
                lemma = ""
                m = re.search(r'line (\d+), characters', out)
                if m:
                    for i, line in enumerate(script.read_text().splitlines(), 1):
                        if i > int(m.group(1)):
                            break
                        mm = re.match(r"\s*(?:Lemma|Theorem)\s+(\w+)", line)
                        if mm:
                            lemma = mm.group(1)
                problems.append("index-arithmetic tie: the arithmetic translated from the current source no longer equals the model's "
                                "definitions: fixed proof script C13_GenProofs.v fails at `%s`:\n%s"
                                % (lemma, "\n".join(out.strip().splitlines()[-10:])))
                not_checked("fixed proof script fails at %s" % lemma)
            elif not ctx.require_proofs(props_name="C13_GenProperties", props_path=props,
                                        extra_flags=["-Q", str(ctx.dir), "GenC13"], make_targets=[]):
                problems += ["index-arithmetic tie: " + p for p in ctx._proof_problems]
            # translator cross-test
            try:
                pairs = _py_reference(ctx.rng)
                pre = ("From QV.lib Require Import Prelude.\nFrom QV.model Require Import C13_Model.\nFrom GenC13 Require Import Gen_C13.\n"
                       "From Coq Require Import QArith Qabs List.\nLocal Close Scope Q_scope.\nLocal Open Scope Z_scope.\n")
                vals = ctx.coq_eval("tie_cross", pre, pairs, shard=400, extra_flags=["-Q", str(ctx.dir), "GenC13"])
                nbad = [(pairs[i], v) for i, v in enumerate(vals) if v is not True]
                rec["cross_test"] = {"cases": len(pairs), "mismatches": len(nbad)}
                if nbad:
                    problems.append("translator cross-test: %d of %d generated definitions disagree with Python on the same "
                                    "arguments, first: %s -> %r" % (len(nbad), len(pairs), nbad[0][0], nbad[0][1]))
            except Exception as e:  # noqa: BLE001
                problems.append("translator cross-test could not run: %r" % (e,))
    ctx._proof_problems = saved_problems
    ctx.cov["checker_cmd"] = (saved_cmd + "  ;  python -m harness.c13_tie > build/C13/Gen_C13.v && coqc ... Gen_C13.v && "
                              "coqc ... coq/gen_proofs/C13_GenProofs.v && coqc ... coq/gen_proofs/C13_GenProperties.v")
    rec["wall_s"] = round(time.time() - t0, 2)
    if problems:
        rec["status"] = "broken"
        rec["problems"] = [p[:1500] for p in problems]
        msg = "; ".join(problems)
        ctx.broken_obligation = (ctx.broken_obligation + "; " + msg) if ctx.broken_obligation else msg
        ctx.log("PROOF OBLIGATION BROKEN (index-arithmetic tie):", msg[:2500])
        return False
    ctx.log("index-arithmetic tie: %d definitions translated from %s tied by theorem to the model (%.1fs)"
            % (rec.get("definitions", 0), REL, rec["wall_s"]))
    return True


if __name__ == "__main__":
    import sys
    try:
        sys.stdout.write(translate(SRC)[0])
    except Reject as e:
        print("REJECTED:", e)
        sys.exit(1)
