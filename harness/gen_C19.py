"""C19 — seeded generators of op sequences (all randomness from the rng handed in).

schema mode : a fixed schema says which names are sections and which are leaves, every key
              occurrence is spelled with '-' or '_' at random (pure spellings), values are
              drawn from a small pool so that "equal to the old default" happens often.
              All oracle clauses apply.
wild mode   : shape conflicts, mixed spellings, both spellings in one mapping, dotted keys
              inside mappings, nested "device" keys, malformed arguments.  Correspondence
              (and the device clause) only.
"""
from __future__ import annotations

SCHEMA = {
    "alpha": None, "dtype_real": None, "n-iter": None, "max_batch_size": None, "verbose": None,
    "viz": {"cmap": None, "real_space_units": None, "line-width": None,
            "colors": {"set-a": None, "paired_b": None}},
    "io-opts": {"k": None, "chunk_size": None},
    "deep_sec": {"sub-a": {"x_y": None, "z": None}, "w": None},
}
SCALARS = [0, 1, 2, 3, "a", "b", "float32", "float64", True, False, None, "", "x-y"]
DEV_OK = ["cpu", "cpu", "CPU", "cpu", "cpu:0", None]
DEV_BAD = ["cuda", "cuda:0", "CUDA:1", "gpu", "GPU", "mps", "tpu", "", "bogus", "xla:0", 0, 3, -1, True, "cuda:1"]
DEV_ODD = ["xcpu", {"a": "cpu"}, {"a": 1}, "cpu:", "cpu:x", "not-a-cpu", "cpux", " cpu", "cpu:1", {}]


def spell(r, k):
    if "-" in k or "_" in k:
        return k.replace("_", "-") if r.random() < 0.5 else k.replace("-", "_")
    return k


def schema_paths(s=SCHEMA, pre=()):
    for k, v in s.items():
        if v is None:
            yield pre + (k,), None
        else:
            yield pre + (k,), v
            yield from schema_paths(v, pre + (k,))


LEAF_PATHS = [p for p, v in schema_paths() if v is None]
SEC_PATHS = [(p, v) for p, v in schema_paths() if v is not None]


def scalar(r):
    return r.choice(SCALARS)


def section_value(r, sch, full=0.5):
    """a well-formed mapping for a section of the schema"""
    out = {}
    for k, v in sch.items():
        if r.random() < full:
            out[spell(r, k)] = scalar(r) if v is None else section_value(r, v, full)
    return out


def tree_for_paths(r, paths):
    """mapping holding the given schema leaf paths (spelled at random, consistently inside
    the one mapping)"""
    out: dict = {}
    from .impl_C19 import norm
    for p in paths:
        d = out
        for i, k in enumerate(p):
            k2 = next((x for x in d if norm(x) == norm(k)), None) or spell(r, k)
            if i == len(p) - 1:
                d[k2] = scalar(r)
            else:
                d = d.setdefault(k2, {})
    return out


def device_value(r):
    x = r.random()
    if x < 0.45:
        return r.choice(DEV_OK)
    if x < 0.9:
        return r.choice(DEV_BAD)
    return r.choice(DEV_ODD)


def gen_set_items(r, n):
    """list of (form, key, value): form in {"map", "kw"}"""
    items = []
    for _ in range(n):
        x = r.random()
        if x < 0.12:
            items.append((r.choice(["map", "kw"]), "device", device_value(r)))
            continue
        if x < 0.27:
            p, sch = r.choice(SEC_PATHS)
            val = section_value(r, sch)
        else:
            p = r.choice(LEAF_PATHS)
            val = scalar(r)
        comps = [spell(r, k) for k in p]
        if r.random() < 0.35 and not any(c.startswith("_") or c.endswith("_") or "__" in c for c in comps):
            items.append(("kw", "__".join(comps), val))
        else:
            items.append(("map", ".".join(comps), val))
    return items


def mk_set(r, tag="set", nmax=3):
    items = gen_set_items(r, r.choice([1, 1, 1, 2, 2, nmax]))
    arg, kw = {}, []
    for form, k, v in items:
        if form == "map":
            arg[k] = v
        elif k not in [x[0] for x in kw] and k not in ("config", "arg"):
            kw.append([k, v])
    a = arg if (arg or r.random() < 0.1) else None
    return [tag, a, kw]


def mk_upd(r):
    n = r.choice([1, 1, 2, 3, 5])
    new = tree_for_paths(r, [r.choice(LEAF_PATHS) for _ in range(n)])
    if r.random() < 0.12:
        new["device"] = device_value(r)
    return ["upd", new]


def mk_refresh(r):
    if r.random() < 0.12:
        return ["refresh", [tree_for_paths(r, [r.choice(LEAF_PATHS) for _ in range(r.choice([1, 2]))])
                            for _ in range(r.choice([1, 2]))]]
    return ["refresh", []]


def mk_sop(r):
    x = r.random()
    if x < 0.5:
        return mk_set(r)
    if x < 0.8:
        return mk_upd(r)
    return mk_refresh(r)


def mk_with(r):
    x = r.random()
    tag = "with" if r.random() < 0.55 else "withx"
    if x < 0.25:
        o = mk_dup_set(r, tag)
    else:
        o = mk_set(r, tag)
    y = r.random()
    if y < 0.45:
        body = []
    elif y < 0.6 and tag == "withx":
        body = [["raise"]]
    else:
        body = [mk_sop(r) for _ in range(r.choice([1, 2, 3]))]
        if tag == "withx" and r.random() < 0.5:
            body.append(["raise"])
    return o + [body]


def mk_dup_set(r, tag):
    """one call that writes the same entry twice (mapping then keyword form, possibly under the
    other spelling) or a parent and a child: the order of the undo steps matters"""
    kind = r.choice(["same", "same", "child-parent", "parent-child"])
    cands = [p for p in LEAF_PATHS if not any(c.startswith("_") or c.endswith("_") for c in p)]
    p = r.choice(cands)
    if kind == "same":
        return [tag, {".".join(spell(r, k) for k in p): scalar(r)}, [["__".join(spell(r, k) for k in p), scalar(r)]]]
    secs = [(q, sch) for q, sch in SEC_PATHS]
    q, sch = r.choice(secs)
    leaf = r.choice([k for k, v in sch.items() if v is None])
    child = ".".join(spell(r, k) for k in q + (leaf,))
    parent = ".".join(spell(r, k) for k in q)
    if kind == "child-parent":
        return [tag, {child: scalar(r), parent: r.choice([scalar(r), section_value(r, sch)])}, []]
    return [tag, {parent: section_value(r, sch), child: scalar(r)}, []]


def gen_respell_body_seq(r):
    """a with-block whose body rebuilds the store (refresh) and brings the touched key back
    under the other spelling (update_defaults / set): the undo steps of __exit__ must find the
    entry under the spelling the store holds at exit"""
    cands = [p for p in LEAF_PATHS if any("-" in c or "_" in c for c in p)]
    p = r.choice(cands)
    a = [spell(r, k) for k in p]
    from .impl_C19 import other_spelling
    b = [other_spelling(k) for k in a]
    ops = []
    if r.random() < 0.5:
        ops.append(["upd", tree_for_paths(r, r.sample(LEAF_PATHS, 2))])
    if r.random() < 0.6:
        ops.append(["set", {".".join(a): scalar(r)}, []])
    body = [["refresh", []]]
    bt: dict = {}
    d = bt
    for i, k in enumerate(b):
        if i == len(b) - 1:
            d[k] = scalar(r)
        else:
            d = d.setdefault(k, {})
    body.append(["upd", bt] if r.random() < 0.6 else ["set", {".".join(b): scalar(r)}, []])
    if r.random() < 0.3:
        body.append(["raise"])
    ops.append([r.choice(["with", "withx"]), {".".join(a): scalar(r)}, [], body])
    for _ in range(r.randint(0, 2)):
        ops.append(mk_sop(r))
    return ops


def gen_schema_seq(r, nmin=5, nmax=12):
    if r.random() < 0.06:
        return gen_respell_body_seq(r)
    ops = []
    if r.random() < 0.8:
        ops.append(["upd", tree_for_paths(r, r.sample(LEAF_PATHS, r.randint(2, 8)))])
    for _ in range(r.randint(nmin, nmax)):
        ops.append(mk_with(r) if r.random() < 0.2 else mk_sop(r))
    return ops


# ------------------------------------------------------------------------------ wild
WKEYS = ["a", "b", "a_b", "a-b", "a_b-c", "a-b-c", "a_b_c", "", "device", "x.y", "a.b", "q", "cpu", "s"]


def wild_value(r, depth=0):
    if depth < 2 and r.random() < 0.35:
        return {r.choice(WKEYS): wild_value(r, depth + 1) for _ in range(r.randint(0, 3))}
    return r.choice(SCALARS + ["cpu", "tpu", 7, -2])


def wild_key(r):
    return ".".join(r.choice(WKEYS) for _ in range(r.choice([1, 1, 2, 3])))


def mk_wild_sop(r):
    x = r.random()
    if x < 0.5:
        if r.random() < 0.06:
            return ["set", {"__bad__": r.choice([5, "str", 0, True])}, []]
        arg = {wild_key(r): wild_value(r) for _ in range(r.randint(0, 3))}
        kw = []
        for _ in range(r.choice([0, 0, 1, 2])):
            k = r.choice(["a__b", "a_b", "a___b", "q__", "device", "a__a_b__q", "__", "s__a-b"])
            if k not in [y[0] for y in kw]:
                kw.append([k, wild_value(r)])
        return ["set", arg if (arg or r.random() < 0.5) else None, kw]
    if x < 0.82:
        return ["upd", {r.choice(WKEYS): wild_value(r) for _ in range(r.randint(0, 3))}]
    if r.random() < 0.15:
        ks = [k for k in WKEYS if k]
        return ["refresh", [{r.choice(ks): wild_value(r) for _ in range(r.randint(1, 2))}]]
    return ["refresh", []]


def gen_wild_seq(r, nmin=4, nmax=10):
    ops = []
    for _ in range(r.randint(nmin, nmax)):
        if r.random() < 0.18:
            s = mk_wild_sop(r)
            while s[0] != "set":
                s = mk_wild_sop(r)
            body = [] if r.random() < 0.5 else [mk_wild_sop(r) for _ in range(r.choice([1, 2]))]
            tag = r.choice(["with", "withx"])
            if tag == "withx" and r.random() < 0.4:
                body.append(["raise"])
            ops.append([tag, s[1], s[2], body])
        else:
            ops.append(mk_wild_sop(r))
    return ops


# ------------------------------------------------------------------------------ real module globals
G_LEAVES = [("dtype_real",), ("dtype-real",), ("dtype_complex",), ("verbose",), ("precision",),
            ("viz", "cmap"), ("viz", "real_space_units"), ("viz", "real-space-units"), ("viz", "interpolation"),
            ("mkl", "threads"), ("cupy", "fft-cache-size"), ("cupy", "fft_cache_size"),
            ("warnings", "suppress-all-"), ("viz", "phase-cmap"), ("newsec", "new_key"), ("newsec", "new-key"),
            ("extra-top",), ("extra_top",)]


def gen_globals_seq(r, nmin=5, nmax=10):
    from .impl_C19 import norm
    ops = []

    def tree(paths):
        out: dict = {}
        for p in paths:
            d = out
            for i, k in enumerate(p):
                k2 = next((x for x in d if norm(x) == norm(k)), None) or k
                if i == len(p) - 1:
                    d[k2] = r.choice(["float32", "float64", "int32", 1, 2, "gray", "A", "nm", True])
                else:
                    d = d.setdefault(k2, {})
        return out

    def gset(tag="set"):
        if r.random() < 0.3:
            return [tag, {"device": device_value(r)}, []]
        arg, kw = {}, []
        for _ in range(r.choice([1, 1, 2])):
            p = r.choice(G_LEAVES)
            v = r.choice(["float32", "float64", "int32", 1, 2, "gray", "A", "nm", False])
            if r.random() < 0.3 and not any(c.endswith("_") or c.endswith("-") for c in p):
                kw.append(["__".join(p), v]) if "__".join(p) not in [x[0] for x in kw] else None
            else:
                arg[".".join(p)] = v
        return [tag, arg or None, kw]

    for _ in range(r.randint(nmin, nmax)):
        x = r.random()
        if x < 0.45:
            ops.append(gset())
        elif x < 0.65:
            new = tree([r.choice(G_LEAVES) for _ in range(r.choice([1, 2]))])
            if r.random() < 0.15:
                new["device"] = device_value(r)
            ops.append(["upd", new])
        elif x < 0.82:
            ops.append(["refresh", []])
        else:
            tag = r.choice(["with", "withx"])
            body = [] if r.random() < 0.5 else [gset()]
            if tag == "withx" and r.random() < 0.5:
                body.append(["raise"])
            ops.append(gset(tag) + [body])
    return ops


# ------------------------------------------------------------------------------ direct update / merge
def gen_direct(r):
    """("update", old, new, priority, defaults) or ("merge", dicts): the helper functions behind
    update_defaults and refresh, called directly (all three priorities)"""
    from .impl_C19 import norm
    from .oracle_C19 import ref_get

    def tree(n):
        return tree_for_paths(r, [r.choice(LEAF_PATHS) for _ in range(n)])
    if r.random() < 0.25:
        return ["merge", [tree(r.choice([1, 2, 4])) for _ in range(r.choice([1, 2, 3]))]]
    prio = r.choice(["old", "old", "new", "new-defaults"])
    old = tree(r.choice([0, 2, 4, 6]))
    new = tree(r.choice([1, 2, 4]))
    if r.random() < 0.2:
        k = r.choice(["viz", "io-opts", "io_opts", "deep_sec"])
        k = next((x for x in new if norm(x) == norm(k)), k)
        new[k] = r.choice([{}, 3, None])
    dfl = None
    if prio == "new-defaults":
        dfl = tree(r.choice([1, 3, 5]))
        # make "still equal to the default" frequent
        for p in LEAF_PATHS:
            f, v = ref_get(old, p)
            if f and not isinstance(v, dict) and r.random() < 0.5:
                d = dfl
                ok = True
                for i, k in enumerate(p[:-1]):
                    k2 = next((x for x in d if norm(x) == norm(k)), None) or spell(r, k)
                    if not isinstance(d.get(k2, {}), dict):
                        ok = False
                        break
                    d = d.setdefault(k2, {})
                if ok:
                    k2 = next((x for x in d if norm(x) == norm(p[-1])), None) or spell(r, p[-1])
                    if not isinstance(d.get(k2), dict):
                        d[k2] = v
    return ["update", old, new, prio, dfl]



# ------------------------------------------------------------------------------ round 3: statement trees
def mk_scalar_set_args(r):
    """(arg, kw) writing scalar values at schema leaf paths only (no mapping values, so no record of
    a re-entered context manager holds a reference to a mapping of the store)"""
    o = mk_set(r)
    arg = {k: v for k, v in (o[1] or {}).items() if not isinstance(v, dict)} or None
    kw = [[k, v] for k, v in o[2] if not isinstance(v, dict)]
    if arg is None and not kw:
        p = r.choice(LEAF_PATHS)
        arg = {".".join(spell(r, k) for k in p): scalar(r)}
    return arg, kw


def mk_tree(r, depth=0, clean=False):
    """["block", x, arg, kw, body]: with-blocks nested up to three deep; `clean`: the body holds only
    nested clean blocks and raise statements (then the store must come back exactly)"""
    x = r.random() < 0.5
    o = mk_dup_set(r, "set") if r.random() < 0.2 else mk_set(r)
    body = []
    for _ in range(r.choice([0, 1, 1, 2, 3])):
        y = r.random()
        if depth < 2 and y < 0.4:
            body.append(mk_tree(r, depth + 1, clean))
        elif y < 0.55 or clean:
            body.append(["raise"])
        elif depth < 2 and y < 0.62:
            a, k = mk_scalar_set_args(r)
            body.append(["reuse", a, k, [mk_sop(r) for _ in range(r.choice([0, 1]))], [["raise"]] if r.random() < 0.3 else []])
        else:
            body.append(mk_sop(r))
    return ["block", x, o[1], o[2], body]


def gen_nest_seq(r):
    ops = []
    if r.random() < 0.8:
        ops.append(["upd", tree_for_paths(r, r.sample(LEAF_PATHS, r.randint(2, 8)))])
    for _ in range(r.randint(3, 6)):
        y = r.random()
        if y < 0.45:
            ops.append(mk_tree(r, 0, clean=r.random() < 0.45))
        elif y < 0.6:
            a, k = mk_scalar_set_args(r)
            b1 = [mk_sop(r) if r.random() < 0.6 else ["raise"] for _ in range(r.choice([0, 1, 2]))]
            b2 = [mk_sop(r) if r.random() < 0.6 else ["raise"] for _ in range(r.choice([0, 0, 1]))]
            ops.append(["reuse", a, k, b1, b2])
        else:
            ops.append(mk_sop(r))
    return ops


# ------------------------------------------------------------------------------ round 3: tables, environment
T_KEYS = ["alpha", "dtype_real", "old_key", "gone", "device", "viz", "n-iter", "viz.cmap", "sec"]


def gen_tables(r):
    depr = {}
    for k in r.sample(["old_key", "gone", "alpha", "viz", "dtype_real", "sec", "cmap"], r.choice([0, 1, 2, 3])):
        depr[k] = r.choice([None, None, "new_key", "renamed", ""])
    alias = {}
    for k in r.sample(["device", "dtype_real", "alpha", "cmap", "viz"], r.choice([0, 1, 2])):
        if k == "device":
            alias[k] = [[a, b] for a, b in r.sample([["gpu", "cpu"], ["gpu", "cuda:0"], ["fast", "cpu:0"], [0, "cpu"], ["cpu", "tpu"]],
                                                     r.choice([1, 2]))]
        else:
            alias[k] = [[a, b] for a, b in r.sample([["f32", "float32"], [1, "one"], [True, 7], ["a", None], ["b", "a"], [None, 0]],
                                                     r.choice([1, 2, 3]))]
    return depr, alias


def t_value(r, depth=0):
    if depth < 2 and r.random() < 0.3:
        return {k: t_value(r, depth + 1) for k in r.sample(["alpha", "gone", "cmap", "device", "old_key", "k"], r.randint(0, 3))}
    return r.choice(["f32", 1, True, "a", "b", None, "gpu", "fast", "cpu", 0, "float64", "x"])


def gen_tables_case(r):
    depr, alias = gen_tables(r)
    y = r.random()
    if y < 0.35:
        return ["ckv", depr, alias, r.choice(T_KEYS), t_value(r)]
    if y < 0.7:
        arg = {r.choice(T_KEYS): t_value(r) for _ in range(r.randint(0, 3))}
        kw = []
        for _ in range(r.choice([0, 1, 2])):
            k = r.choice(["alpha", "gone", "device", "viz__cmap", "old_key", "sec__gone"])
            if k not in [x[0] for x in kw]:
                kw.append([k, t_value(r)])
        conf = r.choice([{}, {"alpha": 0, "viz": {"cmap": "gray"}}, {"device": "cpu", "sec": {"k": 1}}])
        return ["set_t", depr, alias, arg if (arg or r.random() < 0.5) else None, kw, conf]
    old = r.choice([{}, {"alpha": 0, "viz": {"cmap": "gray"}}, {"device": "cpu", "sec": {"k": 1}, "viz": 3}])
    new = {r.choice(["alpha", "gone", "viz", "sec", "device", "old_key", "dtype_real"]): t_value(r) for _ in range(r.randint(1, 3))}
    prio = r.choice(["old", "new", "new-defaults"])
    dfl = r.choice([None, {"alpha": 0, "viz": {"cmap": "gray"}}]) if prio == "new-defaults" else None
    return ["update_t", depr, alias, old, new, prio, dfl]


ENV_VALUES = [("1", 1), ("'s'", "s"), ("None", None), ("True", True), ("plain", "plain"), ("none", None), ("TRUE", True),
              ("-3", -3), ("''", ""), ("false", False), ("x-y", "x-y")]


def gen_env_case(r):
    """collect_env(env): names with and without the prefix, nested (double underscore) names, names
    that differ only in case (one dict entry), values that ast.literal_eval / the hard-coded map read"""
    names = ["QUANTEM_ALPHA", "QUANTEM_alpha", "QUANTEM_VIZ__CMAP", "QUANTEM_VIZ__REAL_SPACE_UNITS", "QUANTEM_A__B__C",
             "QUANTEM_", "QUANTEM__X", "QUANTEMX", "HOME", "quantem_alpha", "QUANTEM_N-ITER", "QUANTEM_VIZ", "QUANTEM_DEVICE",
             "XQUANTEM_ALPHA", "QUANTEM_EM_X", "QUANTEM_A_B__C-D"]
    env = []
    for n in r.sample(names, r.randint(0, 5)):
        txt, val = r.choice(ENV_VALUES)
        env.append([n, txt, val])
    return ["collect_env", env]


def gen_globals_nest_seq(r):
    """statement trees on the real module globals (keys of the shipped yaml)"""
    vals = ["float32", "float64", "int32", 1, 2, "gray", "A", "nm", False]

    def args():
        arg = {}
        for _ in range(r.choice([1, 1, 2])):
            arg[".".join(r.choice(G_LEAVES))] = r.choice(vals)
        return arg

    def tree(depth=0):
        body = []
        for _ in range(r.choice([0, 1, 2])):
            y = r.random()
            if depth < 2 and y < 0.45:
                body.append(tree(depth + 1))
            elif y < 0.65:
                body.append(["raise"])
            elif y < 0.8:
                body.append(["refresh", []])
            else:
                body.append(["set", args(), []])
        return ["block", r.random() < 0.5, args(), [], body]

    ops = []
    for _ in range(r.randint(3, 5)):
        y = r.random()
        if y < 0.5:
            ops.append(tree())
        elif y < 0.65:
            ops.append(["reuse", args(), [], [["raise"]] if r.random() < 0.5 else [], []])
        elif y < 0.85:
            ops.append(["set", args(), []])
        else:
            ops.append(["refresh", []])
    return ops
