"""Keep the hand-kept tables of DESIGN.md section 10 complete (idempotent):  python3 -m harness.design_tables

* 10.1: one row per `fixed` entry of known_findings.json that the file does not mention yet (by commit hash);
* 10.4: one row per kept seeded change (seeded/<id>-<tag>/) that has no row yet: the one-line description comes from
  harness/seeds_round*.json ({"C01-c": [change, how-caught-or-""]}), the "caught by" column from the violation keys
  recorded in meta.json by harness/seed_verify.py, prefixed by the hand-written note when the change was first missed.
"""
import json
import re
from pathlib import Path

VERIF = Path(__file__).resolve().parent.parent


def main():
    p = VERIF / "DESIGN.md"
    s = p.read_text()
    kf = json.loads((VERIF / "known_findings.json").read_text())
    miss = [f for f in kf["fixed"] if ("| %s |" % f["commit"]) not in s]
    if miss:
        rows = ["| %s | %s | %s |" % (f["property"], f["commit"], f["what"].replace("|", "/")[:300]) for f in miss]
        tab = [m for m in re.finditer(r"^\| C\d\d(?:/C\d\d)? \| [0-9a-f]{7} \|.*$", s, flags=re.M)]
        j = tab[-1].end()
        s = s[:j] + "\n" + "\n".join(rows) + s[j:]
    desc = {}
    for f in sorted((VERIF / "harness").glob("seeds_round*.json")):
        desc.update(json.loads(f.read_text()))
    have = set(re.findall(r"^\| (C\d\d-[a-z]) \|", s, flags=re.M))
    rows = []
    for d in sorted((VERIF / "seeded").iterdir()):
        if not d.is_dir() or d.name in have or not (d / "meta.json").exists():
            continue
        meta = json.loads((d / "meta.json").read_text())
        keys = []
        for l in meta.get("ran", {}).get("check_violation_lines", []):
            m = re.search(r"\[([^\[\]]+)\]\s*$", l)
            if m and m.group(1) not in keys:
                keys.append(m.group(1))
        kk = ", ".join("`%s`" % x for x in keys[:3]) or ("NOT DETECTED" if not meta.get("detected") else "(see meta.json)")
        chg, note = desc.get(d.name, ["(see seeded/%s/notes.md)" % d.name, ""])
        rows.append("| %s | %s | %s |" % (d.name, chg, (note + ": " + kk) if note else kk))
    if rows:
        tab = [m for m in re.finditer(r"^\| C\d\d-[a-z] \|.*$", s, flags=re.M)]
        j = tab[-1].end()
        s = s[:j] + "\n" + "\n".join(rows) + s[j:]
    p.write_text(s)
    print("added %d fix rows, %d seeded rows" % (len(miss), len(rows)))


if __name__ == "__main__":
    main()
