"""c11_tie.py — the translator tie of C11, re-established on every run:

  harness/translate_C11.py  : CURRENT source of vector.py / validators.py -> build/C11/Gen_C11.v
  coqc Gen_C11.v
  coqc coq/gen_proofs/C11_GenProofs.v      FIXED script: gen_* = the model's definitions, all arguments
  coqc coq/gen_proofs/C11_GenProperties.v  Theorem C11_tie_* + Print Assumptions (counted as obligations)
  cross-test of the translator             the nested helpers of the source (get_indices x 4, collect_arrays,
                                           collect, _flatten_cells, fill, take, nested_list) are compiled on
                                           their own from the ast and CALLED on random inputs; gen_* is
                                           evaluated by vm_compute on the same inputs; results must agree

A rejected source / failing proof / cross-test mismatch is a broken proof obligation (reported as VIOLATION
with `no-failing-input-found` unless the oracle of the check finds an input)."""
from __future__ import annotations

import ast
import copy
import re
import time
import types

import numpy as np

from .common import COQ, COQ_FLAGS, SRC, Ctx, sh
from .translate_C11 import REL, TRUSTED, Reject, Source, nested_def, translate

GEN_DIR = COQ / "gen_proofs"
XPRE = """From QV.lib Require Import Prelude C11_Heap C11_TieLib.
From QV.model Require Import C11_Model.
From GenC11 Require Import Gen_C11.
From Coq Require Import QArith.
Local Close Scope Q_scope.
Open Scope Z_scope.
Definition enc (x : err + list Z) : list Z := match x with inl e => [-1; err_code e] | inr l => 0 :: l end.
Definition encn (x : err + list nat) : list Z := match x with inl e => [-1; err_code e] | inr l => 0 :: map Z.of_nat l end.
Fixpoint enct (t : tree) : list Z :=
  match t with Leaf None => [-1] | Leaf (Some i) => [Z.of_nat i] | Node l => (-2) :: flat_map enct l ++ [-3] end.
Definition encet (x : err + tree) : list Z := match x with inl e => [-9; err_code e] | inr t => enct t end.
Definition cl (k : nat) (r : list (list Z)) : cell := mkCell k (map (map inject_Z) r).
Definition ench (h : list cell) : list Z := flat_map (fun c => flat_map (fun r => map Qnum r) (rows c)) h.
"""
ERRC = {TypeError: 1, ValueError: 2, IndexError: 3, KeyError: 4}


def _compile_nested(fdef, glob):
    """compile a (nested) FunctionDef on its own, annotations dropped"""
    f = copy.deepcopy(fdef)
    for n in ast.walk(f):
        if isinstance(n, ast.FunctionDef):
            n.returns = None
            n.decorator_list = []
            for a in n.args.args + n.args.kwonlyargs + ([n.args.vararg] if n.args.vararg else []):
                a.annotation = None
    mod = ast.Module(body=[f], type_ignores=[])
    ast.fix_missing_locations(mod)
    g = dict(glob)
    exec(compile(mod, "<c11 tie cross-test>", "exec"), g)
    return g[fdef.name], g


def _cix(x):
    if x[0] == "i":
        return "(IInt (%d))" % x[1]
    if x[0] == "s":
        return "(ISlice %s %s %s)" % tuple("None" if e is None else "(Some (%d))" % e for e in x[1])
    return "(IList [%s])" % "; ".join("(%d)" % e for e in x[1])


def _rand_ix(r, n):
    y = r.random()
    if y < 0.3:
        return ("i", r.randint(-n - 2, n + 2))
    if y < 0.7:
        def e():
            return r.choice([None, r.randint(-n - 2, n + 2)])
        return ("s", [e(), e(), r.choice([None, 1, 2, -1, -2, 3, -3, 0])])
    return ("l", [r.randint(-n - 1, n + 1) if r.random() < 0.3 else r.randrange(n) for _ in range(r.choice([0, 1, 2, 3]))])


def _rand_tree(r, depth, ids):
    """nested lists with array ids / None leaves (ragged on purpose: the helpers do not need a shape)"""
    if depth == 0 or r.random() < 0.15:
        if r.random() < 0.25:
            return None
        ids.append(len(ids))
        return ids[-1]
    return [_rand_tree(r, depth - 1, ids) for _ in range(r.choice([0, 1, 2, 2, 3]))]


def _ctree(t):
    if isinstance(t, list):
        return "(Node [%s])" % "; ".join(_ctree(x) for x in t)
    return "(Leaf None)" if t is None else "(Leaf (Some %d%%nat))" % t


def _enct(t, ident):
    if isinstance(t, list):
        out = [-2]
        for x in t:
            out += _enct(x, ident)
        return out + [-3]
    return [-1] if t is None else [ident(t)]


def cross_test(ctx: Ctx, n_each: int):
    """-> list of mismatch descriptions"""
    import random
    r = random.Random("c11-tie-%s" % ctx.seed)       # own stream: the tie runs concurrently with the case generator
    S = Source(SRC)
    glob = {"np": np}
    exprs, wants, what = [], [], []
    # ---- get_indices x 4
    for qual, label in (("Vector.get_data", "get_data"), ("Vector.set_data", "set_data"),
                        ("Vector.__getitem__", "getitem"), ("Vector.__setitem__", "setitem")):
        f, _ = _compile_nested(nested_def(S.func(REL, qual), "get_indices"), glob)
        for _ in range(n_each):
            n = r.randint(1, 5)
            x = _rand_ix(r, n)
            variants = [x]
            if x[0] == "l" and label in ("get_data", "set_data"):
                variants = [x, ("a", x[1])]
            for v in variants:
                arg = v[1] if v[0] == "i" else slice(*v[1]) if v[0] == "s" else (
                    np.array(v[1], dtype=int) if (v[0] == "a" or label in ("getitem", "setitem")) else list(v[1]))
                try:
                    want = [0] + [int(z) for z in f(arg, n)]
                except (TypeError, ValueError, IndexError, KeyError) as e:
                    want = [-1, ERRC[type(e)]]
                exprs.append("enc (gen_gi_%s %d %s)" % (label, n, _cix(x)))
                wants.append(want)
                what.append("%s.get_indices(%r, %d)" % (qual, arg, n))
    # ---- traversal helpers
    fl, _ = _compile_nested(nested_def(S.func(REL, "Vector.flatten"), "collect_arrays"), glob)
    fc, _ = _compile_nested(nested_def(S.func(REL, "Vector.__setitem__"), "_flatten_cells"), glob)
    nl, _ = _compile_nested(S.func(REL, "nested_list"), glob)
    tk, _ = _compile_nested(nested_def(S.func(REL, "Vector.__getitem__"), "take"), glob)
    for _ in range(n_each):
        ids = []
        t = _rand_tree(r, r.choice([1, 2, 3]), ids)
        arrs = [np.full((r.choice([0, 1, 2, 3]), 2), 10 * i, dtype=float) + np.arange(2) for i in ids]

        def real(x):
            if isinstance(x, list):
                return [real(y) for y in x]
            return None if x is None else arrs[x]
        data = real(t)
        ident = {id(a): i for i, a in enumerate(arrs)}
        exprs.append("map Z.of_nat (gen_collect_arrays %s)" % _ctree(t))
        wants.append([ident[id(a)] for a in fl(data)])
        what.append("collect_arrays(%r)" % (t,))
        try:
            want = [0] + [ident[id(a)] for a in fc(data)]
        except TypeError:
            want = [-1, 1]
        exprs.append("encn (gen_flatten_cells %s)" % _ctree(t))
        wants.append(want)
        what.append("_flatten_cells(%r)" % (t,))
        # _FieldView.flatten.collect and set_flattened.fill with a field index
        k = r.randrange(2)
        selfns = types.SimpleNamespace(field_index=k)
        cf, _ = _compile_nested(nested_def(S.func(REL, "_FieldView.flatten"), "collect"), dict(glob, self=selfns))
        cols = cf(data)
        exprs.append("flat_map (fun p => [Z.of_nat (fst p); snd p]) (gen_field_collect %d %s)" % (k, _ctree(t)))
        want = []
        for c in cols:
            base = c.base if c.base is not None else c
            same = base.ndim == 2 and c.shape == (base.shape[0],) and np.array_equal(c, base[:, k])
            want += [ident.get(id(base), -8), k if same else -7]
        wants.append(want)
        what.append("collect(%r) field %d" % (t, k))
        ff, _ = _compile_nested(nested_def(S.func(REL, "_FieldView.set_flattened"), "fill"), dict(glob, self=selfns))
        total = sum(a.shape[0] for a in fl(data))
        vals = [r.randint(100, 999) for _ in range(total)]
        c0 = 0
        heap = "[%s]" % "; ".join("cl 2 [%s]" % "; ".join("[%d; %d]" % (int(row[0]), int(row[1])) for row in a) for a in arrs)
        exprs.append("let r := gen_fill %d %s (map inject_Z [%s]) %d %s in snd r :: ench (fst r)" % (
            k, _ctree(t), "; ".join(str(v) for v in vals), c0, heap))
        cur = ff(data, np.array(vals, dtype=float), c0)
        wants.append([int(cur)] + [int(z) for a in arrs for z in a.ravel().tolist()])
        what.append("fill(%r, %r, 0) field %d" % (t, vals, k))
    for _ in range(n_each):
        shape = [r.choice([1, 2, 3]) for _ in range(r.choice([1, 2, 3]))]
        cnt = [0]

        def build(sh_):
            if not sh_:
                cnt[0] += 1
                return None if r.random() < 0.2 else cnt[0]
            return [build(sh_[1:]) for _ in range(sh_[0])]
        t = build(shape)
        dims = [[r.randint(-n - 1, n) if r.random() < 0.25 else r.randrange(n) for _ in range(r.choice([0, 1, 2, 2]))]
                for n in shape]
        try:
            want = _enct(tk(t, [np.array(d, dtype=int) for d in dims]), lambda x: x)
        except (TypeError, ValueError, IndexError, KeyError) as e:
            want = [-9, ERRC[type(e)]]
        exprs.append("encet (gen_take [%s] %s)" % ("; ".join("[%s]" % "; ".join("(%d)" % i for i in d) for d in dims), _ctree(t)))
        wants.append(want)
        what.append("take(%r, %r)" % (t, dims))
        exprs.append("enct (gen_nested_list [%s] None)" % "; ".join(str(n) for n in shape))
        wants.append(_enct(nl(tuple(shape), None), lambda x: x))
        what.append("nested_list(%r)" % (shape,))
    got = ctx.coq_eval("tie_xtest", XPRE, exprs, shard=max(60, len(exprs) // 4 + 1),
                       extra_flags=["-Q", str(ctx.dir), "GenC11"])
    bad = []
    for g, w, d in zip(got, wants, what):
        if list(g) != list(w):
            bad.append("%s: source gives %s, translation gives %s" % (d, w, list(g)))
    ctx.cov["tie_cross_test"] = {"inputs": len(exprs), "mismatches": len(bad)}
    return bad


def run_tie(ctx: Ctx) -> bool:
    t0 = time.time()
    rec = {"status": "ok"}
    ctx.cov["translator_tie"] = rec
    for s in TRUSTED:
        if s not in ctx.cov["trusted_base"]:
            ctx.cov["trusted_base"].append(s)
    saved_cmd = ctx.cov.get("checker_cmd", "")
    saved_problems = list(getattr(ctx, "_proof_problems", []))
    problems = []
    props = GEN_DIR / "C11_GenProperties.v"

    def not_checked(why):
        ths = re.findall(r"(?m)^\s*Theorem\s+(\w+)", props.read_text())
        ctx.cov["obligations"] += len(ths)
        for t in ths:
            ctx.cov["theorems"][t] = "NOT CHECKED (%s)" % why

    text = None
    try:
        text, info = translate(SRC)
        rec.update(info)
    except Reject as e:
        problems.append("translator tie: the source of vector.py / validators.py is outside the translator's grammar or "
                        "no longer has the structure the model assumes (fail closed): %s" % e)
        not_checked("translator rejected the source")
    except (SyntaxError, OSError) as e:
        problems.append("translator tie: source unreadable: %r" % e)
        not_checked("source unreadable")
    if text is not None:
        gen = ctx.dir / "Gen_C11.v"
        for stale in (gen.with_suffix(".vo"), ctx.dir / "C11_GenProofs.vo", ctx.dir / "C11_GenProperties.vo"):
            if stale.exists():
                stale.unlink()
        gen.write_text(text)
        rec["generated_file"] = str(gen)
        flags = COQ_FLAGS + ["-Q", str(ctx.dir), "GenC11"]
        bad = ctx.static_scan([gen, GEN_DIR / "C11_GenProofs.v", props, COQ / "lib" / "C11_TieLib.v"])
        if bad:
            problems.append("forbidden declarations: %s" % bad[:5])
        rc, out = ctx.coq_make(["lib/C11_TieLib.vo"])
        if rc != 0:
            problems.append("translator tie: library build failed:\n" + "\n".join(out.strip().splitlines()[-10:]))
        rc, out = sh(["timeout", "300", "coqc"] + flags + [str(gen)], cwd=ctx.dir, timeout=330)
        if rc != 0:
            problems.append("translator tie: generated file Gen_C11.v does not compile:\n" + "\n".join(out.strip().splitlines()[-12:]))
            not_checked("generated file does not compile")
        else:
            script = GEN_DIR / "C11_GenProofs.v"
            rc, out = sh(["timeout", "300", "coqc"] + flags + ["-o", str(ctx.dir / "C11_GenProofs.vo"), str(script)],
                         cwd=ctx.dir, timeout=330)
            if rc != 0:
                problems.append("translator tie: the logic translated from the current source no longer equals the model's "
                                "definitions: fixed proof script C11_GenProofs.v fails:\n" + "\n".join(out.strip().splitlines()[-14:]))
                not_checked("fixed proof script fails")
            elif not ctx.require_proofs(props_name="C11_GenProperties", props_path=props,
                                        extra_flags=["-Q", str(ctx.dir), "GenC11"], make_targets=[]):
                problems += ["translator tie: " + p for p in ctx._proof_problems]
            try:
                bad = cross_test(ctx, ctx.budget(30, 200))
                if bad:
                    problems.append("translator cross-test: the translation and the source disagree on %d input(s): %s"
                                    % (len(bad), "; ".join(bad[:3])))
            except Exception as e:  # noqa: the helpers can no longer be compiled / called on their own
                problems.append("translator cross-test could not run: %r" % (e,))
    ctx._proof_problems = saved_problems
    ctx.cov["checker_cmd"] = (saved_cmd + "  ;  python -m harness.translate_C11 > build/C11/Gen_C11.v && coqc ... Gen_C11.v && "
                              "coqc ... coq/gen_proofs/C11_GenProofs.v && coqc ... coq/gen_proofs/C11_GenProperties.v")
    rec["wall_s"] = round(time.time() - t0, 2)
    if problems:
        rec["status"] = "broken"
        rec["problems"] = [p[:1500] for p in problems]
        msg = "; ".join(problems)
        ctx.broken_obligation = (ctx.broken_obligation + "; " + msg) if ctx.broken_obligation else msg
        ctx.log("PROOF OBLIGATION BROKEN (translator tie):", msg[:2500])
        return False
    ctx.log("translator tie: %d units of vector.py / validators.py tied by theorem to the model, cross-test %d inputs (%.1fs)"
            % (rec.get("units", 0), ctx.cov.get("tie_cross_test", {}).get("inputs", 0), rec["wall_s"]))
    return True
