"""Verify a seeded property-breaking change and run our check against it.

usage: python3 harness/seed_verify.py C09 a [--tier quick] [--keep]
reads  /tmp/seed_<id>_<tag>.out/{patch.diff,demo.py,notes.md}
writes /verif/seeded/<id>-<tag>/{patch.diff,demo.py,notes.md,meta.json}   (only when confirmed)
"""
import json
import os
import re
import shutil
import subprocess
import sys
import time
from pathlib import Path


def sh(cmd, cwd=None, env=None, timeout=3600):
    p = subprocess.run(cmd, cwd=cwd, env=env, shell=isinstance(cmd, str), timeout=timeout,
                       stdout=subprocess.PIPE, stderr=subprocess.STDOUT, text=True)
    return p.returncode, p.stdout


def run_demo(wt, demo):
    env = dict(os.environ, PYTHONPATH=str(wt / "src"), PYTHONHASHSEED="0", MPLBACKEND="Agg")
    txt = demo.read_text()
    if re.search(r"^def test_", txt, re.M) and "__main__" not in txt:
        cmd = ["/venv/bin/python", "-m", "pytest", "-q", "-p", "no:cacheprovider", "-x", str(demo)]
    else:
        cmd = ["/venv/bin/python", "-W", "ignore", str(demo)]
    rc, out = sh(cmd, cwd=wt, env=env, timeout=1800)
    return rc, out[-1500:]


def main():
    pid, tag = sys.argv[1], sys.argv[2]
    tier = "quick"
    if "--tier" in sys.argv:
        tier = sys.argv[sys.argv.index("--tier") + 1]
    skip_tests = "--skip-tests" in sys.argv
    src = Path("/tmp/seed_%s_%s.out" % (pid, tag))
    if not src.exists():
        src = Path("/verif/seeded/%s-%s" % (pid, tag))
    patch, demo = src / "patch.diff", src / "demo.py"
    assert patch.exists() and demo.exists(), "missing patch.diff / demo.py in %s" % src
    wt = Path("/tmp/sv_%s_%s" % (pid, tag))
    out = Path("/tmp/sv_%s_%s.out" % (pid, tag))
    sh("git -C /repo worktree remove --force %s" % wt)
    shutil.rmtree(wt, ignore_errors=True)
    shutil.rmtree(out, ignore_errors=True)
    rc, o = sh("git -C /repo worktree add --detach %s HEAD -q" % wt)
    assert rc == 0, o
    meta = {"property": pid, "tag": tag, "repo_head": sh("git -C /repo rev-parse HEAD")[1].strip(), "ran": {}}
    try:
        rc0, o0 = run_demo(wt, demo)
        meta["ran"]["demo_without_change_rc"] = rc0
        rc, o = sh("git apply %s" % patch, cwd=wt)
        if rc != 0:
            print("PATCH DOES NOT APPLY:\n", o)
            meta["ran"]["patch_applies"] = False
            print(json.dumps(meta, indent=1))
            return 2
        rc1, o1 = run_demo(wt, demo)
        meta["ran"]["demo_with_change_rc"] = rc1
        print("demo without change rc=%d, with change rc=%d" % (rc0, rc1))
        if rc0 != 0:
            print("  demo output without change:\n", o0)
        if rc1 == 0:
            print("  demo output with change:\n", o1)
        if not skip_tests:
            env = dict(os.environ, PYTHONPATH=str(wt / "src"), MPLBACKEND="Agg")
            rc, o = sh(["/venv/bin/python", "-m", "pytest", "-q", "-p", "no:cacheprovider", "--timeout=900",
                        "--continue-on-collection-errors", "tests"], cwd=wt, env=env, timeout=3000)
            tail = o.strip().splitlines()[-1] if o.strip() else ""
            meta["ran"]["test_suite_tail"] = tail
            m = re.search(r"(\d+) passed", tail)
            failed = re.search(r"(\d+) failed", tail)
            meta["ran"]["tests_passed"] = int(m.group(1)) if m else 0
            meta["ran"]["tests_failed"] = int(failed.group(1)) if failed else 0
            print("test suite:", tail)
        env = dict(os.environ, QUANTEM_REPO=str(wt), VERIF_OUT=str(out))
        t0 = time.time()
        rc, o = sh(["/verif/check", pid, "--tier", tier], env=env, timeout=7200)
        vio = [l for l in o.splitlines() if l.startswith("VIOLATION") or l.strip().startswith("what:")]
        meta["ran"]["check_cmd"] = "QUANTEM_REPO=<worktree with patch> ./check %s --tier %s" % (pid, tier)
        meta["ran"]["check_rc"] = rc
        meta["ran"]["check_wall_s"] = round(time.time() - t0, 1)
        meta["ran"]["check_violation_lines"] = vio[:8]
        meta["detected"] = rc == 1 and any(l.startswith("VIOLATION") for l in vio)
        print("check rc=%d detected=%s (%.0fs)" % (rc, meta["detected"], time.time() - t0))
        for l in vio[:8]:
            print("   ", l[:400])
        if rc not in (0, 1):
            print(o[-3000:])
        confirmed = rc0 == 0 and rc1 != 0 and (skip_tests or (meta["ran"].get("tests_failed", 1) == 0 and
                                                              meta["ran"].get("tests_passed", 0) >= 176))
        meta["confirmed_breaks_property_and_passes_tests"] = confirmed
        if confirmed:
            dst = Path("/verif/seeded/%s-%s" % (pid, tag))
            dst.mkdir(parents=True, exist_ok=True)
            for f in ("patch.diff", "demo.py", "notes.md"):
                if (src / f).exists() and (src / f).resolve() != (dst / f).resolve():
                    shutil.copy(src / f, dst / f)
            old = {}
            if (dst / "meta.json").exists():
                old = json.loads((dst / "meta.json").read_text())
            # a re-verification with --skip-tests keeps the test-suite facts recorded when the change was confirmed
            keep = {k: v for k, v in old.get("ran", {}).items() if k.startswith("test") and k not in meta["ran"]}
            old.update(meta)
            old["ran"].update(keep)
            (dst / "meta.json").write_text(json.dumps(old, indent=1) + "\n")
            print("saved to", dst)
        else:
            print("NOT CONFIRMED:", json.dumps(meta["ran"], indent=1))
    finally:
        if "--keep" not in sys.argv:
            sh("git -C /repo worktree remove --force %s" % wt)
            shutil.rmtree(wt, ignore_errors=True)
            shutil.rmtree(out, ignore_errors=True)
    return 0


if __name__ == "__main__":
    sys.exit(main())
