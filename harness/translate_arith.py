"""translate_arith.py — Python `ast` -> Gallina translator for the small pure-integer helpers that
several hand-written Coq models transcribe by hand (DESIGN 3.2).

On every run the CURRENT source is read and `Gen_Arith.v` is emitted: one `Definition` (plus one
auxiliary `Fixpoint` per generator loop) per target, over `Z` (`list Z`, `option Z`, pairs).  The
FIXED proof scripts coq/gen_proofs/Arith_*_GenProofs.v are then compiled against it: they prove
`gen_<name> args = <hand-written model function> args` for ALL arguments of the stated domain.

TARGETS (name -> where it is read)
  group "utils"    core/utils/utils.py
    subdivide_batches   the whole function
    generate_batches    the whole function (generator; calls subdivide_batches)
  group "dataset"  core/datastructures/dataset.py
    shift_center_index  nested def `_shift_center_index` inside Dataset.fourier_resample
    pad_widths          element of the list comprehension `[... for i in range(self.ndim)]` in Dataset.pad
    crop_slice          body of the per-axis loop (`for axis, _ in enumerate(self.shape)`) of Dataset.crop
    bin_cut             body of the 1st `for a in range(self.ndim)` loop of Dataset.bin
    bin_blocks          body of the 2nd `for a in range(self.ndim)` loop of Dataset.bin
    bin_meta            body of the `for ax, fac in <dict>.items()` loop of Dataset.bin (rational arithmetic)
    resample_croppad    body of the `for a in range(self.ndim)` loop of Dataset.fourier_resample

ACCEPTED GRAMMAR (anything else raises TranslateError: fail closed, the check reports a broken tie)
  functions   parameters annotated `int` (-> Z), `Optional[int]` / `int | None` (-> option Z), `bool`;
              defaults are ignored (the Gallina function takes every parameter explicitly)
  statements  `x = e`, `x op= e`, `a, b = <per-axis tuple input>`, `if/elif/else`, `return e`,
              `raise <RuntimeError|ValueError|TypeError|ZeroDivisionError|IndexError>(...)`, `pass`, docstrings;
              in a generator: ONE trailing `for v in <list>:` whose body is assignments and `yield e`
              (-> structural `Fixpoint` on the list, loop-carried variables as accumulators);
              in a per-axis fragment: `L.append(e)`, `L.extend([e, ...])`, `A[i] = e`
  conditions  comparisons `< <= > >= == !=`, `x is None` / `x is not None` on an Optional parameter
              (-> `match`, flow-typed: inside the branch x is a Z), `and` / `or` / `not` (short-circuit,
              as nested ifs), `i in D` for the loop index of a fragment (-> boolean parameter)
  expressions integer literals, names, `+ - *`, `//` (-> Z.div: floor, like Python for every sign),
              `%` (-> Z.modulo: sign of the divisor, like Python), unary `-`, `max/min/abs`, `int(e)` of an
              integer, `a if c else b`, tuples, list displays, `[e] * k` (-> repeat e (Z.to_nat k): empty for
              k <= 0 like Python), list `+`, `slice(a, b)` / `slice(None)` (-> option Z * option Z),
              `int(np.floor(E / c))`, `int(np.ceil(E / c))`, `math.floor/ceil(E / c)` with E an integer
              expression and c a literal power of two (-> E / c and -((-E) / c); exact in binary64 for
              |E| < 2^53: stated in the trusted base), calls of other translated helpers;
              in `bin_meta` only: float literals (exact rationals) and `+ - *` on Q
  exceptions  a function that can raise returns `gerr + T`; `//` and `%` by a non-literal divisor are guarded
              by `if d =? 0 then inl GZeroDivisionError` in evaluation order (a divisor already tested on
              the path is not tested again)

PER-AXIS FRAGMENTS.  The N-D methods of Dataset do their index arithmetic per axis inside a loop whose
other statements are NumPy plumbing.  A fragment is the loop BODY read as a function of one axis:
`self.<attr>[i]`, `<name>[i]` (i the loop index) and `i in <name>` become parameters, variables carried
from one iteration to the next become a parameter and a result, and the result is the tuple of what the
body appends to each list (a single value when every path appends exactly one) / stores into `A[i]`.
Parameter and result ORDER is canonical and independent of local names and statement order:
  parameters: `self.<attr>[i]` (by attribute name), then per outer name in order of its definition in the
              enclosing function: `i in name`, `name[i]` (tuple inputs expand to name_0, name_1), then dict
              values of an `.items()` loop, then loop-carried scalars (by definition order)
  results:    appended lists (by definition order of the list), stored arrays (same), carried scalars
"""
from __future__ import annotations

import ast
import hashlib
import re
from fractions import Fraction
from pathlib import Path
from types import SimpleNamespace


class TranslateError(Exception):
    pass


def _fail(node, msg):
    ln = getattr(node, "lineno", "?")
    try:
        src = ast.unparse(node)
    except Exception:  # noqa
        src = repr(node)
    raise TranslateError("line %s: %s: `%s`" % (ln, msg, src[:140]))


ERRS = ("RuntimeError", "ValueError", "TypeError", "ZeroDivisionError", "IndexError")

UTILS = "core/utils/utils.py"
DATASET = "core/datastructures/dataset.py"

# name -> (group, file, kind, locator)
TARGETS = {
    "subdivide_batches": ("utils", UTILS, "func", "subdivide_batches"),
    "generate_batches": ("utils", UTILS, "func", "generate_batches"),
    "shift_center_index": ("dataset", DATASET, "func", "Dataset.fourier_resample._shift_center_index"),
    "pad_widths": ("dataset", DATASET, "comp", "Dataset.pad"),
    "crop_slice": ("dataset", DATASET, "axisloop", ("Dataset.crop", 0)),
    "bin_cut": ("dataset", DATASET, "axisloop", ("Dataset.bin", 0)),
    "bin_blocks": ("dataset", DATASET, "axisloop", ("Dataset.bin", 1)),
    "bin_meta": ("dataset", DATASET, "itemsloop", ("Dataset.bin", 0)),
    "resample_croppad": ("dataset", DATASET, "axisloop", ("Dataset.fourier_resample", 0)),
}
GROUPS = {"utils": ["subdivide_batches", "generate_batches"],
          "dataset": ["shift_center_index", "pad_widths", "crop_slice", "bin_cut", "bin_blocks", "bin_meta",
                      "resample_croppad"]}
# python function name -> target (for calls between translated helpers)
PYNAME = {"subdivide_batches": "subdivide_batches", "generate_batches": "generate_batches",
          "_shift_center_index": "shift_center_index"}


def cname(py: str) -> str:
    """every Python local becomes v_<name>: no clash with Coq keywords (`end`, `mod`, `in`) or with the
    stdlib names used in the emitted text"""
    s = py.lstrip("_") or "u"
    if not re.match(r"^[A-Za-z][A-Za-z0-9_]*$", s):
        raise TranslateError("unsupported identifier %r" % py)
    return "v_" + s


# ------------------------------------------------------------------------------------------
# types:  "Z" "Q" "bool" "optZ" "none" "Zf" (integral float from np.floor/np.ceil) "slice"
#         ("list", T)  ("tuple", (T, ...))   ("optparam",) is an env-only marker


def coq_type(t) -> str:
    if t == "Z":
        return "Z"
    if t == "Q":
        return "Q"
    if t == "bool":
        return "bool"
    if t in ("optZ", "none"):
        return "option Z"
    if t == "slice":
        return "(option Z * option Z)"
    if isinstance(t, tuple) and t[0] == "list":
        return "list %s" % coq_type(t[1])
    if isinstance(t, tuple) and t[0] == "tuple":
        return "(" + " * ".join(coq_type(x) for x in t[1]) + ")"
    raise TranslateError("no Coq type for %r" % (t,))


class Val:
    __slots__ = ("ty", "tx", "guards")

    def __init__(self, ty, tx, guards=()):
        self.ty, self.tx, self.guards = ty, tx, tuple(guards)


def zlit(n: int) -> str:
    return str(n) if n >= 0 else "(%d)" % n


def qlit(fr: Fraction) -> str:
    return "(Qmake %s %d%%positive)" % (zlit(fr.numerator), fr.denominator)


def _mentions(text: str, name: str) -> bool:
    return re.search(r"(?<![\w'])%s(?![\w'])" % re.escape(name), text) is not None


class Frag:
    """shared (across branches) description of a per-axis fragment"""

    def __init__(self, loopvars, defpos, assigned_in_body, sub_type="Z", dict_value=None):
        self.loopvars = set(loopvars)
        self.defpos = defpos                  # outer name -> position of its definition in the function
        self.assigned = assigned_in_body      # names assigned in the body
        self.sub_type = sub_type
        self.params = {}                      # key -> (sortkey, coqname, type, pyref)
        self.out_lists = []                   # names of appended lists, discovered
        self.store_names = []                 # names of arrays stored into
        self.dict_value = dict_value          # (python var, dict name) of an .items() loop
        self.tr = None

    def param(self, key, sortkey, coq, ty, pyref):
        if key not in self.params:
            self.params[key] = (sortkey, self.tr.fresh(coq), ty, pyref)
        return self.params[key]

    def pos(self, node, name):
        if name not in self.defpos:
            _fail(node, "name %r is not defined in the enclosing function before the loop" % name)
        return self.defpos[name]


class Env:
    def __init__(self, tr, frag=None):
        self.tr = tr
        self.vars = {}            # python name -> Val | ("optparam", coqname)
        self.nonzero = set()      # divisor texts known non-zero on this path
        self.frag = frag
        self.outs = {}            # fragment: list name -> [Val]
        self.stores = {}          # fragment: array name -> Val
        self.in_loop = None       # generator loop: (fix name, tail args) while translating the body

    def copy(self):
        e = Env(self.tr, self.frag)
        e.vars = dict(self.vars)
        e.nonzero = set(self.nonzero)
        e.outs = {k: list(v) for k, v in self.outs.items()}
        e.stores = dict(self.stores)
        e.in_loop = self.in_loop
        return e

    def bind(self, py, val):
        self.vars[py] = val


class Translator:
    """one instance per target; builds a decision tree and prints it"""

    def __init__(self, name, callee_info):
        self.name = name
        self.callee = callee_info       # target -> dict(fails=bool, params=[(py, kind, default)], ret=type)
        self.nodes = 0
        self.aux = []                   # auxiliary Fixpoint texts
        self.aux_names = []
        self.used = {}                  # Coq names already bound (single assignment: a re-assigned
                                        # Python name gets a fresh Coq name, so a text built earlier
                                        # never changes meaning under a later `let`)

    def fresh(self, base: str) -> str:
        if base not in self.used:
            self.used[base] = 0
            return base
        self.used[base] += 1
        return self.fresh("%s_%d" % (base, self.used[base]))

    # ---------------------------------------------------------------- tree constructors
    def node(self, *t):
        self.nodes += 1
        if self.nodes > 4000:
            raise TranslateError("%s: control flow too large for this translator" % self.name)
        return t

    def guarded(self, val: Val, env: Env, k):
        """wrap `k()` in the zero-divisor guards of val, in evaluation order"""
        todo = [g for g in val.guards if g not in env.nonzero]
        seen = []
        for g in todo:
            if g not in seen:
                seen.append(g)
        for g in seen:
            env.nonzero.add(g)
        body = k()
        for g in reversed(seen):
            body = self.node("guard", g, body)
        return body

    # ---------------------------------------------------------------- expressions
    def expr(self, n, env: Env) -> Val:
        if isinstance(n, ast.Constant):
            v = n.value
            if v is None:
                return Val("none", "None")
            if isinstance(v, bool):
                return Val("bool", "true" if v else "false")
            if isinstance(v, int):
                return Val("Z", zlit(v))
            if isinstance(v, float):
                if not (env.frag and env.frag.sub_type == "Q"):
                    _fail(n, "float literal outside a rational fragment")
                return Val("Q", qlit(Fraction(*v.as_integer_ratio())))
            _fail(n, "unsupported constant")
        if isinstance(n, ast.Name):
            return self.lookup(n, env)
        if isinstance(n, ast.UnaryOp):
            if isinstance(n.op, ast.USub):
                a = self.expr(n.operand, env)
                if a.ty == "Z":
                    return Val("Z", "(- %s)" % a.tx, a.guards)
                if a.ty == "Q":
                    return Val("Q", "(Qopp %s)" % a.tx, a.guards)
                _fail(n, "unary minus on a non-number")
            if isinstance(n.op, ast.UAdd):
                return self.expr(n.operand, env)
            if isinstance(n.op, ast.Not):
                a = self.expr(n.operand, env)
                if a.ty != "bool":
                    _fail(n, "`not` on a non-boolean")
                return Val("bool", "(negb %s)" % a.tx, a.guards)
            _fail(n, "unsupported unary operator")
        if isinstance(n, ast.BinOp):
            return self.binop(n, env)
        if isinstance(n, ast.Compare):
            return self.compare(n, env)
        if isinstance(n, ast.BoolOp):
            vals = [self.expr(v, env) for v in n.values]
            if any(v.ty != "bool" for v in vals):
                _fail(n, "and/or on non-booleans")
            if any(v.guards for v in vals[1:]):
                _fail(n, "division inside a short-circuit operand")
            op = "&&" if isinstance(n.op, ast.And) else "||"
            tx = vals[0].tx
            for v in vals[1:]:
                tx = "(%s %s %s)" % (tx, op, v.tx)
            return Val("bool", tx, vals[0].guards)
        if isinstance(n, ast.IfExp):
            c = self.expr(n.test, env)
            if c.ty != "bool":
                _fail(n.test, "condition is not a boolean")
            a, b = self.expr(n.body, env), self.expr(n.orelse, env)
            if a.guards or b.guards:
                _fail(n, "division by a non-literal inside a conditional expression")
            ty, at, bt = self.unify(n, a, b)
            return Val(ty, "(if %s then %s else %s)" % (c.tx, at, bt), c.guards)
        if isinstance(n, ast.Tuple):
            vals = [self.expr(e, env) for e in n.elts]
            if len(vals) < 2:
                _fail(n, "tuple of fewer than two elements")
            for v in vals:
                if v.ty in ("none", "Zf"):
                    _fail(n, "unsupported tuple element")
            return Val(("tuple", tuple(v.ty for v in vals)), "(" + ", ".join(v.tx for v in vals) + ")",
                       sum((v.guards for v in vals), ()))
        if isinstance(n, ast.List):
            vals = [self.expr(e, env) for e in n.elts]
            if not vals:
                _fail(n, "empty list display (element type unknown)")
            if any(v.ty != vals[0].ty for v in vals):
                _fail(n, "heterogeneous list")
            return Val(("list", vals[0].ty), "[" + "; ".join(v.tx for v in vals) + "]",
                       sum((v.guards for v in vals), ()))
        if isinstance(n, ast.Call):
            return self.call(n, env)
        if isinstance(n, ast.Subscript):
            return self.subscript(n, env)
        _fail(n, "unsupported expression")

    def unify(self, n, a: Val, b: Val):
        if a.ty == b.ty and a.ty not in ("none", "Zf"):
            return a.ty, a.tx, b.tx
        opt = {"Z": lambda v: "(Some %s)" % v.tx, "optZ": lambda v: v.tx, "none": lambda v: "None"}
        if a.ty in opt and b.ty in opt and (a.ty, b.ty) != ("none", "none"):
            return "optZ", opt[a.ty](a), opt[b.ty](b)
        _fail(n, "branches of different types %r / %r" % (a.ty, b.ty))

    def lookup(self, n, env: Env) -> Val:
        py = n.id
        v = env.vars.get(py)
        if v is None:
            fr = env.frag
            if fr is not None and fr.dict_value and py == fr.dict_value[0]:
                d = fr.dict_value[1]
                _, coq, ty, _ = fr.param(("value", d), (1, fr.pos(n, d), 2), cname(d) + "_value", "Z", ("value", d))
                return Val(ty, coq)
            if fr is not None and py in fr.assigned and py in fr.defpos:
                _, coq, ty, _ = fr.param(("carried", py), (2, fr.defpos[py], 0), cname(py), "Z", ("carried", py))
                return Val(ty, coq)
            _fail(n, "unknown name %r" % py)
        if isinstance(v, tuple):
            if v[0] == "optparam":
                return Val("optZ", v[1])
        return v

    def binop(self, n, env):
        a, b = self.expr(n.left, env), self.expr(n.right, env)
        g = a.guards + b.guards
        op = n.op
        # lists
        if isinstance(a.ty, tuple) and a.ty[0] == "list":
            if isinstance(op, ast.Add) and b.ty == a.ty:
                return Val(a.ty, "(%s ++ %s)" % (a.tx, b.tx), g)
            if isinstance(op, ast.Mult) and b.ty == "Z":
                if not (isinstance(n.left, ast.List) and len(n.left.elts) == 1):
                    _fail(n, "list repetition is accepted only as `[e] * k`")
                x = self.expr(n.left.elts[0], env)
                return Val(a.ty, "(repeat %s (Z.to_nat %s))" % (x.tx, b.tx), g)
            _fail(n, "unsupported list operation")
        if a.ty == "Z" and b.ty == "Z":
            if isinstance(op, ast.Add):
                return Val("Z", "(%s + %s)" % (a.tx, b.tx), g)
            if isinstance(op, ast.Sub):
                return Val("Z", "(%s - %s)" % (a.tx, b.tx), g)
            if isinstance(op, ast.Mult):
                return Val("Z", "(%s * %s)" % (a.tx, b.tx), g)
            if isinstance(op, (ast.FloorDiv, ast.Mod)):
                lit = isinstance(n.right, ast.Constant) and isinstance(n.right.value, int) and n.right.value != 0
                g2 = g if lit else g + (b.tx,)
                sym = "/" if isinstance(op, ast.FloorDiv) else "mod"
                return Val("Z", "(%s %s %s)" % (a.tx, sym, b.tx), g2)
            if isinstance(op, ast.Pow):
                if isinstance(n.right, ast.Constant) and isinstance(n.right.value, int) and n.right.value >= 0:
                    return Val("Z", "(%s ^ %s)" % (a.tx, b.tx), g)
                _fail(n, "`**` with a non-literal or negative exponent")
            _fail(n, "unsupported integer operator (true division `/` is accepted only under floor/ceil)")
        if {a.ty, b.ty} <= {"Z", "Q"}:
            qa = a.tx if a.ty == "Q" else "(inject_Z %s)" % a.tx
            qb = b.tx if b.ty == "Q" else "(inject_Z %s)" % b.tx
            f = {ast.Add: "Qplus", ast.Sub: "Qminus", ast.Mult: "Qmult"}.get(type(op))
            if f is None:
                _fail(n, "unsupported rational operator")
            return Val("Q", "(%s %s %s)" % (f, qa, qb), g)
        _fail(n, "operands of unsupported types %r, %r" % (a.ty, b.ty))

    def compare(self, n, env):
        if len(n.ops) != 1:
            _fail(n, "chained comparison")
        a, b = self.expr(n.left, env), self.expr(n.comparators[0], env)
        op = n.ops[0]
        g = a.guards + b.guards
        if a.ty == "Z" and b.ty == "Z":
            tx = {ast.Lt: "(%s <? %s)", ast.LtE: "(%s <=? %s)", ast.Eq: "(%s =? %s)",
                  ast.NotEq: "(negb (%s =? %s))"}.get(type(op))
            if tx:
                return Val("bool", tx % (a.tx, b.tx), g)
            if isinstance(op, ast.Gt):
                return Val("bool", "(%s <? %s)" % (b.tx, a.tx), g)
            if isinstance(op, ast.GtE):
                return Val("bool", "(%s <=? %s)" % (b.tx, a.tx), g)
        if a.ty == "bool" and b.ty == "bool" and isinstance(op, (ast.Eq, ast.NotEq)):
            tx = "(Bool.eqb %s %s)" % (a.tx, b.tx)
            return Val("bool", tx if isinstance(op, ast.Eq) else "(negb %s)" % tx, g)
        _fail(n, "unsupported comparison (%r vs %r)" % (a.ty, b.ty))

    @staticmethod
    def _dotted(f):
        if isinstance(f, ast.Name):
            return f.id
        if isinstance(f, ast.Attribute) and isinstance(f.value, ast.Name):
            return f.value.id + "." + f.attr
        return None

    def floor_ceil(self, n, env, which, integral):
        """floor/ceil of `E / c`, E integer, c literal power of two"""
        if len(n.args) != 1 or n.keywords:
            _fail(n, "floor/ceil takes one argument")
        a = n.args[0]
        if not (isinstance(a, ast.BinOp) and isinstance(a.op, ast.Div)):
            _fail(n, "floor/ceil accepted only on `E / c`")
        c = a.right
        cv = c.value if isinstance(c, ast.Constant) and isinstance(c.value, (int, float)) and not isinstance(c.value, bool) else None
        if cv is None or cv != int(cv) or int(cv) < 1 or (int(cv) & (int(cv) - 1)) != 0:
            _fail(n, "floor/ceil divisor must be a literal power of two (exact binary64 quotient)")
        e = self.expr(a.left, env)
        if e.ty != "Z":
            _fail(n, "floor/ceil numerator must be an integer expression")
        d = zlit(int(cv))
        tx = "(%s / %s)" % (e.tx, d) if which == "floor" else "(- ((- %s) / %s))" % (e.tx, d)
        return Val("Z" if integral else "Zf", tx, e.guards)

    def call(self, n, env):
        fn = self._dotted(n.func)
        if fn in ("np.floor", "numpy.floor"):
            return self.floor_ceil(n, env, "floor", False)
        if fn in ("np.ceil", "numpy.ceil"):
            return self.floor_ceil(n, env, "ceil", False)
        if fn in ("math.floor", "floor"):
            return self.floor_ceil(n, env, "floor", True)
        if fn in ("math.ceil", "ceil"):
            return self.floor_ceil(n, env, "ceil", True)
        if fn == "int":
            if len(n.args) != 1 or n.keywords:
                _fail(n, "int() takes one argument")
            a = self.expr(n.args[0], env)
            if a.ty in ("Z", "Zf"):
                return Val("Z", a.tx, a.guards)
            _fail(n, "int() of a non-integer")
        if fn in ("max", "min"):
            if len(n.args) != 2 or n.keywords:
                _fail(n, "max/min accepted with exactly two arguments")
            a, b = self.expr(n.args[0], env), self.expr(n.args[1], env)
            if a.ty != "Z" or b.ty != "Z":
                _fail(n, "max/min of non-integers")
            return Val("Z", "(Z.%s %s %s)" % (fn, a.tx, b.tx), a.guards + b.guards)
        if fn == "abs":
            if len(n.args) != 1:
                _fail(n, "abs takes one argument")
            a = self.expr(n.args[0], env)
            if a.ty != "Z":
                _fail(n, "abs of a non-integer")
            return Val("Z", "(Z.abs %s)" % a.tx, a.guards)
        if fn == "slice":
            if n.keywords or not (1 <= len(n.args) <= 2):
                _fail(n, "slice accepted as slice(stop) or slice(start, stop)")
            vs = [self.expr(a, env) for a in n.args]
            if len(vs) == 1:
                vs = [Val("none", "None")] + vs
            txs = []
            for v in vs:
                if v.ty == "Z":
                    txs.append("(Some %s)" % v.tx)
                elif v.ty in ("optZ", "none"):
                    txs.append(v.tx)
                else:
                    _fail(n, "slice bound of type %r" % (v.ty,))
            return Val("slice", "(%s, %s)" % tuple(txs), vs[0].guards + vs[1].guards)
        if fn in PYNAME and PYNAME[fn] in self.callee:
            info = self.callee[PYNAME[fn]]
            if info["fails"]:
                _fail(n, "call of a helper that can raise is accepted only as `x = f(...)`")
            args, g = self.call_args(n, env, info)
            return Val(info["ret"], "(gen_%s %s)" % (PYNAME[fn], " ".join(args)), g)
        _fail(n, "unsupported call")

    def call_args(self, n, env, info):
        params = info["params"]
        given = {}
        for i, a in enumerate(n.args):
            if isinstance(a, ast.Starred) or i >= len(params):
                _fail(n, "unsupported call arguments")
            given[params[i][0]] = a
        for kw in n.keywords:
            if kw.arg is None or kw.arg in given or kw.arg not in [p[0] for p in params]:
                _fail(n, "unsupported keyword argument")
            given[kw.arg] = kw.value
        out, g = [], ()
        for py, kind, default in params:
            if py in given:
                v = self.expr(given[py], env)
            elif default is not None:
                v = self.expr(default, env)
            else:
                _fail(n, "missing argument %r" % py)
            g += v.guards
            if kind == "Z":
                if v.ty != "Z":
                    _fail(n, "argument %r must be an integer" % py)
                out.append(v.tx)
            elif kind == "optparam":
                if v.ty == "Z":
                    out.append("(Some %s)" % v.tx)
                elif v.ty in ("optZ", "none"):
                    out.append(v.tx)
                else:
                    _fail(n, "argument %r must be an integer or None" % py)
            elif kind == "bool":
                if v.ty != "bool":
                    _fail(n, "argument %r must be a boolean" % py)
                out.append(v.tx)
        return out, g

    def subscript(self, n, env):
        fr = env.frag
        if fr is None or not (isinstance(n.slice, ast.Name) and n.slice.id in fr.loopvars):
            _fail(n, "subscript (only `<name>[i]` / `self.<attr>[i]` with the loop index of a fragment)")
        base = n.value
        if isinstance(base, ast.Attribute) and isinstance(base.value, ast.Name) and base.value.id == "self":
            _, coq, ty, _ = fr.param(("self", base.attr), (0, base.attr, 0), "v_self_" + base.attr, "Z", ("self", base.attr))
            return Val(ty, coq)
        if isinstance(base, ast.Name):
            nm = base.id
            if nm in env.stores:
                return env.stores[nm]
            if nm in env.vars or nm in fr.assigned:
                _fail(n, "subscript of a variable assigned in the fragment")
            _, coq, ty, _ = fr.param(("at", nm), (1, fr.pos(n, nm), 1), cname(nm) + "_at", fr.sub_type, ("at", nm))
            return Val(ty, coq)
        _fail(n, "unsupported subscript base")

    # ---------------------------------------------------------------- conditions (CPS, short-circuit)
    def cond(self, t, env: Env, kt, kf):
        if isinstance(t, ast.BoolOp):
            vals = list(t.values)
            if isinstance(t.op, ast.And):
                def chain(i, e):
                    if i == len(vals) - 1:
                        return self.cond(vals[i], e, kt, kf)
                    return self.cond(vals[i], e, lambda e2: chain(i + 1, e2), kf)
                return chain(0, env)

            def chain_or(i, e):
                if i == len(vals) - 1:
                    return self.cond(vals[i], e, kt, kf)
                return self.cond(vals[i], e, kt, lambda e2: chain_or(i + 1, e2))
            return chain_or(0, env)
        if isinstance(t, ast.UnaryOp) and isinstance(t.op, ast.Not):
            return self.cond(t.operand, env, kf, kt)
        if isinstance(t, ast.Compare) and len(t.ops) == 1 and isinstance(t.ops[0], (ast.Is, ast.IsNot)):
            c = t.comparators[0]
            if not (isinstance(c, ast.Constant) and c.value is None and isinstance(t.left, ast.Name)):
                _fail(t, "`is` accepted only as `<name> is [not] None`")
            neg = isinstance(t.ops[0], ast.IsNot)
            k_none, k_some = (kf, kt) if neg else (kt, kf)
            py = t.left.id
            v = env.vars.get(py)
            if v is None:
                _fail(t, "unknown name %r" % py)
            if isinstance(v, tuple) and v[0] == "optparam":
                e1, e2 = env.copy(), env.copy()
                e1.vars[py] = Val("none", "None")
                inner = self.fresh(cname(py) + "_v")
                e2.vars[py] = Val("Z", inner)
                return self.node("matchopt", v[1], k_none(e1), inner, k_some(e2))
            if v.ty == "none":
                return k_none(env)
            if v.ty in ("Z", "bool", "Q"):
                return k_some(env)
            _fail(t, "`is None` on a value of type %r" % (v.ty,))
        if isinstance(t, ast.Compare) and len(t.ops) == 1 and isinstance(t.ops[0], (ast.In, ast.NotIn)):
            fr = env.frag
            c = t.comparators[0]
            if fr is None or not (isinstance(t.left, ast.Name) and t.left.id in fr.loopvars and isinstance(c, ast.Name)):
                _fail(t, "`in` accepted only as `<loop index> in <name>` inside a fragment")
            _, coq, _, _ = fr.param(("in", c.id), (1, fr.pos(t, c.id), 0), "in_" + cname(c.id)[2:], "bool", ("in", c.id))
            a, b = (kf, kt) if isinstance(t.ops[0], ast.NotIn) else (kt, kf)
            return self.node("if", coq, a(env.copy()), b(env.copy()))
        v = self.expr(t, env)
        if v.ty != "bool":
            _fail(t, "condition is not a boolean (truthiness of integers/containers is not translated)")
        return self.guarded(v, env, lambda: self.node("if", v.tx, kt(env.copy()), kf(env.copy())))

    # ---------------------------------------------------------------- statements (CPS)
    def stmts(self, ss, env: Env, end):
        """`end(env)` produces the subtree when control falls off the end of `ss`"""
        if not ss:
            return end(env)
        s, rest = ss[0], ss[1:]
        if isinstance(s, ast.Expr) and isinstance(s.value, ast.Constant) and isinstance(s.value.value, str):
            return self.stmts(rest, env, end)
        if isinstance(s, ast.Pass):
            return self.stmts(rest, env, end)
        if isinstance(s, ast.Return):
            if env.frag is not None or env.in_loop is not None:
                _fail(s, "return inside a loop body")
            if s.value is None:
                _fail(s, "bare return")
            v = self.expr(s.value, env)
            if v.ty in ("none", "Zf"):
                _fail(s, "unsupported return type")
            return self.guarded(v, env, lambda: self.node("ret", v.tx, v.ty))
        if isinstance(s, ast.Raise):
            e = s.exc
            nm = e.func.id if isinstance(e, ast.Call) and isinstance(e.func, ast.Name) else (e.id if isinstance(e, ast.Name) else None)
            if nm not in ERRS:
                _fail(s, "unsupported exception")
            return self.node("raise", nm)
        if isinstance(s, ast.If):
            return self.cond(s.test, env,
                             lambda e: self.stmts(list(s.body) + rest, e, end),
                             lambda e: self.stmts(list(s.orelse) + rest, e, end))
        if isinstance(s, ast.AnnAssign) and s.value is not None and isinstance(s.target, ast.Name):
            s = ast.copy_location(ast.Assign(targets=[s.target], value=s.value), s)
        if isinstance(s, ast.AugAssign):
            if not isinstance(s.target, ast.Name):
                _fail(s, "augmented assignment to a non-name")
            b = ast.copy_location(ast.BinOp(left=ast.Name(id=s.target.id, ctx=ast.Load()), op=s.op, right=s.value), s)
            s = ast.copy_location(ast.Assign(targets=[s.target], value=b), s)
        if isinstance(s, ast.Assign):
            if len(s.targets) != 1:
                _fail(s, "multiple assignment targets")
            tg = s.targets[0]
            if isinstance(tg, ast.Name):
                return self.assign(s, tg.id, s.value, env, rest, end)
            if isinstance(tg, ast.Tuple) and env.frag is not None:
                return self.tuple_input(s, tg, env, rest, end)
            if isinstance(tg, ast.Subscript) and env.frag is not None:
                return self.store(s, tg, env, rest, end)
            _fail(s, "unsupported assignment target")
        if isinstance(s, ast.Expr) and isinstance(s.value, ast.Call) and env.frag is not None:
            return self.append(s, env, rest, end)
        if isinstance(s, ast.Expr) and isinstance(s.value, ast.Yield):
            if env.in_loop is None:
                _fail(s, "yield outside the trailing for-loop of a generator")
            y = s.value.value
            if y is None:
                _fail(s, "bare yield")
            v = self.expr(y, env)
            if v.guards:
                _fail(s, "division by a non-literal inside a generator loop")
            env.in_loop["ytypes"].append(v.ty)
            return self.node("cons", v.tx, self.stmts(rest, env, end))
        if isinstance(s, ast.For):
            if rest:
                _fail(s, "statements after the generator loop")
            return self.gen_loop(s, env)
        _fail(s, "unsupported statement")

    def assign(self, s, py, value, env, rest, end):
        # x = f(...) with f a helper that can raise: bind
        if isinstance(value, ast.Call):
            fn = self._dotted(value.func)
            if fn in PYNAME and PYNAME[fn] in self.callee and self.callee[PYNAME[fn]]["fails"]:
                info = self.callee[PYNAME[fn]]
                args, g = self.call_args(value, env, info)
                call = "(gen_%s %s)" % (PYNAME[fn], " ".join(args))

                def k():
                    c = self.fresh(cname(py))
                    env.bind(py, Val(info["ret"], c))
                    return self.node("bind", c, call, self.stmts(rest, env, end))
                return self.guarded(Val("Z", "", g), env, k)
        v = self.expr(value, env)
        if v.ty in ("Zf",):
            _fail(s, "float-valued floor/ceil must be wrapped in int()")

        def k():
            if v.ty == "none":
                env.bind(py, Val("none", "None"))
                return self.stmts(rest, env, end)
            c = self.fresh(cname(py))
            env.bind(py, Val(v.ty, c))
            return self.node("let", c, v.tx, self.stmts(rest, env, end))
        return self.guarded(v, env, k)

    # ------------------------------------------------ fragment statements
    def tuple_input(self, s, tg, env, rest, end):
        fr = env.frag
        v = s.value
        if not (isinstance(v, ast.Subscript) and isinstance(v.slice, ast.Name) and v.slice.id in fr.loopvars
                and isinstance(v.value, ast.Name) and all(isinstance(e, ast.Name) for e in tg.elts)):
            _fail(s, "tuple assignment accepted only as `a, b = <name>[i]`")
        nm = v.value.id
        for j, e in enumerate(tg.elts):
            _, coq, ty, _ = fr.param(("at", nm, j), (1, fr.pos(s, nm), 1, j), "%s_%d" % (cname(nm), j), fr.sub_type,
                                     ("at_tuple", nm, j, len(tg.elts)))
            env.bind(e.id, Val(ty, coq))
        return self.stmts(rest, env, end)

    def store(self, s, tg, env, rest, end):
        fr = env.frag
        if not (isinstance(tg.slice, ast.Name) and tg.slice.id in fr.loopvars and isinstance(tg.value, ast.Name)):
            _fail(s, "store accepted only as `<name>[i] = e`")
        nm = tg.value.id
        fr.pos(s, nm)
        v = self.expr(s.value, env)
        if v.ty not in ("Z", "Q"):
            _fail(s, "stored value must be a number")
        if nm not in fr.store_names:
            fr.store_names.append(nm)
        tmp = self.fresh("%s_new" % cname(nm))

        def k():
            env.stores[nm] = Val(v.ty, tmp)
            return self.node("let", tmp, v.tx, self.stmts(rest, env, end))
        return self.guarded(v, env, k)

    def append(self, s, env, rest, end):
        fr = env.frag
        c = s.value
        f = c.func
        if not (isinstance(f, ast.Attribute) and isinstance(f.value, ast.Name) and f.attr in ("append", "extend")
                and len(c.args) == 1 and not c.keywords):
            _fail(s, "unsupported call statement")
        nm = f.value.id
        fr.pos(s, nm)
        if f.attr == "append":
            items = [c.args[0]]
        else:
            if not isinstance(c.args[0], (ast.List, ast.Tuple)):
                _fail(s, "extend accepted only with a list display")
            items = list(c.args[0].elts)
        vals = [self.expr(i, env) for i in items]
        for v in vals:
            if v.ty in ("none", "Zf"):
                _fail(s, "unsupported appended value")
        if nm not in fr.out_lists:
            fr.out_lists.append(nm)
        g = sum((v.guards for v in vals), ())

        def k():
            env.outs.setdefault(nm, [])
            env.outs[nm] += vals
            return self.stmts(rest, env, end)
        return self.guarded(Val("Z", "", g), env, k)

    # ------------------------------------------------ generator loop
    def gen_loop(self, s, env):
        if s.orelse or not isinstance(s.target, ast.Name):
            _fail(s, "unsupported for-loop")
        it = self.expr(s.iter, env)
        if it.ty != ("list", "Z") or it.guards:
            _fail(s, "generator loop must iterate over a list of integers")
        body = list(s.body)
        assigned = []
        for st in body:
            if isinstance(st, ast.Assign) and len(st.targets) == 1 and isinstance(st.targets[0], ast.Name):
                nm = st.targets[0].id
            elif isinstance(st, ast.AugAssign) and isinstance(st.target, ast.Name):
                nm = st.target.id
            elif isinstance(st, ast.Expr) and isinstance(st.value, ast.Yield):
                continue
            else:
                _fail(st, "generator loop body: only assignments and yield")
            if nm not in assigned:
                assigned.append(nm)
        lv = s.target.id
        if lv in assigned:
            _fail(s, "loop variable assigned in the body")
        read = []
        for st in body:
            for x in ast.walk(st):
                if isinstance(x, ast.Name) and isinstance(x.ctx, ast.Load) and x.id != lv and x.id not in read:
                    read.append(x.id)
        carried = [a for a in assigned if a in env.vars]
        fresh = [a for a in assigned if a not in env.vars]
        fixed = [r for r in read if r not in assigned and r in env.vars]
        for nm in carried + fixed:
            v = env.vars[nm]
            if isinstance(v, tuple) or v.ty != "Z":
                _fail(s, "loop-carried / captured variable %r must be an integer" % nm)
        for nm in fresh:
            if nm in read:
                # read before assignment would be a NameError on the first iteration only if read first;
                # accept only if its first occurrence is the assignment (checked by the translation itself)
                pass
        order = [k for k in env.vars if k in carried]   # canonical: order of definition in the function
        fix = "gen_%s_loop" % self.name
        e2 = Env(self, None)
        saved_used = self.used
        self.used = {"xs": 0, "xs'": 0}
        loop_names = {}
        for nm in order + fixed + [lv]:
            loop_names[nm] = self.fresh(cname(nm))
            e2.vars[nm] = Val("Z", loop_names[nm])
        e2.in_loop = {"ytypes": []}

        def end(e):
            args = []
            for nm in order:
                v = e.vars[nm]
                args.append(v.tx)
            return self.node("rec", "%s xs' %s" % (fix, " ".join(args + [loop_names[f] for f in fixed])))
        tree = self.stmts(body, e2, end)
        self.used = saved_used
        yt = e2.in_loop["ytypes"]
        if not yt or any(t != yt[0] for t in yt):
            _fail(s, "generator loop must yield values of one type")
        params = "".join(" (%s : Z)" % loop_names[nm] for nm in order + fixed)
        txt = ("Fixpoint %s (xs : list Z)%s {struct xs} : list %s :=\n  match xs with\n  | [] => []\n  | %s :: xs' =>\n%s\n  end."
               % (fix, params, coq_type(yt[0]), loop_names[lv], self.show(tree, 3, False)))
        self.aux.append(txt)
        self.aux_names.append(fix)
        call = "(%s %s%s)" % (fix, it.tx, "".join(" " + env.vars[nm].tx for nm in order + fixed))
        return self.node("ret", call, ("list", yt[0]))

    # ---------------------------------------------------------------- printing
    @staticmethod
    def fails(tree) -> bool:
        k = tree[0]
        if k in ("raise", "guard", "bind"):
            return True
        if k in ("ret", "rec", "fragret"):
            return False
        if k in ("let", "cons"):
            return Translator.fails(tree[-1])
        if k == "if":
            return Translator.fails(tree[2]) or Translator.fails(tree[3])
        if k == "matchopt":
            return Translator.fails(tree[2]) or Translator.fails(tree[4])
        raise AssertionError(k)

    @staticmethod
    def leaves(tree):
        k = tree[0]
        if k in ("ret", "fragret"):
            yield tree
        elif k in ("let", "cons", "guard", "bind"):
            yield from Translator.leaves(tree[-1])
        elif k == "if":
            yield from Translator.leaves(tree[2])
            yield from Translator.leaves(tree[3])
        elif k == "matchopt":
            yield from Translator.leaves(tree[2])
            yield from Translator.leaves(tree[4])

    def show(self, t, ind, fails, fragfmt=None):
        p = "  " * ind
        k = t[0]
        if k == "ret":
            return p + ("inr %s" % t[1] if fails else t[1])
        if k == "fragret":
            tx = fragfmt(t)
            return p + ("inr %s" % tx if fails else tx)
        if k == "rec":
            return p + t[1]
        if k == "raise":
            return p + "inl G%s" % t[1]
        if k == "let":
            return "%slet %s := %s in\n%s" % (p, t[1], t[2], self.show(t[3], ind, fails, fragfmt))
        if k == "cons":
            return "%s%s ::\n%s" % (p, t[1], self.show(t[2], ind, fails, fragfmt))
        if k == "guard":
            return "%sif (%s =? 0) then inl GZeroDivisionError else\n%s" % (p, t[1], self.show(t[2], ind, fails, fragfmt))
        if k == "bind":
            return "%smatch %s with\n%s| inl e => inl e\n%s| inr %s =>\n%s\n%send" % (
                p, t[2], p, p, t[1], self.show(t[3], ind + 1, fails, fragfmt), p)
        if k == "if":
            return "%sif %s then\n%s\n%selse\n%s" % (p, t[1], self.show(t[2], ind + 1, fails, fragfmt), p,
                                                    self.show(t[3], ind + 1, fails, fragfmt))
        if k == "matchopt":
            return "%smatch %s with\n%s| None =>\n%s\n%s| Some %s =>\n%s\n%send" % (
                p, t[1], p, self.show(t[2], ind + 1, fails, fragfmt), p, t[3], self.show(t[4], ind + 1, fails, fragfmt), p)
        raise AssertionError(k)


# ------------------------------------------------------------------------------------------
# locating the pieces of source


def _index(tree):
    idx = {}

    def rec(prefix, body):
        for n in body:
            if isinstance(n, (ast.FunctionDef, ast.ClassDef)):
                q = prefix + n.name
                if not any(isinstance(d, ast.Name) and d.id == "overload" for d in getattr(n, "decorator_list", [])):
                    idx[q] = n
                rec(q + ".", n.body)
    rec("", tree.body)
    return idx


def _find(tree, qual):
    idx = _index(tree)
    if qual not in idx:
        raise TranslateError("definition %r not found in the source" % qual)
    return idx[qual]


def _strip_doc(body):
    body = list(body)
    if body and isinstance(body[0], ast.Expr) and isinstance(body[0].value, ast.Constant) and isinstance(body[0].value.value, str):
        body = body[1:]
    return body


def _param_kind(arg: ast.arg):
    a = arg.annotation
    if a is None:
        raise TranslateError("parameter %r has no annotation" % arg.arg)
    s = ast.unparse(a).replace(" ", "").replace("'", "").replace('"', "")
    if s == "int":
        return "Z"
    if s in ("Optional[int]", "int|None", "None|int", "typing.Optional[int]", "Union[int,None]"):
        return "optparam"
    if s == "bool":
        return "bool"
    raise TranslateError("parameter %r: unsupported annotation %r" % (arg.arg, s))


def _defpos(fdef):
    """order of definition of every name of the enclosing function: parameters, then first assignment"""
    pos = {}
    for a in fdef.args.posonlyargs + fdef.args.args + fdef.args.kwonlyargs:
        pos.setdefault(a.arg, len(pos))
    names = []
    for n in ast.walk(fdef):
        if isinstance(n, ast.Name) and isinstance(n.ctx, ast.Store):
            names.append((n.lineno, n.col_offset, n.id))
    for _, _, nm in sorted(names):
        pos.setdefault(nm, len(pos))
    return pos


def _is_range_ndim(it):
    return ast.unparse(it).replace(" ", "") == "range(self.ndim)"


def _is_enum_shape(it):
    return ast.unparse(it).replace(" ", "") == "enumerate(self.shape)"


def _axis_loops(fdef):
    out = []
    for s in fdef.body:
        if isinstance(s, ast.For):
            if _is_range_ndim(s.iter) and isinstance(s.target, ast.Name):
                out.append((s, [s.target.id]))
            elif _is_enum_shape(s.iter) and isinstance(s.target, ast.Tuple) and len(s.target.elts) == 2 \
                    and all(isinstance(e, ast.Name) for e in s.target.elts):
                out.append((s, [s.target.elts[0].id]))
    return out


def _items_loops(fdef):
    out = []
    for s in fdef.body:
        if isinstance(s, ast.For) and isinstance(s.iter, ast.Call) and isinstance(s.iter.func, ast.Attribute) \
                and s.iter.func.attr == "items" and isinstance(s.iter.func.value, ast.Name) and not s.iter.args \
                and isinstance(s.target, ast.Tuple) and len(s.target.elts) == 2 \
                and all(isinstance(e, ast.Name) for e in s.target.elts):
            out.append((s, s.target.elts[0].id, s.target.elts[1].id, s.iter.func.value.id))
    return out


def _assigned_names(body):
    out = set()
    for st in body:
        for n in ast.walk(st):
            if isinstance(n, ast.Name) and isinstance(n.ctx, ast.Store):
                out.add(n.id)
    return out


class Gen:
    """result of translating one target"""

    def __init__(self, name):
        self.name = name
        self.text = ""            # Gallina (aux Fixpoints + Definition)
        self.params = []          # [(coqname, coqtype, pyref)]
        self.ret = None           # type
        self.fails = False
        self.source = ""          # python source of the translated piece
        self.src_hash = ""
        self.lines = (0, 0)
        self.py = None            # callable reference built from the same AST (fragments / nested defs)


def _hash_nodes(nodes):
    return hashlib.sha256("\n".join(ast.dump(n) for n in nodes).encode()).hexdigest()[:16]


def _translate_func(name, fdef, callee) -> Gen:
    g = Gen(name)
    tr = Translator(name, callee)
    env = Env(tr)
    a = fdef.args
    if a.vararg or a.kwarg or a.kwonlyargs or a.posonlyargs:
        _fail(fdef, "unsupported parameter list")
    defaults = [None] * (len(a.args) - len(a.defaults)) + list(a.defaults)
    pinfo = []
    for arg, d in zip(a.args, defaults):
        kind = _param_kind(arg)
        c = tr.fresh(cname(arg.arg))
        if kind == "optparam":
            env.vars[arg.arg] = ("optparam", c)
            g.params.append((c, "option Z", ("arg", arg.arg)))
        else:
            env.vars[arg.arg] = Val(kind, c)
            g.params.append((c, coq_type(kind), ("arg", arg.arg)))
        pinfo.append((arg.arg, kind, d))
    body = _strip_doc(fdef.body)

    def end(e):
        _fail(fdef, "control can fall off the end of the function (returns None)")
    tree = tr.stmts(body, env, end)
    g.fails = tr.fails(tree)
    tys = {repr(l[2]) for l in tr.leaves(tree)}
    if len(tys) != 1:
        _fail(fdef, "return values of different types %s" % sorted(tys))
    g.ret = next(iter(tr.leaves(tree)))[2]
    rt = coq_type(g.ret)
    hdr = "Definition gen_%s%s : %s :=" % (name, "".join(" (%s : %s)" % (c, t) for c, t, _ in g.params),
                                          ("gerr + %s" % rt) if g.fails else rt)
    g.text = "\n\n".join(tr.aux + [hdr + "\n" + tr.show(tree, 1, g.fails) + "."])
    g.source = ast.unparse(fdef)
    g.src_hash = _hash_nodes([fdef])
    g.lines = (fdef.lineno, fdef.end_lineno)
    g.info = {"fails": g.fails, "params": pinfo, "ret": g.ret}
    return g


def _translate_fragment(name, fdef, body, loopvars, callee, sub_type="Z", dict_value=None, is_expr=False) -> Gen:
    g = Gen(name)
    tr = Translator(name, callee)
    assigned = set() if is_expr else _assigned_names(body)
    fr = Frag(loopvars, _defpos(fdef), assigned, sub_type, dict_value)
    fr.tr = tr
    env = Env(tr, fr)

    def end(e):
        return tr.node("fragret", {k: list(v) for k, v in e.outs.items()}, dict(e.stores),
                       {k: v for k, v in e.vars.items()})
    if is_expr:
        v = tr.expr(body, env)
        tree = tr.guarded(v, env, lambda: tr.node("ret", v.tx, v.ty))
    else:
        tree = tr.stmts(list(body), env, end)
    g.fails = tr.fails(tree)
    leaves = list(tr.leaves(tree))
    if is_expr:
        g.ret = v.ty
        fmt = None
    else:
        lists = sorted(fr.out_lists, key=lambda n: fr.defpos[n])
        stores = sorted(fr.store_names, key=lambda n: fr.defpos[n])
        carried = sorted([k[1] for k in fr.params if k[0] == "carried"], key=lambda n: fr.defpos[n])
        comps = []
        for nm in lists:
            tys = {repr(x.ty): x.ty for l in leaves for x in l[1].get(nm, [])}
            if len(tys) != 1:
                _fail(fdef, "values appended to %r have different types" % nm)
            ty = next(iter(tys.values()))
            scalar = all(len(l[1].get(nm, [])) == 1 for l in leaves)
            comps.append(("list", nm, ty, scalar))
        for nm in stores:
            if not all(nm in l[2] for l in leaves):
                _fail(fdef, "array %r is not stored on every path" % nm)
            tys = {l[2][nm].ty for l in leaves}
            if len(tys) != 1:
                _fail(fdef, "values stored into %r have different types" % nm)
            comps.append(("store", nm, next(iter(tys)), True))
        for nm in carried:
            comps.append(("carried", nm, "Z", True))
        if not comps:
            _fail(fdef, "fragment produces nothing")

        def fmt(leaf):
            parts = []
            for kind, nm, ty, scalar in comps:
                if kind == "list":
                    items = leaf[1].get(nm, [])
                    parts.append(items[0].tx if scalar else "[" + "; ".join(i.tx for i in items) + "]")
                elif kind == "store":
                    parts.append(leaf[2][nm].tx)
                else:
                    vv = leaf[3].get(nm)
                    parts.append(vv.tx if vv is not None else cname(nm))
            return parts[0] if len(parts) == 1 else "(" + ", ".join(parts) + ")"
        ctys = [(ty if scalar else ("list", ty)) for _, _, ty, scalar in comps]
        g.ret = ctys[0] if len(ctys) == 1 else ("tuple", tuple(ctys))
        g.comps = [(k, nm, scalar) for k, nm, _, scalar in comps]
    ps = sorted(fr.params.values(), key=lambda p: tuple(map(_sortable, p[0])))
    g.params = [(coq, coq_type(ty), ref) for _, coq, ty, ref in ps]
    names = [p[0] for p in g.params]
    if len(set(names)) != len(names):
        _fail(fdef, "parameter name clash %s" % names)
    rt = coq_type(g.ret)
    hdr = "Definition gen_%s%s : %s :=" % (name, "".join(" (%s : %s)" % (c, t) for c, t, _ in g.params),
                                          ("gerr + %s" % rt) if g.fails else rt)
    g.text = "\n\n".join(tr.aux + [hdr + "\n" + tr.show(tree, 1, g.fails, fmt) + "."])
    g.info = {"fails": g.fails, "params": [], "ret": g.ret}
    return g


def _sortable(x):
    return (0, x, "") if isinstance(x, int) else (1, 0, str(x))


# ------------------------------------------------------------------------------------------
# Python references built from the SAME AST nodes (fragments and nested defs cannot be imported)


def _exec_nodes(nodes, ns):
    mod = ast.Module(body=list(nodes), type_ignores=[])
    ast.fix_missing_locations(mod)
    exec(compile(mod, "<translate_arith fragment>", "exec"), ns)


class _Idx(dict):
    """stands for a tuple/list/dict indexed by the single axis 0"""


def _fragment_reference(g: Gen, fdef, body, loopvars, helpers, is_expr=False):
    import numpy as np
    import math

    def ref(*args):
        ns = {"np": np, "math": math, "numpy": np}
        _exec_nodes(helpers, ns)
        selfns = {}
        containers = {}
        for (coq, _, pyref), v in zip(g.params, args):
            k = pyref[0]
            if k == "self":
                selfns[pyref[1]] = (v,)
            elif k == "in":
                containers.setdefault(pyref[1], {})["__in__"] = v
            elif k == "at":
                containers.setdefault(pyref[1], {})["__at__"] = v
            elif k == "at_tuple":
                d = containers.setdefault(pyref[1], {})
                t = d.setdefault("__tuple__", [None] * pyref[3])
                t[pyref[2]] = v
            elif k == "value":
                ns["__dictvalue__"] = v
            elif k == "carried":
                ns[pyref[1]] = v
        ns["self"] = SimpleNamespace(ndim=1, **selfns)
        for nm, d in containers.items():
            val = tuple(d["__tuple__"]) if "__tuple__" in d else d.get("__at__")
            present = d.get("__in__", True)
            ns[nm] = {0: val} if present else {}
        for lv in loopvars:
            ns[lv] = 0
        if g.fragkind == "itemsloop":
            ns[g.dict_value[0]] = ns.pop("__dictvalue__")
        if is_expr:
            e = ast.Expression(body=body)
            ast.fix_missing_locations(e)
            return eval(compile(e, "<translate_arith fragment>", "eval"), ns)
        for kind, nm, scalar in g.comps:
            if kind == "list":
                ns[nm] = []
            elif kind == "store" and nm not in ns:
                ns[nm] = {}
        _exec_nodes(body, ns)
        out = []
        for kind, nm, scalar in g.comps:
            if kind == "list":
                out.append(ns[nm][0] if scalar else list(ns[nm]))
            elif kind == "store":
                out.append(ns[nm][0])
            else:
                out.append(ns[nm])
        return out[0] if len(out) == 1 else tuple(out)
    return ref


# ------------------------------------------------------------------------------------------


class Translation:
    def __init__(self):
        self.gens = {}           # name -> Gen
        self.errors = {}         # name -> message
        self.file_hash = {}


def translate_all(src_root, names=None) -> Translation:
    """src_root: the directory that contains `quantem/` (…/src)"""
    src_root = Path(src_root)
    names = list(names) if names else list(TARGETS)
    # helpers called by a requested target must be translated too
    order = [n for n in TARGETS if n in names or
             (n == "subdivide_batches" and "generate_batches" in names) or
             (n == "shift_center_index" and "resample_croppad" in names)]
    T = Translation()
    trees = {}
    callee = {}
    for name in order:
        group, rel, kind, loc = TARGETS[name]
        try:
            if rel not in trees:
                txt = (src_root / "quantem" / rel).read_text()
                trees[rel] = ast.parse(txt)
                T.file_hash[rel] = hashlib.sha256(txt.encode()).hexdigest()
            tree = trees[rel]
            if kind == "func":
                fdef = _find(tree, loc)
                g = _translate_func(name, fdef, callee)
                g.fragkind = "func"
                g.nested = "." in loc and not loc.split(".")[0][0].isupper() or loc.count(".") >= 2
                if g.nested:
                    fd = fdef

                    def mk(fd=fd):
                        ns = {}
                        _exec_nodes([fd], ns)
                        return ns[fd.name]
                    g.py = mk()
            elif kind == "comp":
                fdef = _find(tree, loc)
                comps = [n for n in ast.walk(fdef) if isinstance(n, ast.ListComp) and len(n.generators) == 1
                         and _is_range_ndim(n.generators[0].iter) and isinstance(n.generators[0].target, ast.Name)
                         and not n.generators[0].ifs]
                if len(comps) != 1:
                    raise TranslateError("%s: expected exactly one `[... for i in range(self.ndim)]`, found %d"
                                         % (loc, len(comps)))
                lc = comps[0]
                lv = [lc.generators[0].target.id]
                g = _translate_fragment(name, fdef, lc.elt, lv, callee, is_expr=True)
                g.fragkind = "comp"
                g.source = ast.unparse(lc)
                g.src_hash = _hash_nodes([lc])
                g.lines = (lc.lineno, lc.end_lineno)
                g.py = _fragment_reference(g, fdef, lc.elt, lv, [], is_expr=True)
            elif kind == "axisloop":
                fdef = _find(tree, loc[0])
                loops = _axis_loops(fdef)
                if len(loops) <= loc[1]:
                    raise TranslateError("%s: per-axis loop #%d not found (%d such loops)" % (loc[0], loc[1], len(loops)))
                loop, lv = loops[loc[1]]
                if loop.orelse:
                    _fail(loop, "for-else")
                g = _translate_fragment(name, fdef, loop.body, lv, callee)
                g.fragkind = "axisloop"
                g.source = ast.unparse(loop)
                g.src_hash = _hash_nodes([loop])
                g.lines = (loop.lineno, loop.end_lineno)
                helpers = [n for n in fdef.body if isinstance(n, ast.FunctionDef)]
                g.py = _fragment_reference(g, fdef, loop.body, lv, helpers)
            elif kind == "itemsloop":
                fdef = _find(tree, loc[0])
                loops = _items_loops(fdef)
                if len(loops) <= loc[1]:
                    raise TranslateError("%s: `.items()` loop #%d not found" % (loc[0], loc[1]))
                loop, kvar, vvar, dname = loops[loc[1]]
                g = _translate_fragment(name, fdef, loop.body, [kvar], callee, sub_type="Q", dict_value=(vvar, dname))
                g.fragkind = "itemsloop"
                g.dict_value = (vvar, dname)
                g.source = ast.unparse(loop)
                g.src_hash = _hash_nodes([loop])
                g.lines = (loop.lineno, loop.end_lineno)
                g.py = _fragment_reference(g, fdef, loop.body, [kvar], [])
            else:
                raise AssertionError(kind)
            g.group, g.rel = group, rel
            T.gens[name] = g
            callee[name] = g.info
        except TranslateError as e:
            T.errors[name] = str(e)
        except (OSError, SyntaxError) as e:
            T.errors[name] = "cannot read the source: %r" % e
    return T


HEADER = """(* GENERATED by harness/translate_arith.py from the CURRENT source — do not edit.
   %s *)
From Coq Require Import ZArith List Bool QArith.
Import ListNotations.
Local Close Scope Q_scope.
Local Open Scope Z_scope.

(* Python exceptions a translated helper can raise *)
Inductive gerr := GRuntimeError | GValueError | GTypeError | GZeroDivisionError | GIndexError.
"""


def coq_text(T: Translation, names) -> str:
    hs = "; ".join("%s sha256=%s" % (r, h[:16]) for r, h in sorted(T.file_hash.items()))
    out = [HEADER % hs]
    for n in TARGETS:
        if n in T.gens and (n in names or any(_mentions(T.gens[m].text, "gen_" + n) for m in names if m in T.gens)):
            g = T.gens[n]
            out.append("(* %s  <-  %s lines %d-%d, ast sha256 %s *)\n%s\n" % (n, g.rel, g.lines[0], g.lines[1], g.src_hash, g.text))
    return "\n".join(out)


def translate(src_root, names=None) -> dict:
    """name -> Gallina text; raises TranslateError if any requested target is outside the grammar"""
    T = translate_all(src_root, names)
    if T.errors:
        raise TranslateError("; ".join("%s: %s" % kv for kv in T.errors.items()))
    return {n: g.text for n, g in T.gens.items()}


def emit(path, src_root="/repo/src", names=None):
    T = translate_all(src_root, names)
    if T.errors:
        raise TranslateError("; ".join("%s: %s" % kv for kv in T.errors.items()))
    Path(path).write_text(coq_text(T, names or list(TARGETS)))
    return T


if __name__ == "__main__":
    import sys
    root = sys.argv[1] if len(sys.argv) > 1 else "/repo/src"
    T = translate_all(root)
    for n, e in T.errors.items():
        print("(* ERROR %s: %s *)" % (n, e))
    print(coq_text(T, list(TARGETS)))
