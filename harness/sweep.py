"""Sweeps used while developing the checks (none of this is a registered check):

  python3 harness/sweep.py seeds  quick 0,1,2,3 [C01 C02 ...]   every check, given tier, each seed, on /repo
  python3 harness/sweep.py thorough [C01 ...]                     thorough tier once per property
  python3 harness/sweep.py seeded [C01 ...]                       re-verify every kept seeded change (seeded/<id>-<tag>)

Runs `--lanes N` (default 4) jobs at a time; evidence / build output of these runs goes to a scratch directory
(VERIF_OUT) so that /verif/evidence is not touched; one line per job is appended to build/sweep/<kind>.txt."""
import os
import re
import shutil
import subprocess
import sys
import time
from concurrent.futures import ThreadPoolExecutor
from pathlib import Path

VERIF = Path(__file__).resolve().parent.parent
ALL = ["C%02d" % i for i in range(1, 21)]
OUT = VERIF / "build" / "sweep"


def run_check(pid, tier, seed):
    scratch = Path("/tmp/sweep_%s_%s_%s" % (pid, tier, seed))
    env = dict(os.environ, VERIF_SEED=str(seed), VERIF_OUT=str(scratch), OCAMLRUNPARAM="s=1M")
    t0 = time.time()
    p = subprocess.run([str(VERIF / "check"), pid, "--tier", tier], env=env, stdout=subprocess.PIPE,
                       stderr=subprocess.STDOUT, text=True, timeout=7200)
    vio = [l for l in p.stdout.splitlines() if l.startswith("VIOLATION")]
    what = [l.strip() for l in p.stdout.splitlines() if l.strip().startswith("what:")]
    (OUT / ("%s_%s_s%s.log" % (pid, tier, seed))).write_text(p.stdout)
    shutil.rmtree(scratch, ignore_errors=True)
    line = "%s tier=%s seed=%s rc=%d %ds violations=%d %s" % (pid, tier, seed, p.returncode, time.time() - t0, len(vio),
                                                              (what[0][:200] if what else ""))
    return line


def run_seeded(name):
    pid, tag = name.split("-")
    t0 = time.time()
    p = subprocess.run(["python3", str(VERIF / "harness" / "seed_verify.py"), pid, tag, "--skip-tests"],
                       env=dict(os.environ, OCAMLRUNPARAM="s=1M"), cwd=str(VERIF), stdout=subprocess.PIPE,
                       stderr=subprocess.STDOUT, text=True, timeout=7200)
    m = re.search(r"check rc=(\d+) detected=(\w+)", p.stdout)
    nf = "no-failing-input-found" in p.stdout and not re.search(r"VIOLATION (?!.*no-failing-input-found)", p.stdout)
    (OUT / ("seeded_%s.log" % name)).write_text(p.stdout)
    return "%s %s %ds%s" % (name, ("detected=" + m.group(2)) if m else "ERROR (see log)", time.time() - t0,
                            " (only without a failing input)" if nf else "")


def main():
    args = sys.argv[1:]
    lanes = 4
    if "--lanes" in args:
        i = args.index("--lanes")
        lanes = int(args[i + 1])
        del args[i:i + 2]
    kind = args[0]
    OUT.mkdir(parents=True, exist_ok=True)
    if kind == "seeds":
        tier, seeds = args[1], args[2].split(",")
        ids = args[3:] or ALL
        jobs = [(run_check, (p, tier, s)) for s in seeds for p in ids]
    elif kind == "thorough":
        ids = args[1:] or ALL
        jobs = [(run_check, (p, "thorough", os.environ.get("VERIF_SEED", "0"))) for p in ids]
    elif kind == "seeded":
        ids = args[1:] or ALL
        names = sorted(d.name for d in (VERIF / "seeded").iterdir() if d.is_dir() and d.name.split("-")[0] in ids)
        jobs = [(run_seeded, (n,)) for n in names]
    else:
        print(__doc__)
        return 2
    summary = OUT / (kind + ".txt")
    bad = 0
    with ThreadPoolExecutor(max_workers=lanes) as ex:
        for line in ex.map(lambda j: j[0](*j[1]), jobs):
            print(line, flush=True)
            with open(summary, "a") as f:
                f.write(line + "\n")
            if ("rc=" in line and " rc=0 " not in line) or "detected=False" in line or "ERROR" in line:
                bad += 1
    print("%d jobs, %d need attention (log files in %s)" % (len(jobs), bad, OUT))
    return 1 if bad else 0


if __name__ == "__main__":
    sys.exit(main())
