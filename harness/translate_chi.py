"""translate_chi.py (C12) — fail-closed Python-`ast` -> Coq translator (DESIGN 3.2).

On every run it reads the CURRENT sources under <QUANTEM_REPO>/src/quantem/diffractive_imaging
(complex_probe.py, direct_ptycho_utils.py, direct_ptychography.py) and emits `Gen_Chi.v` with
R-valued Coq functions (see `Translation.emit_coq`).  The same IR is also evaluated in Python
floats (`Translation.evalf`) so the check can cross-test the translator against the real torch
functions.

Reading of the code: every tensor is read POINTWISE (one grid point): broadcasting views,
boolean-mask selection `x[mask]`, `.cpu()`, `.item()`, `.to(dtype)`, `.conj()` on reals are the
identity; Python/torch floating arithmetic is read as exact real arithmetic (`1 / 3` is the
rational 1/3, a float literal is its exact binary value).  A symbolic executor runs the function
bodies; Python-level control flow (loops over literal ranges/tuples, string formatting, label
parsing, `if m < 0: continue`) is executed concretely and thereby unrolled.

Accepted grammar: + - * / @, unary -, int/float literals, ** with a concrete non-negative integer
exponent, .square(), torch/math cos sin sqrt abs atan2 arctan2 remainder, math.pi/np.pi,
coefficient lookups `get("C10")` / `coefs.get(name, 0.0)` / `polar[name]` after
`polar = defaultdict(lambda: torch.tensor(0.0), polar)` (the default literal is checked to be 0),
the `if any(k in coefs for k in (...))` guards (translated as unconditional terms, after checking
that the body only reads coefficients listed in the guard and is a no-op when they are all 0),
one symbolic `if a > b:` (translated to `if Rlt_dec b a then .. else ..`), 2x2 matrices with
constant indices.  Calls the translator does not know yield an *opaque* value; an opaque value
reaching a translated output, or any statement kind not listed above, raises TranslateError and
the check reports a broken tie.
"""
from __future__ import annotations

import ast
import math
from fractions import Fraction
from pathlib import Path


class TranslateError(Exception):
    pass


def _fail(node, msg):
    ln = getattr(node, "lineno", "?")
    try:
        src = ast.unparse(node)
    except Exception:  # noqa
        src = repr(node)
    raise TranslateError("line %s: %s: `%s`" % (ln, msg, src[:140]))


# ------------------------------------------------------------------------------------------
# values of the symbolic executor


class E(tuple):
    """IR node: ("num", Fraction) ("var", name) ("pi",) ("coef", env, key)
    ("add"|"sub"|"mul"|"div", a, b) ("neg", a) ("pow", a, n) ("cos"|"sin"|"sqrt"|"abs", a)
    ("atan2", y, x) ("rem", a, b) ("ite", cond, a, b) with cond = ("gt", a, b)
    ("mc", matname, i, j) component of a matrix parameter   ("old", name) guard placeholder
    ("call", fname, args) application of another generated function; args: E or EnvRef"""
    __slots__ = ()


class EnvRef:
    def __init__(self, name):
        self.name = name

    def __eq__(self, o):
        return isinstance(o, EnvRef) and o.name == self.name

    def __hash__(self):
        return hash(("EnvRef", self.name))

    def __repr__(self):
        return "EnvRef(%s)" % self.name


class Coefs:
    """a coefficient mapping; total=True when absent keys read as 0 through [] (defaultdict)"""

    def __init__(self, name, total=False):
        self.name, self.total = name, total


class EnvExpr:
    """env-valued expression (merge_aberration_coefficients): ("param", name) |
    ("app", fname, EnvExpr) | ("add", EnvExpr, EnvExpr)"""

    def __init__(self, *t):
        self.t = t


class Opaque:
    def __init__(self, why=""):
        self.why = why


class Mat:
    def __init__(self, a, b, c, d):
        self.r = ((a, b), (c, d))

    @staticmethod
    def sym(name):
        return Mat(*[E(("mc", name, i, j)) for i in (0, 1) for j in (0, 1)])

    def flat(self):
        return [self.r[0][0], self.r[0][1], self.r[1][0], self.r[1][1]]


class Vec:
    def __init__(self, items):
        self.items = tuple(items)


class SelfObj:
    pass


class LocalGet:
    def __init__(self, coefs):
        self.coefs = coefs


class _Return(Exception):
    def __init__(self, v):
        self.v = v


class _Continue(Exception):
    pass


def num(x):
    return E(("num", Fraction(x)))


def is_num(v):
    return isinstance(v, (int, Fraction)) and not isinstance(v, bool)


def norm_num(x):
    if isinstance(x, Fraction) and x.denominator == 1:
        return int(x)
    return x


def lift(v, node=None):
    if isinstance(v, E):
        return v
    if is_num(v):
        return num(v)
    _fail(node, "expected a real-valued expression, got %s" % type(v).__name__)


def as_int(v, node):
    v = norm_num(v)
    if isinstance(v, int) and not isinstance(v, bool):
        return v
    _fail(node, "expected a concrete integer")


# ------------------------------------------------------------------------------------------
# simplification used for the guard no-op check


def simp0(e, env_name, zero_keys):
    if not isinstance(e, E):
        return e
    t = e[0]
    if t == "coef":
        return num(0) if (e[1] == env_name and e[2] in zero_keys) else e
    if t in ("num", "var", "pi", "old", "mc"):
        return e
    if t == "call":
        return e
    a = [simp0(x, env_name, zero_keys) if isinstance(x, E) else x for x in e[1:]]

    def z(x):
        return isinstance(x, E) and x[0] == "num" and x[1] == 0

    def n(x):
        return isinstance(x, E) and x[0] == "num"

    if t == "add":
        if z(a[0]):
            return a[1]
        if z(a[1]):
            return a[0]
        if n(a[0]) and n(a[1]):
            return num(a[0][1] + a[1][1])
    if t == "sub":
        if z(a[1]):
            return a[0]
        if n(a[0]) and n(a[1]):
            return num(a[0][1] - a[1][1])
    if t == "mul":
        if z(a[0]) or z(a[1]):
            return num(0)
        if n(a[0]) and n(a[1]):
            return num(a[0][1] * a[1][1])
    if t == "div":
        if z(a[0]):
            return num(0)
    if t == "neg":
        if z(a[0]):
            return num(0)
    if t == "pow":
        if z(a[0]) and a[1] > 0:
            return num(0)
    return E((t,) + tuple(a))


def coef_keys(e, env_name, acc):
    if isinstance(e, E):
        if e[0] == "coef" and e[1] == env_name:
            acc.add(e[2])
        for x in e[1:]:
            if isinstance(x, E):
                coef_keys(x, env_name, acc)
            elif isinstance(x, tuple):
                for y in x:
                    coef_keys(y, env_name, acc)
    return acc


def contains(e, tag):
    if isinstance(e, E):
        if e[0] == tag:
            return True
        return any(contains(x, tag) for x in e[1:])
    if isinstance(e, tuple):
        return any(contains(x, tag) for x in e)
    return False


# ------------------------------------------------------------------------------------------
# source index

FILES = {
    "complex_probe": "diffractive_imaging/complex_probe.py",
    "direct_ptycho_utils": "diffractive_imaging/direct_ptycho_utils.py",
    "direct_ptychography": "diffractive_imaging/direct_ptychography.py",
}


class Sources:
    def __init__(self, src_root: Path):
        self.funcs = {}
        self.consts = {}
        for key, rel in FILES.items():
            path = Path(src_root) / "quantem" / rel
            tree = ast.parse(path.read_text())
            for n in tree.body:
                if isinstance(n, ast.FunctionDef):
                    self.funcs.setdefault(n.name, n)
                elif isinstance(n, ast.ClassDef):
                    for m in n.body:
                        if isinstance(m, ast.FunctionDef):
                            self.funcs.setdefault(n.name + "." + m.name, m)
                elif isinstance(n, ast.Assign) and len(n.targets) == 1 and isinstance(n.targets[0], ast.Name):
                    try:
                        self.consts.setdefault(n.targets[0].id, ast.literal_eval(n.value))
                    except Exception:  # noqa
                        pass

    def func(self, name):
        if name not in self.funcs:
            raise TranslateError("function %s not found in the anchored sources" % name)
        return self.funcs[name]

    def const(self, name):
        if name not in self.consts:
            raise TranslateError("module constant %s not found / not a literal" % name)
        return self.consts[name]


# positional roles of the functions that may be called from translated code
CALL_SIGS = {
    "aberration_surface_polar_gradients": (("alpha", "phi", "coefs"), ("dchi_dk", "dchi_dphi")),
    "aberration_surface_cartesian_gradients": (("alpha", "phi", "coefs"), ("dchi_dx", "dchi_dy")),
    "_passively_rotate_grid": (("kx", "ky", "theta"), ("rot_kx", "rot_ky")),
    "polar_coordinates": (("kx", "ky"), ("polar_k", "polar_phi")),
}
CALL_ORDER = {  # argument order of the generated Coq functions
    "dchi_dk": ("coefs", "alpha", "phi"), "dchi_dphi": ("coefs", "alpha", "phi"),
    "dchi_dx": ("coefs", "alpha", "phi"), "dchi_dy": ("coefs", "alpha", "phi"),
    "rot_kx": ("theta", "kx", "ky"), "rot_ky": ("theta", "kx", "ky"),
    "polar_k": ("kx", "ky"), "polar_phi": ("kx", "ky"),
}

ELEMENTWISE_ID_METHODS = {"item", "conj", "cpu", "clone", "detach", "contiguous", "double", "float"}
TORCH_UNARY = {"cos": "cos", "sin": "sin", "sqrt": "sqrt", "abs": "abs"}


class Exec:
    """symbolic executor for one function body"""

    def __init__(self, src: Sources, allow_symbolic_if=False):
        self.src = src
        self.env = {}
        self.allow_symbolic_if = allow_symbolic_if
        self.grid_syms = 0
        self.guards = []          # (keys, vars) of the any(...) guards that were discharged

    # ---------------------------------------------------------------- functions
    def bind(self, fdef: ast.FunctionDef, args, kwargs, node=None):
        a = fdef.args
        if a.vararg or a.kwarg or a.posonlyargs or a.kwonlyargs:
            _fail(fdef, "unsupported signature")
        names = [x.arg for x in a.args]
        out = {}
        if len(args) > len(names):
            _fail(node or fdef, "too many positional arguments")
        for n, v in zip(names, args):
            out[n] = v
        for k, v in kwargs.items():
            if k not in names or k in out:
                _fail(node or fdef, "bad keyword argument %s" % k)
            out[k] = v
        defaults = a.defaults
        for n, d in zip(names[len(names) - len(defaults):], defaults):
            if n not in out:
                try:
                    dv = ast.literal_eval(d)
                except Exception:  # noqa
                    out[n] = Opaque("default")
                    continue
                out[n] = Fraction(dv) if isinstance(dv, float) else dv
        for n in names:
            if n not in out:
                _fail(node or fdef, "missing argument %s" % n)
        return out

    def run(self, fdef: ast.FunctionDef, bindings: dict):
        self.env = dict(bindings)
        try:
            self.block(fdef.body)
        except _Return as r:
            return r.v
        _fail(fdef, "function does not return")

    # ---------------------------------------------------------------- statements
    def block(self, stmts):
        for s in stmts:
            self.stmt(s)

    def stmt(self, s):
        if isinstance(s, ast.Expr):
            if isinstance(s.value, ast.Constant) and isinstance(s.value.value, str):
                return
            v = s.value
            if (isinstance(v, ast.Call) and isinstance(v.func, ast.Attribute) and v.func.attr == "append"
                    and isinstance(v.func.value, ast.Name) and isinstance(self.env.get(v.func.value.id), list)
                    and len(v.args) == 1 and not v.keywords):
                self.env[v.func.value.id].append(self.ev(v.args[0]))
                return
            _fail(s, "unsupported expression statement")
        if isinstance(s, ast.Assign):
            if len(s.targets) != 1:
                _fail(s, "chained assignment")
            self.assign(s.targets[0], self.ev(s.value), s)
            return
        if isinstance(s, ast.FunctionDef):
            self.local_get(s)
            return
        if isinstance(s, ast.If):
            self.if_(s)
            return
        if isinstance(s, ast.For):
            self.for_(s)
            return
        if isinstance(s, ast.Continue):
            raise _Continue()
        if isinstance(s, ast.Return):
            if s.value is None:
                _fail(s, "bare return")
            raise _Return(self.ev(s.value))
        if isinstance(s, ast.Pass):
            return
        _fail(s, "unsupported statement %s" % type(s).__name__)

    def assign(self, target, value, node):
        if isinstance(target, ast.Name):
            self.env[target.id] = value
            return
        if isinstance(target, (ast.Tuple, ast.List)):
            stars = [i for i, t in enumerate(target.elts) if isinstance(t, ast.Starred)]
            if stars:
                if len(stars) != 1 or not isinstance(value, (list, tuple)) or isinstance(value, E) \
                        or len(value) < len(target.elts) - 1:
                    _fail(node, "cannot unpack")
                i = stars[0]
                tail = len(target.elts) - 1 - i
                vals = list(value)
                for t, v in zip(target.elts[:i], vals[:i]):
                    self.assign(t, v, node)
                self.assign(target.elts[i].value, vals[i:len(vals) - tail], node)
                for t, v in zip(target.elts[i + 1:], vals[len(vals) - tail:] if tail else []):
                    self.assign(t, v, node)
                return
            if isinstance(value, Opaque):
                for t in target.elts:
                    self.assign(t, Opaque("unpacked"), node)
                return
            if not isinstance(value, (tuple, list)) or isinstance(value, E) or len(value) != len(target.elts):
                _fail(node, "cannot unpack")
            for t, v in zip(target.elts, value):
                self.assign(t, v, node)
            return
        if isinstance(target, ast.Subscript) and isinstance(target.value, ast.Name):
            d = self.env.get(target.value.id)
            k = self.ev(target.slice)
            if isinstance(d, dict) and isinstance(k, str):
                d[k] = value
                return
        _fail(node, "unsupported assignment target")

    def local_get(self, f: ast.FunctionDef):
        """def get(name, default=0.0): val = coefs.get(name, default); return val"""
        a = f.args
        ok = (len(a.args) == 2 and len(a.defaults) == 1 and isinstance(a.defaults[0], ast.Constant)
              and not a.vararg and not a.kwarg and not a.kwonlyargs)
        if not ok:
            _fail(f, "local function is not the coefficient getter pattern")
        dv = a.defaults[0].value
        if isinstance(dv, bool) or not isinstance(dv, (int, float)) or dv != 0:
            _fail(f, "coefficient default is not the literal 0.0")
        p_name, p_def = a.args[0].arg, a.args[1].arg
        body = [b for b in f.body if not (isinstance(b, ast.Expr) and isinstance(b.value, ast.Constant))]

        def is_lookup(c):
            return (isinstance(c, ast.Call) and isinstance(c.func, ast.Attribute) and c.func.attr == "get"
                    and isinstance(c.func.value, ast.Name) and isinstance(self.env.get(c.func.value.id), Coefs)
                    and len(c.args) == 2 and not c.keywords
                    and isinstance(c.args[0], ast.Name) and c.args[0].id == p_name
                    and isinstance(c.args[1], ast.Name) and c.args[1].id == p_def)

        call = None
        if len(body) == 1 and isinstance(body[0], ast.Return) and is_lookup(body[0].value):
            call = body[0].value
        elif (len(body) == 2 and isinstance(body[0], ast.Assign) and len(body[0].targets) == 1
              and isinstance(body[0].targets[0], ast.Name) and is_lookup(body[0].value)
              and isinstance(body[1], ast.Return) and isinstance(body[1].value, ast.Name)
              and body[1].value.id == body[0].targets[0].id):
            call = body[0].value
        if call is None:
            _fail(f, "local function is not the coefficient getter pattern")
        self.env[f.name] = LocalGet(self.env[call.func.value.id])

    # guards --------------------------------------------------------------------------------
    def guard_pattern(self, test):
        """any(k in coefs for k in ("C10", ...)) -> (Coefs, keys)"""
        if not (isinstance(test, ast.Call) and isinstance(test.func, ast.Name) and test.func.id == "any"
                and len(test.args) == 1 and not test.keywords and isinstance(test.args[0], ast.GeneratorExp)):
            return None
        g = test.args[0]
        if len(g.generators) != 1:
            return None
        c = g.generators[0]
        if c.ifs or c.is_async or not isinstance(c.target, ast.Name):
            return None
        if not (isinstance(g.elt, ast.Compare) and len(g.elt.ops) == 1 and isinstance(g.elt.ops[0], ast.In)
                and isinstance(g.elt.left, ast.Name) and g.elt.left.id == c.target.id
                and isinstance(g.elt.comparators[0], ast.Name)):
            return None
        co = self.env.get(g.elt.comparators[0].id)
        if not isinstance(co, Coefs):
            return None
        if not isinstance(c.iter, (ast.Tuple, ast.List)):
            return None
        keys = []
        for e in c.iter.elts:
            if not (isinstance(e, ast.Constant) and isinstance(e.value, str)):
                return None
            keys.append(e.value)
        return co, tuple(keys)

    def if_(self, s: ast.If):
        gp = self.guard_pattern(s.test)
        if gp is not None:
            co, keys = gp
            if s.orelse:
                _fail(s, "coefficient guard with an else branch")
            for b in s.body:
                if not (isinstance(b, ast.Assign) and len(b.targets) == 1 and isinstance(b.targets[0], ast.Name)):
                    _fail(b, "only simple assignments are allowed under a coefficient guard")
            # dry run on placeholders: the body must be a no-op when every guard key reads 0,
            # and may only read coefficients named in the guard
            saved = self.env
            assigned = [b.targets[0].id for b in s.body]
            self.env = dict(saved)
            for v in set(assigned):
                if not isinstance(saved.get(v), E):
                    self.env = saved
                    _fail(s, "guarded assignment to a variable that is not a real expression: %s" % v)
                self.env[v] = E(("old", v))
            self.block(s.body)
            dry = self.env
            self.env = saved
            for v in set(assigned):
                used = coef_keys(dry[v], co.name, set())
                if not used <= set(keys):
                    _fail(s, "guard %s does not list coefficient(s) %s read in its body"
                          % (list(keys), sorted(used - set(keys))))
                if simp0(dry[v], co.name, set(keys)) != E(("old", v)):
                    _fail(s, "guarded update of %s is not a no-op when the guarded coefficients are 0" % v)
            self.guards.append((keys, sorted(set(assigned))))
            self.block(s.body)       # unconditional translation
            return
        t = self.ev(s.test)
        if isinstance(t, bool):
            self.block(s.body if t else s.orelse)
            return
        if isinstance(t, E) and t[0] == "gt" and self.allow_symbolic_if:
            saved = self.env
            self.env = dict(saved)
            self.block(s.body)
            then_env = self.env
            self.env = dict(saved)
            self.block(s.orelse)
            else_env = self.env
            merged = dict(saved)
            for k in set(then_env) | set(else_env):
                a, b = then_env.get(k), else_env.get(k)
                if a is b:
                    merged[k] = a
                    continue
                if isinstance(a, Mat) and isinstance(b, Mat):
                    merged[k] = Mat(*[x if x == y else E(("ite", t, x, y)) for x, y in zip(a.flat(), b.flat())])
                elif isinstance(a, E) and isinstance(b, E):
                    merged[k] = a if a == b else E(("ite", t, a, b))
                else:
                    _fail(s, "cannot merge variable %s across a symbolic branch" % k)
            self.env = merged
            return
        _fail(s, "condition is neither concrete nor an accepted pattern")

    def for_(self, s: ast.For):
        if s.orelse:
            _fail(s, "for-else")
        m = self.match_pointwise_add(s)
        if m is not None:
            dname, delta = m
            self.env[dname] = EnvExpr("add", self.env[dname], delta)
            return
        it = self.ev(s.iter)
        if isinstance(it, range):
            it = list(it)
        if not isinstance(it, (list, tuple)) or isinstance(it, E):
            _fail(s, "loop over a non-literal iterable")
        for v in it:
            self.assign(s.target, v, s)
            try:
                self.block(s.body)
            except _Continue:
                continue

    def match_pointwise_add(self, s: ast.For):
        """for k, v in DELTA.items():
               if k in D: D[k] = D[k] + v
               else:      D[k] = v            ==>  D := D + DELTA pointwise (absent = 0)"""
        try:
            k, v = s.target.elts[0].id, s.target.elts[1].id
            it = s.iter
            assert isinstance(it, ast.Call) and it.func.attr == "items" and not it.args and not it.keywords
            delta = self.env.get(it.func.value.id)
            assert isinstance(delta, Coefs)
            assert len(s.body) == 1 and isinstance(s.body[0], ast.If)
            i = s.body[0]
            d = i.test.comparators[0].id
            assert isinstance(self.env.get(d), EnvExpr)
            want_test = "Compare(left=Name(id='%s', ctx=Load()), ops=[In()], comparators=[Name(id='%s', ctx=Load())])" % (k, d)
            assert ast.dump(i.test) == want_test
            want_then = ast.dump(ast.parse("%s[%s] = %s[%s] + %s" % (d, k, d, k, v)).body[0])
            want_then2 = ast.dump(ast.parse("%s[%s] = %s + %s[%s]" % (d, k, v, d, k)).body[0])
            want_else = ast.dump(ast.parse("%s[%s] = %s" % (d, k, v)).body[0])
            assert len(i.body) == 1 and ast.dump(i.body[0]) in (want_then, want_then2)
            assert len(i.orelse) == 1 and ast.dump(i.orelse[0]) == want_else
            return d, EnvExpr("param", delta.name)
        except (AssertionError, AttributeError, IndexError, TypeError):
            return None

    # ---------------------------------------------------------------- expressions
    def ev(self, e):
        if isinstance(e, ast.Constant):
            v = e.value
            if isinstance(v, float):
                return Fraction(v)
            if v is None or isinstance(v, (bool, int, str)):
                return v
            _fail(e, "unsupported literal")
        if isinstance(e, ast.Name):
            if e.id in self.env:
                return self.env[e.id]
            _fail(e, "unknown name")
        if isinstance(e, (ast.Tuple, ast.List)):
            vals = tuple(self.ev(x) for x in e.elts)
            return list(vals) if isinstance(e, ast.List) else vals
        if isinstance(e, ast.Dict):
            out = {}
            for k, v in zip(e.keys, e.values):
                if not (isinstance(k, ast.Constant) and isinstance(k.value, str)):
                    _fail(e, "dict literal with a non-literal key")
                out[k.value] = self.ev(v)
            return out
        if isinstance(e, ast.JoinedStr):
            out = ""
            for p in e.values:
                if isinstance(p, ast.Constant):
                    out += str(p.value)
                elif isinstance(p, ast.FormattedValue) and p.format_spec is None and p.conversion == -1:
                    v = norm_num(self.ev(p.value))
                    if not isinstance(v, (int, str)) or isinstance(v, bool):
                        _fail(e, "f-string of a non-concrete value")
                    out += str(v)
                else:
                    _fail(e, "unsupported f-string")
            return out
        if isinstance(e, ast.UnaryOp):
            v = self.ev(e.operand)
            if isinstance(e.op, ast.USub):
                return self.neg(v, e)
            if isinstance(e.op, ast.Not) and isinstance(v, bool):
                return not v
            _fail(e, "unsupported unary operator")
        if isinstance(e, ast.BinOp):
            return self.binop(e.op, self.ev(e.left), self.ev(e.right), e)
        if isinstance(e, ast.Compare):
            return self.compare(e)
        if isinstance(e, ast.IfExp):
            t = self.ev(e.test)
            if isinstance(t, (list, tuple)) and not isinstance(t, E):
                t = bool(t)
            if not isinstance(t, bool):
                _fail(e, "conditional expression on a non-concrete test")
            return self.ev(e.body if t else e.orelse)
        if isinstance(e, ast.Attribute):
            return self.attribute(e)
        if isinstance(e, ast.Subscript):
            return self.subscript(e)
        if isinstance(e, ast.Call):
            return self.call(e)
        _fail(e, "unsupported expression %s" % type(e).__name__)

    def neg(self, v, node):
        if isinstance(v, Opaque):
            return v
        if is_num(v):
            return -v
        if isinstance(v, E):
            return E(("neg", v))
        if isinstance(v, Mat):
            return Mat(*[E(("neg", x)) for x in v.flat()])
        if isinstance(v, Vec):
            return Vec([E(("neg", x)) for x in v.items])
        _fail(node, "cannot negate")

    def binop(self, op, a, b, node):
        if isinstance(a, Opaque) or isinstance(b, Opaque):
            return Opaque("arith")
        if isinstance(op, ast.MatMult):
            if isinstance(a, Mat) and isinstance(b, Mat):
                A, B = a.r, b.r
                return Mat(*[E(("add", E(("mul", A[i][0], B[0][j])), E(("mul", A[i][1], B[1][j]))))
                             for i in (0, 1) for j in (0, 1)])
            _fail(node, "matrix product of non-matrices")
        tag = {ast.Add: "add", ast.Sub: "sub", ast.Mult: "mul", ast.Div: "div"}.get(type(op))
        if isinstance(op, ast.Pow):
            n = as_int(b, node)
            if n < 0:
                _fail(node, "negative exponent")
            if is_num(a):
                return norm_num(Fraction(a) ** n)
            return E(("pow", lift(a, node), n))
        if tag is None:
            _fail(node, "unsupported operator")
        if is_num(a) and is_num(b):
            fa, fb = Fraction(a), Fraction(b)
            if tag == "div":
                if fb == 0:
                    _fail(node, "division by zero")
                return norm_num(fa / fb)
            return norm_num({"add": fa + fb, "sub": fa - fb, "mul": fa * fb}[tag])
        if isinstance(a, (Mat, Vec)) or isinstance(b, (Mat, Vec)):
            if isinstance(a, Vec) and not isinstance(b, (Mat, Vec)) and tag in ("mul", "div"):
                return Vec([E((tag, x, lift(b, node))) for x in a.items])
            if isinstance(a, Mat) and not isinstance(b, (Mat, Vec)) and tag in ("mul", "div"):
                return Mat(*[E((tag, x, lift(b, node))) for x in a.flat()])
            if isinstance(a, Mat) and isinstance(b, Mat) and tag in ("add", "sub"):
                return Mat(*[E((tag, x, y)) for x, y in zip(a.flat(), b.flat())])
            _fail(node, "unsupported matrix/vector arithmetic")
        return E((tag, lift(a, node), lift(b, node)))

    def compare(self, e: ast.Compare):
        if len(e.ops) != 1:
            _fail(e, "chained comparison")
        op = e.ops[0]
        a, b = self.ev(e.left), self.ev(e.comparators[0])
        if isinstance(op, (ast.Is, ast.IsNot)):
            if isinstance(a, Opaque) or isinstance(b, Opaque):
                _fail(e, "identity test on an untranslated value")
            if b is None or a is None:
                r = (a is None and b is None)
                return r if isinstance(op, ast.Is) else (not r)
            _fail(e, "identity test on non-None")
        sym = isinstance(a, E) or isinstance(b, E)
        if sym:
            if isinstance(op, ast.Gt):
                return E(("gt", lift(a, e), lift(b, e)))
            if isinstance(op, ast.Lt):
                return E(("gt", lift(b, e), lift(a, e)))
            _fail(e, "unsupported symbolic comparison")
        conc = (int, Fraction, str, bool, type(None))
        if isinstance(a, conc) and isinstance(b, conc):
            if isinstance(op, ast.Eq):
                return a == b
            if isinstance(op, ast.NotEq):
                return a != b
            if is_num(a) and is_num(b):
                if isinstance(op, ast.Lt):
                    return a < b
                if isinstance(op, ast.LtE):
                    return a <= b
                if isinstance(op, ast.Gt):
                    return a > b
                if isinstance(op, ast.GtE):
                    return a >= b
        _fail(e, "unsupported comparison")

    def attribute(self, e: ast.Attribute):
        if isinstance(e.value, ast.Name) and e.value.id in ("math", "np", "numpy", "torch") \
                and e.value.id not in self.env:
            if e.attr == "pi":
                return E(("pi",))
            return Opaque("module attribute %s.%s" % (e.value.id, e.attr))
        v = self.ev(e.value)
        if isinstance(v, SelfObj):
            if e.attr == "wavelength":
                return E(("var", "lambda"))
            return Opaque("self." + e.attr)
        if isinstance(v, Mat) and e.attr in ("T", "mT"):
            return Mat(v.r[0][0], v.r[1][0], v.r[0][1], v.r[1][1])
        if isinstance(v, Opaque) or e.attr in ("device", "dtype", "shape"):
            return Opaque("attribute " + e.attr)
        _fail(e, "unsupported attribute")

    def subscript(self, e: ast.Subscript):
        v = self.ev(e.value)
        sl = e.slice
        if isinstance(v, Coefs):
            k = self.ev(sl)
            if not isinstance(k, str):
                _fail(e, "coefficient key is not a concrete string")
            if not v.total:
                _fail(e, "indexing a coefficient mapping that has no 0 default (KeyError when absent)")
            return E(("coef", v.name, k))
        if isinstance(v, Mat):
            idx = self.ev(sl)
            if isinstance(idx, tuple) and len(idx) == 2 and all(x in (0, 1) and not isinstance(x, bool) for x in idx):
                return v.r[idx[0]][idx[1]]
            _fail(e, "matrix index is not a constant pair")
        if isinstance(v, dict):
            k = self.ev(sl)
            if isinstance(k, str) and k in v:
                return v[k]
            _fail(e, "lookup of a key that was not stored")
        if isinstance(v, Opaque):
            return Opaque("index")
        if isinstance(v, E):
            # pointwise reading: boolean-mask selection or a broadcasting view
            if isinstance(sl, ast.Name) and isinstance(self.env.get(sl.id), Opaque):
                return v
            if isinstance(sl, ast.Tuple) and all(
                    (isinstance(x, ast.Slice) and x.lower is None and x.upper is None and x.step is None)
                    or (isinstance(x, ast.Constant) and x.value is None) for x in sl.elts):
                return v
            _fail(e, "unsupported tensor indexing")
        if isinstance(v, (list, tuple, str)):
            i = as_int(self.ev(sl), e)
            try:
                return v[i]
            except IndexError:
                _fail(e, "index out of range")
        _fail(e, "unsupported subscript")

    def coef_lookup(self, co: Coefs, args, kwargs, node):
        if len(args) == 2 and not kwargs:
            key, dv = args
        elif len(args) == 1 and set(kwargs) <= {"default"}:
            key, dv = args[0], kwargs.get("default", Fraction(0))
        else:
            _fail(node, "unsupported coefficient lookup")
        if not isinstance(key, str):
            _fail(node, "coefficient name is not a string literal")
        if not is_num(dv) or dv != 0:
            _fail(node, "coefficient default is not 0")
        return E(("coef", co.name, key))

    def call(self, e: ast.Call):
        f = e.func
        # local getter / known functions ------------------------------------------------
        if isinstance(f, ast.Name):
            tgt = self.env.get(f.id)
            if isinstance(tgt, LocalGet):
                args = [self.ev(a) for a in e.args]
                kw = {k.arg: self.ev(k.value) for k in e.keywords}
                if len(kw) == 1:
                    kw = {"default": list(kw.values())[0]}
                return self.coef_lookup(tgt.coefs, args, kw, e)
            if f.id == "range":
                return range(*[as_int(self.ev(a), e) for a in e.args])
            if f.id == "defaultdict":
                return self.defaultdict(e)
            if f.id in ("int", "float", "len", "str", "tuple", "list"):
                args = [self.ev(a) for a in e.args]
                if any(isinstance(a, (E, Mat, Vec, Coefs)) for a in args):
                    _fail(e, "builtin applied to a symbolic value")
                if any(isinstance(a, Opaque) for a in args):
                    return Opaque(f.id)
                return {"int": int, "float": Fraction, "len": len, "str": str, "tuple": tuple, "list": list}[f.id](*args)
            if f.id in CALL_SIGS:
                return self.known_call(f.id, e)
            if f.id == "spatial_frequencies":
                sub = Exec(self.src)
                sub.grid_syms = self.grid_syms
                fd = self.src.func("spatial_frequencies")
                b = sub.bind(fd, [self.ev(a) for a in e.args], {k.arg: self.ev(k.value) for k in e.keywords}, e)
                r = sub.run(fd, b)
                self.grid_syms = sub.grid_syms
                return r
            if f.id == "_torch_polar":
                if len(e.args) != 1 or e.keywords:
                    _fail(e, "unexpected arguments")
                self.ev(e.args[0])
                return (Mat.sym("U"), Mat.sym("P"))
            if f.id == "parse_cartesian_aberration_label":
                args = [self.ev(a) for a in e.args]
                if len(args) != 1 or not isinstance(args[0], str):
                    _fail(e, "label is not concrete")
                sub = Exec(self.src)
                fd = self.src.func(f.id)
                return sub.run(fd, sub.bind(fd, args, {}, e))
            if f.id in ("polar_to_cartesian_aberrations", "cartesian_to_polar_aberrations"):
                if len(e.args) != 1 or e.keywords:
                    _fail(e, "conversion called with non-default options")
                a = self.ev(e.args[0])
                if isinstance(a, Coefs):
                    a = EnvExpr("param", a.name)
                if not isinstance(a, EnvExpr):
                    _fail(e, "conversion of a non-environment")
                return EnvExpr("app", {"polar_to_cartesian_aberrations": "polar_to_cartesian",
                                       "cartesian_to_polar_aberrations": "cartesian_to_polar"}[f.id], a)
            if f.id in self.src.funcs or f.id in ("electron_wavelength_angstrom",):
                for a in e.args:
                    self.ev(a)
                return Opaque("call " + f.id)
            _fail(e, "call of an unknown function")
        if not isinstance(f, ast.Attribute):
            _fail(e, "unsupported call")
        # module functions: torch.cos, math.sin, torch.linalg.svd ... ----------------------
        dotted = self.dotted(f)
        if dotted is not None and dotted[0] in ("torch", "math", "np", "numpy") and dotted[0] not in self.env:
            return self.module_call(dotted, e)
        # methods ---------------------------------------------------------------------------
        recv = self.ev(f.value)
        m = f.attr
        if isinstance(recv, Coefs):
            if m == "get":
                return self.coef_lookup(recv, [self.ev(a) for a in e.args],
                                        {k.arg: self.ev(k.value) for k in e.keywords}, e)
            _fail(e, "unsupported method on the coefficient mapping")
        if isinstance(recv, str):
            args = [self.ev(a) for a in e.args]
            if m in ("split", "startswith", "endswith", "strip") and all(isinstance(a, str) for a in args):
                return getattr(recv, m)(*args)
            _fail(e, "unsupported string method")
        if isinstance(recv, Opaque):
            return Opaque("method " + m)
        if m == "broadcast_to" and isinstance(recv, E):
            return recv
        if m == "square" and not e.args and not e.keywords:
            if isinstance(recv, E):
                return E(("mul", recv, recv))
            if is_num(recv):
                return recv * recv
        if m in ELEMENTWISE_ID_METHODS and not e.args and not e.keywords and isinstance(recv, (E, Mat, Vec)):
            return recv
        if m == "to" and isinstance(recv, (E, Mat, Vec)):
            return recv
        if m == "diag" and isinstance(recv, Vec) and len(recv.items) == 2 and not e.args:
            return Mat(recv.items[0], num(0), num(0), recv.items[1])
        if m == "view" and isinstance(recv, Opaque):
            return recv
        _fail(e, "unsupported method call")

    def dotted(self, f):
        parts = []
        while isinstance(f, ast.Attribute):
            parts.append(f.attr)
            f = f.value
        if isinstance(f, ast.Name):
            parts.append(f.id)
            return tuple(reversed(parts))
        return None

    def module_call(self, dotted, e: ast.Call):
        name = dotted[-1]
        mod = dotted[:-1]
        args = [self.ev(a) for a in e.args]
        if mod in (("torch",), ("math",), ("np",), ("numpy",)):
            if name in TORCH_UNARY and len(args) == 1 and not e.keywords:
                if isinstance(args[0], Opaque):
                    return Opaque(name)
                return E((TORCH_UNARY[name], lift(args[0], e)))
            if name in ("atan2", "arctan2") and len(args) == 2 and not e.keywords:
                if any(isinstance(a, Opaque) for a in args):
                    return Opaque(name)
                return E(("atan2", lift(args[0], e), lift(args[1], e)))
            if name == "remainder" and len(args) == 2 and not e.keywords:
                if any(isinstance(a, Opaque) for a in args):
                    return Opaque(name)
                return E(("rem", lift(args[0], e), lift(args[1], e)))
            if name == "square" and len(args) == 1 and not e.keywords and isinstance(args[0], E):
                return E(("mul", args[0], args[0]))
            if name == "zeros_like" and len(args) == 1 and isinstance(args[0], E):
                return num(0)
            if name == "tensor" and len(args) == 1 and is_num(args[0]):
                return args[0]
            if name == "stack" and len(args) >= 1 and isinstance(args[0], (tuple, list)) \
                    and all(isinstance(x, E) for x in args[0]):
                return Vec(args[0])
        if dotted == ("torch", "fft", "fftfreq"):
            self.grid_syms += 1
            if self.grid_syms > 2:
                _fail(e, "more than two frequency axes")
            return E(("var", ("kx0", "ky0")[self.grid_syms - 1]))
        if dotted == ("torch", "linalg", "svd") and len(args) == 1 and isinstance(args[0], Mat) and not e.keywords:
            return (Mat.sym("U"), Vec([E(("var", "s0")), E(("var", "s1"))]), Mat.sym("Vh"))
        return Opaque("call " + ".".join(dotted))

    def defaultdict(self, e: ast.Call):
        """defaultdict(lambda: torch.tensor(0.0, ...), mapping)"""
        if len(e.args) != 2 or e.keywords or not isinstance(e.args[0], ast.Lambda):
            _fail(e, "unsupported defaultdict")
        lam = e.args[0]
        if lam.args.args or lam.args.vararg or lam.args.kwarg:
            _fail(e, "default factory takes arguments")
        dv = self.ev(lam.body)
        if not is_num(dv) or dv != 0:
            _fail(e, "default coefficient is not the literal 0")
        m = self.ev(e.args[1])
        if not isinstance(m, Coefs):
            _fail(e, "defaultdict over a non-coefficient mapping")
        return Coefs(m.name, total=True)

    def known_call(self, fname, e: ast.Call):
        roles, outs = CALL_SIGS[fname]
        fd = self.src.func(fname)
        if len(fd.args.args) != len(roles):
            _fail(fd, "signature of %s changed (expected %d parameters)" % (fname, len(roles)))
        b = self.bind(fd, [self.ev(a) for a in e.args], {k.arg: self.ev(k.value) for k in e.keywords}, e)
        by_role = {r: b[p.arg] for r, p in zip(roles, fd.args.args)}
        res = []
        for o in outs:
            args = []
            for r in CALL_ORDER[o]:
                v = by_role[r]
                if r == "coefs":
                    if not isinstance(v, Coefs):
                        _fail(e, "coefficient argument is not the coefficient mapping")
                    args.append(EnvRef(v.name))
                else:
                    args.append(lift(v, e))
            res.append(E(("call", o, tuple(args))))
        return tuple(res)


# ------------------------------------------------------------------------------------------
# printing and evaluation of IR


def coq_num(fr: Fraction) -> str:
    if fr.denominator == 1:
        return "%d" % fr.numerator if fr.numerator >= 0 else "(-%d)" % (-fr.numerator)
    s = "(%d / %d)" % (abs(fr.numerator), fr.denominator)
    return s if fr > 0 else "(- %s)" % s


def coq(e) -> str:
    if isinstance(e, EnvRef):
        return e.name
    t = e[0]
    if t == "num":
        return coq_num(e[1])
    if t == "var":
        return e[1]
    if t == "pi":
        return "PI"
    if t == "coef":
        return '(%s "%s"%%string)' % (e[1], e[2])
    if t in ("add", "sub", "mul", "div"):
        return "(%s %s %s)" % (coq(e[1]), {"add": "+", "sub": "-", "mul": "*", "div": "/"}[t], coq(e[2]))
    if t == "neg":
        return "(- %s)" % coq(e[1])
    if t == "pow":
        return "(%s ^ %d)" % (coq(e[1]), e[2])
    if t in ("cos", "sin", "sqrt"):
        return "(%s %s)" % (t, coq(e[1]))
    if t == "abs":
        return "(Rabs %s)" % coq(e[1])
    if t == "atan2":
        return "(atan2 %s %s)" % (coq(e[1]), coq(e[2]))
    if t == "rem":
        return "(rem %s %s)" % (coq(e[1]), coq(e[2]))
    if t == "ite":
        c = e[1]
        assert c[0] == "gt"
        return "(if Rlt_dec %s %s then %s else %s)" % (coq(c[2]), coq(c[1]), coq(e[2]), coq(e[3]))
    if t == "mc":
        return "(m%d%d %s)" % (e[2], e[3], e[1])
    if t == "call":
        return "(%s %s)" % (e[1], " ".join(coq(a) for a in e[2]))
    raise TranslateError("cannot print IR node %r" % (t,))


def check_closed(e, what):
    if contains(e, "old"):
        raise TranslateError("%s: placeholder left in output" % what)


class GenFn:
    """kind: 'expr' (body: E), 'table' (body: dict label -> E, keyed by the last 'label' param),
    'mat' (body: Mat), 'env' (body: EnvExpr)"""

    def __init__(self, name, params, kind, body, doc=""):
        self.name, self.params, self.kind, self.body, self.doc = name, params, kind, body, doc


PTYPES = {"env": "env", "R": "R", "mat": "mat2", "label": "string"}


class Translation:
    def __init__(self):
        self.fns: dict[str, GenFn] = {}
        self.polar_symbols = ()
        self.polar_aliases = {}
        self.all_labels = ()
        self.presets = {}
        self.validators_symbols = ()
        self.validators_aliases = {}
        self.default_probe_keys = ()
        self.guards = {}
        self.order = []

    def add(self, fn: GenFn):
        self.fns[fn.name] = fn
        self.order.append(fn.name)

    # ------------------------------------------------------------------ Coq
    def emit_coq(self) -> str:
        out = ["(* GENERATED by harness/translate_chi.py from the current quantem sources — do not edit *)",
               "From Coq Require Import Reals String List.",
               "From QV.lib Require Import C12_RealLib.",
               "Import ListNotations.",
               "Open Scope R_scope.",
               ""]

        def strlist(xs):
            return "[" + "; ".join('"%s"%%string' % x for x in xs) + "]"

        out.append("Definition polar_symbols : list string := %s." % strlist(self.polar_symbols))
        out.append("Definition polar_aliases : list (string * string) := [%s]." % "; ".join(
            '("%s"%%string, "%s"%%string)' % kv for kv in self.polar_aliases.items()))
        out.append("Definition all_labels : list string := %s." % strlist(self.all_labels))
        out.append("(* ABERRATION_PRESETS (direct_ptycho_utils.py), every preset *)")
        out.append("Definition presets : list (string * list string) := [%s]." % "; ".join(
            '("%s"%%string, %s)' % (k, strlist(v)) for k, v in self.presets.items()))
        out.append("(* the tables local to validators.validate_aberration_coefficients *)")
        out.append("Definition validators_polar_symbols : list string := %s." % strlist(self.validators_symbols))
        out.append("Definition validators_polar_aliases : list (string * string) := [%s]." % "; ".join(
            '("%s"%%string, "%s"%%string)' % kv for kv in self.validators_aliases.items()))
        out.append("(* keys of probe_models.ProbeBase.DEFAULT_PROBE_PARAMS *)")
        out.append("Definition default_probe_keys : list string := %s." % strlist(self.default_probe_keys))
        out.append("")
        for name in self.order:
            fn = self.fns[name]
            ps = " ".join("(%s : %s)" % (p, PTYPES[k]) for p, k in fn.params)
            if fn.doc:
                out.append("(* %s *)" % fn.doc)
            if fn.kind == "expr":
                out.append("Definition %s %s : R :=\n  %s.\n" % (name, ps, coq(fn.body)))
            elif fn.kind == "table":
                lp = [p for p, k in fn.params if k == "label"][0]
                body = ""
                for k, v in fn.body.items():
                    body += '  if String.eqb %s "%s" then %s else\n' % (lp, k, coq(v))
                out.append("Definition %s %s : R :=\n%s  0.\n" % (name, ps, body))
            elif fn.kind == "mat":
                out.append("Definition %s %s : mat2 :=\n  mk2 %s.\n" % (
                    name, ps, "\n      ".join(coq(x) for x in fn.body.flat())))
            elif fn.kind == "env":
                out.append("Definition %s %s : env :=\n  %s.\n" % (name, ps, self.coq_env(fn.body)))
        return "\n".join(out)

    def coq_env(self, ee: EnvExpr) -> str:
        t = ee.t
        if t[0] == "param":
            return t[1]
        if t[0] == "app":
            return "(%s %s)" % (t[1], self.coq_env(t[2]))
        if t[0] == "add":
            return "(fun l : string => %s l + %s l)" % (self.coq_env(t[1]), self.coq_env(t[2]))
        raise TranslateError("bad env expression")

    # ------------------------------------------------------------------ float evaluation
    def evalf(self, name, **kw):
        """evaluate generated function `name` in Python floats; env params are dicts
        (absent key = 0.0), mat params are ((a,b),(c,d)), label param a string"""
        fn = self.fns[name]
        missing = [p for p, _ in fn.params if p not in kw]
        if missing:
            raise KeyError("missing %s for %s" % (missing, name))
        if fn.kind == "expr":
            return self._ev(fn.body, kw)
        if fn.kind == "table":
            lp = [p for p, k in fn.params if k == "label"][0]
            b = fn.body.get(kw[lp])
            return 0.0 if b is None else self._ev(b, kw)
        if fn.kind == "mat":
            f = [self._ev(x, kw) for x in fn.body.flat()]
            return ((f[0], f[1]), (f[2], f[3]))
        if fn.kind == "env":
            return self._ev_env(fn.body, kw)
        raise KeyError(name)

    def _ev_env(self, ee, kw):
        t = ee.t
        if t[0] == "param":
            d = kw[t[1]]
            return d if callable(d) else (lambda k, d=d: float(d.get(k, 0.0)))
        if t[0] == "app":
            inner = self._ev_env(t[2], kw)
            fn = self.fns[t[1]]
            envp = [p for p, k in fn.params if k == "env"][0]
            labp = [p for p, k in fn.params if k == "label"][0]
            return lambda k: self.evalf(t[1], **{envp: inner, labp: k})
        if t[0] == "add":
            a, b = self._ev_env(t[1], kw), self._ev_env(t[2], kw)
            return lambda k: a(k) + b(k)
        raise KeyError(t[0])

    def _ev(self, e, kw):
        t = e[0]
        if t == "num":
            return float(e[1])
        if t == "var":
            return float(kw[e[1]])
        if t == "pi":
            return math.pi
        if t == "coef":
            d = kw[e[1]]
            return float(d(e[2])) if callable(d) else float(d.get(e[2], 0.0))
        if t == "add":
            return self._ev(e[1], kw) + self._ev(e[2], kw)
        if t == "sub":
            return self._ev(e[1], kw) - self._ev(e[2], kw)
        if t == "mul":
            return self._ev(e[1], kw) * self._ev(e[2], kw)
        if t == "div":
            return self._ev(e[1], kw) / self._ev(e[2], kw)
        if t == "neg":
            return -self._ev(e[1], kw)
        if t == "pow":
            return self._ev(e[1], kw) ** e[2]
        if t == "cos":
            return math.cos(self._ev(e[1], kw))
        if t == "sin":
            return math.sin(self._ev(e[1], kw))
        if t == "sqrt":
            return math.sqrt(self._ev(e[1], kw))
        if t == "abs":
            return abs(self._ev(e[1], kw))
        if t == "atan2":
            return math.atan2(self._ev(e[1], kw), self._ev(e[2], kw))
        if t == "rem":
            a, b = self._ev(e[1], kw), self._ev(e[2], kw)
            return a - b * math.floor(a / b)
        if t == "ite":
            c = e[1]
            return self._ev(e[2], kw) if self._ev(c[1], kw) > self._ev(c[2], kw) else self._ev(e[3], kw)
        if t == "mc":
            return float(kw[e[1]][e[2]][e[3]])
        if t == "call":
            fn = self.fns[e[1]]
            sub = {}
            for (p, k), a in zip(fn.params, e[2]):
                sub[p] = kw[a.name] if isinstance(a, EnvRef) else self._ev(a, kw)
            return self.evalf(e[1], **sub)
        raise KeyError(t)


# ------------------------------------------------------------------------------------------
# drivers


def _need_E(v, what):
    if not isinstance(v, E):
        raise TranslateError("%s: result is not a closed real expression (%s)" % (what, type(v).__name__))
    if contains(v, "old"):
        raise TranslateError("%s: placeholder left in output" % what)
    return v


def _params_of(fd, n, what):
    names = [a.arg for a in fd.args.args]
    if len(names) < n:
        raise TranslateError("%s: expected at least %d parameters, found %s" % (what, n, names))
    return names


def _local_literals(fdef, names):
    """literal values assigned (once, at the top level of the body) to the given names"""
    out = {}
    for n in fdef.body:
        if isinstance(n, ast.Assign) and len(n.targets) == 1 and isinstance(n.targets[0], ast.Name) \
                and n.targets[0].id in names:
            if n.targets[0].id in out:
                raise TranslateError("%s assigned twice in %s" % (n.targets[0].id, fdef.name))
            try:
                out[n.targets[0].id] = ast.literal_eval(n.value)
            except Exception:  # noqa
                raise TranslateError("%s in %s is not a literal" % (n.targets[0].id, fdef.name))
    return out


def _imports_from_complex_probe(tree, name):
    for n in ast.walk(tree):
        if isinstance(n, ast.ImportFrom) and (n.module or "").endswith("complex_probe"):
            if any(a.name == name and a.asname in (None, name) for a in n.names):
                return True
    return False


def _validators_tables(src_root: Path, T):
    """POLAR_SYMBOLS / POLAR_ALIASES as seen by validators.validate_aberration_coefficients: its own
    literal copies, or (accepted as identical) the names imported from complex_probe"""
    path = Path(src_root) / "quantem" / "core" / "utils" / "validators.py"
    tree = ast.parse(path.read_text())
    fd = [n for n in tree.body if isinstance(n, ast.FunctionDef) and n.name == "validate_aberration_coefficients"]
    if len(fd) != 1:
        raise TranslateError("validators.validate_aberration_coefficients not found")
    loc = _local_literals(fd[0], ("POLAR_SYMBOLS", "POLAR_ALIASES"))
    res = {}
    for name, fallback in (("POLAR_SYMBOLS", T.polar_symbols), ("POLAR_ALIASES", T.polar_aliases)):
        if name in loc:
            res[name] = loc[name]
        elif _imports_from_complex_probe(tree, name):
            res[name] = fallback
        else:
            mod = [n for n in tree.body if isinstance(n, ast.Assign) and len(n.targets) == 1
                   and isinstance(n.targets[0], ast.Name) and n.targets[0].id == name]
            if len(mod) != 1:
                raise TranslateError("validators.py: cannot find the table %s used by "
                                     "validate_aberration_coefficients" % name)
            try:
                res[name] = ast.literal_eval(mod[0].value)
            except Exception:  # noqa
                raise TranslateError("validators.py: %s is not a literal" % name)
    sy, al = res["POLAR_SYMBOLS"], res["POLAR_ALIASES"]
    if not (isinstance(sy, (tuple, list)) and all(isinstance(x, str) for x in sy) and isinstance(al, dict)
            and all(isinstance(k, str) and isinstance(v, str) for k, v in al.items())):
        raise TranslateError("validators.py: tables are not (tuple of strings, dict of strings)")
    return tuple(sy), dict(al)


def _default_probe_keys(src_root: Path):
    path = Path(src_root) / "quantem" / "diffractive_imaging" / "probe_models.py"
    tree = ast.parse(path.read_text())
    for n in tree.body:
        if isinstance(n, ast.ClassDef) and n.name == "ProbeBase":
            for m in n.body:
                if isinstance(m, ast.Assign) and len(m.targets) == 1 and isinstance(m.targets[0], ast.Name) \
                        and m.targets[0].id == "DEFAULT_PROBE_PARAMS" and isinstance(m.value, ast.Dict):
                    keys = []
                    for k in m.value.keys:
                        if not (isinstance(k, ast.Constant) and isinstance(k.value, str)):
                            raise TranslateError("ProbeBase.DEFAULT_PROBE_PARAMS has a non-literal key")
                        keys.append(k.value)
                    return tuple(keys)
    raise TranslateError("ProbeBase.DEFAULT_PROBE_PARAMS (dict literal) not found in probe_models.py")


def translate(src_root: Path) -> Translation:
    src = Sources(src_root)
    T = Translation()
    T.polar_symbols = tuple(src.const("POLAR_SYMBOLS"))
    T.polar_aliases = dict(src.const("POLAR_ALIASES"))
    presets = src.const("ABERRATION_PRESETS")
    T.presets = presets
    T.all_labels = tuple(presets["all"])
    if not all(isinstance(x, str) for x in T.polar_symbols + T.all_labels):
        raise TranslateError("symbol tables are not tuples of strings")
    if not (isinstance(presets, dict) and all(isinstance(k, str) and isinstance(v, (list, tuple))
                                              and all(isinstance(x, str) for x in v) for k, v in presets.items())):
        raise TranslateError("ABERRATION_PRESETS is not a dict of lists of strings")
    if not all(isinstance(k, str) and isinstance(v, str) for k, v in T.polar_aliases.items()):
        raise TranslateError("POLAR_ALIASES is not a dict of strings")
    T.validators_symbols, T.validators_aliases = _validators_tables(src_root, T)
    T.default_probe_keys = _default_probe_keys(src_root)
    A, P, L = E(("var", "alpha")), E(("var", "phi")), E(("var", "lambda"))

    # aberration_surface ------------------------------------------------------------------
    fd = src.func("aberration_surface")
    n = _params_of(fd, 4, "aberration_surface")
    if len(n) != 4:
        raise TranslateError("aberration_surface: signature changed: %s" % n)
    ex = Exec(src)
    r = ex.run(fd, {n[0]: A, n[1]: P, n[2]: L, n[3]: Coefs("c")})
    T.guards["aberration_surface"] = ex.guards
    T.add(GenFn("chi_polar", [("c", "env"), ("alpha", "R"), ("phi", "R"), ("lambda", "R")], "expr",
                _need_E(r, "aberration_surface"), "complex_probe.aberration_surface"))

    # polar gradients -----------------------------------------------------------------------
    fd = src.func("aberration_surface_polar_gradients")
    n = _params_of(fd, 3, "aberration_surface_polar_gradients")
    if len(n) != 3:
        raise TranslateError("aberration_surface_polar_gradients: signature changed: %s" % n)
    ex = Exec(src)
    r = ex.run(fd, {n[0]: A, n[1]: P, n[2]: Coefs("c")})
    T.guards["aberration_surface_polar_gradients"] = ex.guards
    if not (isinstance(r, tuple) and not isinstance(r, E) and len(r) == 2):
        raise TranslateError("aberration_surface_polar_gradients does not return a pair")
    for nm, v in zip(("dchi_dk", "dchi_dphi"), r):
        T.add(GenFn(nm, [("c", "env"), ("alpha", "R"), ("phi", "R")], "expr", _need_E(v, nm),
                    "complex_probe.aberration_surface_polar_gradients"))

    # cartesian gradients -------------------------------------------------------------------
    fd = src.func("aberration_surface_cartesian_gradients")
    n = _params_of(fd, 3, "aberration_surface_cartesian_gradients")
    if len(n) != 3:
        raise TranslateError("aberration_surface_cartesian_gradients: signature changed: %s" % n)
    r = Exec(src).run(fd, {n[0]: A, n[1]: P, n[2]: Coefs("c")})
    if not (isinstance(r, tuple) and not isinstance(r, E) and len(r) == 2):
        raise TranslateError("aberration_surface_cartesian_gradients does not return a pair")
    for nm, v in zip(("dchi_dx", "dchi_dy"), r):
        T.add(GenFn(nm, [("c", "env"), ("alpha", "R"), ("phi", "R")], "expr", _need_E(v, nm),
                    "complex_probe.aberration_surface_cartesian_gradients"))

    # cartesian basis ------------------------------------------------------------------------
    fd = src.func("aberration_surface_cartesian_basis")
    n = _params_of(fd, 4, "aberration_surface_cartesian_basis")
    if len(n) != 4:
        raise TranslateError("aberration_surface_cartesian_basis: signature changed: %s" % n)
    tab = {}
    for lab in T.all_labels:
        r = Exec(src).run(fd, {n[0]: A, n[1]: P, n[2]: L, n[3]: [lab]})
        # torch.stack(out, dim=-1) of a one-element list
        if isinstance(r, Vec) and len(r.items) == 1:
            tab[lab] = _need_E(r.items[0], "basis " + lab)
        else:
            raise TranslateError("aberration_surface_cartesian_basis: unexpected result for label %s" % lab)
    T.add(GenFn("basis", [("l", "label"), ("alpha", "R"), ("phi", "R"), ("lambda", "R")], "table", tab,
                "complex_probe.aberration_surface_cartesian_basis, one column per label"))

    # conversions ---------------------------------------------------------------------------
    for pyname, cname in (("polar_to_cartesian_aberrations", "polar_to_cartesian"),
                          ("cartesian_to_polar_aberrations", "cartesian_to_polar")):
        fd = src.func(pyname)
        ex = Exec(src)
        b = ex.bind(fd, [Coefs("c")], {})
        r = ex.run(fd, b)
        if not isinstance(r, dict) or not r:
            raise TranslateError("%s does not return a dict" % pyname)
        tab = {k: _need_E(lift(v), "%s[%s]" % (pyname, k)) for k, v in r.items()}
        T.add(GenFn(cname, [("c", "env"), ("l", "label")], "table", tab, "complex_probe." + pyname))

    # merge ----------------------------------------------------------------------------------
    fd = src.func("merge_aberration_coefficients")
    n = _params_of(fd, 2, "merge_aberration_coefficients")
    if len(n) != 2:
        raise TranslateError("merge_aberration_coefficients: signature changed")
    r = Exec(src).run(fd, {n[0]: Coefs("init"), n[1]: Coefs("delta")})
    if not isinstance(r, EnvExpr):
        raise TranslateError("merge_aberration_coefficients: result is not a coefficient environment")
    T.add(GenFn("merge_coefs", [("init", "env"), ("delta", "env")], "env", r,
                "complex_probe.merge_aberration_coefficients"))

    # grid rotation, polar coordinates -------------------------------------------------------
    fd = src.func("_passively_rotate_grid")
    n = _params_of(fd, 3, "_passively_rotate_grid")
    r = Exec(src).run(fd, {n[0]: E(("var", "kx")), n[1]: E(("var", "ky")), n[2]: E(("var", "theta"))})
    if not (isinstance(r, tuple) and len(r) == 2):
        raise TranslateError("_passively_rotate_grid does not return a pair")
    for nm, v in zip(("rot_kx", "rot_ky"), r):
        T.add(GenFn(nm, [("theta", "R"), ("kx", "R"), ("ky", "R")], "expr", _need_E(v, nm),
                    "complex_probe._passively_rotate_grid"))
    fd = src.func("polar_coordinates")
    n = _params_of(fd, 2, "polar_coordinates")
    r = Exec(src).run(fd, {n[0]: E(("var", "kx")), n[1]: E(("var", "ky"))})
    if not (isinstance(r, tuple) and len(r) == 2):
        raise TranslateError("polar_coordinates does not return a pair")
    for nm, v in zip(("polar_k", "polar_phi"), r):
        T.add(GenFn(nm, [("kx", "R"), ("ky", "R")], "expr", _need_E(v, nm), "complex_probe.polar_coordinates"))

    # lateral shifts -------------------------------------------------------------------------
    fd = src.func("DirectPtychography._return_lateral_shifts")
    n = _params_of(fd, 4, "_return_lateral_shifts")
    if len(n) != 4:
        raise TranslateError("_return_lateral_shifts: signature changed: %s" % n)
    r = Exec(src).run(fd, {n[0]: SelfObj(), n[1]: E(("var", "theta")), n[2]: Coefs("c"), n[3]: Opaque("mask")})
    if not (isinstance(r, Vec) and len(r.items) == 2):
        raise TranslateError("_return_lateral_shifts does not return a stacked pair")
    for nm, v in zip(("lateral_shift_x", "lateral_shift_y"), r.items):
        T.add(GenFn(nm, [("c", "env"), ("theta", "R"), ("lambda", "R"), ("kx0", "R"), ("ky0", "R")], "expr",
                    _need_E(v, nm), "direct_ptychography.DirectPtychography._return_lateral_shifts at the grid "
                    "point whose unrotated spatial frequency is (kx0, ky0)"))

    # polar decomposition through the SVD ----------------------------------------------------
    fd = src.func("_torch_polar")
    n = _params_of(fd, 1, "_torch_polar")
    r = Exec(src).run(fd, {n[0]: Mat.sym("M")})
    if not (isinstance(r, tuple) and len(r) == 2 and all(isinstance(x, Mat) for x in r)):
        raise TranslateError("_torch_polar does not return two matrices")
    for nm, v in zip(("torch_polar_u", "torch_polar_p"), r):
        for x in v.flat():
            _need_E(x, nm)
            if any(y[0] == "mc" and y[1] == "M" for y in _walk(x)):
                raise TranslateError("_torch_polar uses its argument outside the SVD")
        T.add(GenFn(nm, [("U", "mat"), ("s0", "R"), ("s1", "R"), ("Vh", "mat")], "mat", v,
                    "direct_ptycho_utils._torch_polar, as a function of (U, S, Vh) = torch.linalg.svd(m)"))

    # extraction formulas of fit_aberrations_from_shifts -------------------------------------
    fd = src.func("fit_aberrations_from_shifts")
    names = [a.arg for a in fd.args.args]
    ex = Exec(src, allow_symbolic_if=True)
    b = {nm: Opaque("input") for nm in names}
    if "wavelength" in b:
        b["wavelength"] = L
    r = ex.run(fd, b)
    if not isinstance(r, dict) or not r:
        raise TranslateError("fit_aberrations_from_shifts: unexpected return value")
    T.fit_keys = []
    for k, v in r.items():
        T.fit_keys.append(k)
        T.add(GenFn("fit_" + k, [("U", "mat"), ("P", "mat")], "expr", _need_E(lift(v), "fit " + k),
                    "direct_ptycho_utils.fit_aberrations_from_shifts: returned '%s' as a function of "
                    "(U, P) = _torch_polar(M)" % k))
    return T


def _walk(e):
    if isinstance(e, E):
        yield e
        for x in e[1:]:
            yield from _walk(x)
    elif isinstance(e, tuple):
        for x in e:
            yield from _walk(x)


def main(argv=None):
    import sys
    argv = argv or sys.argv[1:]
    from .common import SRC
    T = translate(SRC)
    txt = T.emit_coq()
    if argv:
        Path(argv[0]).write_text(txt)
    else:
        print(txt)


if __name__ == "__main__":
    main()
