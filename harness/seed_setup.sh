#!/bin/bash
# usage: seed_setup.sh C09 a   -> creates /tmp/seed_C09_a (worktree of /repo HEAD) and /tmp/seed_C09_a.property.json
id=$1; tag=$2; d=/tmp/seed_${id}_${tag}
[ -d "$d" ] || git -C /repo worktree add --detach "$d" HEAD -q
python3 - "$id" "$d" <<'PY'
import json, sys
pid, d = sys.argv[1], sys.argv[2]
for l in open('/verif/properties.jsonl'):
    p = json.loads(l)
    if p['id'] == pid:
        json.dump(p, open(d + '.property.json', 'w'), indent=1)
PY
mkdir -p ${d}.out
echo "$d"
