"""c05_tie.py — tie between the SOURCE of the state-machine functions of C05 (re-read on every run) and
the facts coq/model/C05_Model.v assumes about them, as theorems re-proved on every run:

  translate   OptimizerMixin.reconnect_optimizer_to_parameters           -> gen_reconnect_script : list rtok
              PtychographyBase.to (+ the `to` of every model class)      -> gen_to_script : list ttok
              Ptychography.save                                          -> gen_save_script : list stok
              the iteration loop of Ptychography.reconstruct             -> gen_iter_script : list itok
              Ptychography._record_iter                                  -> gen_record_script : list ktok
              PtychographyBase.reset_recon / Ptychography.reset_recon    -> gen_reset_fields / _calls / _top
              PtychographyBase._store_current_iter_snapshot              -> gen_snapshot
         into build/C05/Gen_C05.v
  coqc Gen_C05.v
  coqc coq/gen_proofs/C05_GenProofs.v        FIXED script: the scripts, run by the interpreters of
                                             coq/model/C05_Tie_Model.v, compute reconnect_model / to_dev /
                                             save / iterate of the model for ALL states; the lists are the model's
  coqc coq/gen_proofs/C05_GenProperties.v    Theorem C05_*_tie + Print Assumptions

A script is the list of the EFFECTS of a function in source order: one token per statement of a recognised
shape (local variables by name).  The grammar is closed: a statement of any other shape raises Reject and
the tie is reported broken.  Renaming locals, reordering independent statements and adding statements
without effect on the modelled state change the script but not the function it computes, so the fixed
proofs still go through; capturing the old parameter list after `param_groups.clear()`, re-keying by
position, dropping the restore of the group settings / the scheduler re-binding / the move back to the
device, recording the learning rate after the scheduler step, ... change the function and the proofs fail."""
from __future__ import annotations

import ast
import hashlib
import re
import time
from pathlib import Path

from .common import COQ, COQ_FLAGS, SRC, Ctx, sh

GEN_DIR = COQ / "gen_proofs"
F_OPT = "core/ml/optimizer_mixin.py"
F_PTY = "diffractive_imaging/ptychography.py"
F_BASE = "diffractive_imaging/ptychography_base.py"
MODEL_FILES = {"obj_model": "diffractive_imaging/object_models.py", "probe_model": "diffractive_imaging/probe_models.py",
               "dset": "diffractive_imaging/dataset_models.py"}
MODEL_ORDER = ["obj_model", "probe_model", "dset"]

TRUSTED = [
    "harness/c05_tie.py (Python ast -> effect scripts; closed statement grammar, fail-closed) and the fixed meanings "
    "of coq/model/C05_Tie_Model.v: dict.copy / list comprehension over param_groups = a snapshot of the current value; "
    "param_groups.clear() + add_param_group({'params': y}) = a single new group with DEFAULT settings; d[b] = … in a "
    "loop / state.update(d) = ordered dict assignment; param_groups[0].update(saved settings) restores lr etc.; "
    "the model parameters are leaf tensors (the is_leaf filter keeps them all); `self.to(x)` = PtychographyBase.to; "
    "super().save(…) serialises the object as it is at that moment, one blob per model; statements classified "
    "'no effect on the modelled state' are exactly: argument normalisation, printing, device bookkeeping, "
    "masks / propagators / rng moves, loss accumulators, logger and progress-bar calls",
]


class Reject(Exception):
    pass


def _rej(node, why):
    raise Reject("%s at line %s: %s" % (why, getattr(node, "lineno", "?"),
                                        ast.unparse(node)[:140] if node is not None else ""))


def U(n):
    return ast.unparse(n)


def _method(tree, cls, name):
    for n in tree.body:
        if isinstance(n, ast.ClassDef) and n.name == cls:
            for f in n.body:
                if isinstance(f, ast.FunctionDef) and f.name == name:
                    return f
    raise Reject("%s.%s not found" % (cls, name))


def _body(fdef):
    b = list(fdef.body)
    if b and isinstance(b[0], ast.Expr) and isinstance(b[0].value, ast.Constant) and isinstance(b[0].value.value, str):
        b = b[1:]
    return b


def _is_print(s):
    return isinstance(s, ast.Expr) and isinstance(s.value, ast.Call) and U(s.value.func) == "print"


def cs(x):
    assert re.fullmatch(r"[\w.:=]+", x), x
    return '"%s"' % x


ID = r"[A-Za-z_]\w*"

# ---------------------------------------------------------------------------------------------------
# reconnect_optimizer_to_parameters


def tr_reconnect(fdef):
    toks = []
    body = _body(fdef)
    for s in body:
        u = U(s)
        if isinstance(s, ast.If):
            t = U(s.test)
            if t == "self._optimizer is None":
                if len(s.body) != 1 or U(s.body[0]) != "return" or s.orelse or toks:
                    _rej(s, "shape of the no-optimiser guard")
                toks.append("RGuardNoOpt")
                continue
            m = re.fullmatch(r"isinstance\((%s), torch\.Tensor\)" % ID, t)
            if m:
                # X = [X]  elif isinstance(X, Generator): X = list(X)   -- normalisation to a list
                x = m.group(1)
                ok = len(s.body) == 1 and U(s.body[0]) == "%s = [%s]" % (x, x)
                if s.orelse:
                    o = s.orelse
                    ok = ok and len(o) == 1 and isinstance(o[0], ast.If) and not o[0].orelse and \
                        U(o[0].test) == "isinstance(%s, Generator)" % x and len(o[0].body) == 1 and \
                        U(o[0].body[0]) == "%s = list(%s)" % (x, x)
                if not ok:
                    _rej(s, "shape of the list normalisation")
                continue
            m = re.fullmatch(r"not (%s)" % ID, t)
            if m:
                rest = [q for q in s.body if not _is_print(q)]
                if [U(q) for q in rest] != ["self.remove_optimizer()", "return"] or s.orelse:
                    _rej(s, "shape of the no-parameters branch")
                toks.append("RIfEmptyRemove %s" % cs(m.group(1)))
                continue
            if t in ("self._scheduler is not None and self._optimizer is not None", "self._scheduler is not None"):
                if [U(q) for q in s.body] != ["self._scheduler.optimizer = self._optimizer"] or s.orelse:
                    _rej(s, "shape of the scheduler re-binding")
                toks.append("RSchedRebind")
                continue
            _rej(s, "unrecognised if statement")
        if isinstance(s, ast.For):
            m = re.fullmatch(r"for (%s) in (%s):\n    \1\.requires_grad_\(True\)" % (ID, ID), u)
            if m:
                toks.append("RRequiresGrad %s" % cs(m.group(2)))
                continue
            toks.append(_rekey_loop(s))
            continue
        if isinstance(s, ast.Return):
            if s.value is not None:
                _rej(s, "return with a value")
            toks.append("RReturn")
            continue
        for pat, mk in (
            (r"(%s) = self\.get_optimization_parameters\(\)" % ID, lambda m: "RCurrent %s" % cs(m.group(1))),
            (r"(%s) = \[(%s) for \2 in (%s) if isinstance\(\2, torch\.Tensor\) and \2\.is_leaf\]" % (ID, ID, ID),
             lambda m: "RFilterLeaf %s %s" % (cs(m.group(1)), cs(m.group(3)))),
            (r"(%s) = self\._optimizer\.state\.copy\(\)" % ID, lambda m: "RSaveState %s" % cs(m.group(1))),
            (r"(%s) = \[(%s) for (%s) in self\._optimizer\.param_groups for \2 in \3\['params'\]\]" % (ID, ID, ID),
             lambda m: "RSaveParams %s" % cs(m.group(1))),
            (r"(%s) = self\._optimizer\.param_groups\[0\]\.copy\(\)" % ID, lambda m: "RSaveGroup %s" % cs(m.group(1))),
            (r"self\._optimizer\.param_groups\.clear\(\)", lambda m: "RClearGroups"),
            (r"self\._optimizer\.add_param_group\(\{'params': (%s)\}\)" % ID, lambda m: "RAddGroup %s" % cs(m.group(1))),
            (r"(%s) = \{\}" % ID, lambda m: "RNewDict %s" % cs(m.group(1))),
            (r"device = (%s)\[0\]\.device" % ID, lambda m: "RDevice %s" % cs(m.group(1))),
            (r"self\._optimizer\.state\.clear\(\)", lambda m: "RClearState"),
            (r"self\._optimizer\.state\.update\((%s)\)" % ID, lambda m: "RUpdateState %s" % cs(m.group(1))),
            (r"self\._optimizer\.param_groups\[0\]\.update\(\{(%s): (%s) for \1, \2 in (%s)\.items\(\) if \1 != 'params'\}\)"
             % (ID, ID, ID), lambda m: "RRestoreGroup %s" % cs(m.group(3))),
        ):
            m = re.fullmatch(pat, u)
            if m:
                toks.append(mk(m))
                break
        else:
            _rej(s, "unrecognised statement of reconnect_optimizer_to_parameters")
    return toks


def _rekey_loop(s):
    """for a, b in zip(X, Y): if a not in S: continue; D[b] = {}; for k, v in S[a].items(): D[b][k] = v (moved)"""
    m = re.fullmatch(r"\((%s), (%s)\)|(%s), (%s)" % (ID, ID, ID, ID), U(s.target))
    if not m or s.orelse:
        _rej(s, "loop over something else than pairs")
    a, b = (m.group(1) or m.group(3)), (m.group(2) or m.group(4))
    m = re.fullmatch(r"zip\((%s), (%s)\)" % (ID, ID), U(s.iter))
    if not m:
        _rej(s, "the re-keying loop does not run over zip(old parameters, current parameters)")
    X, Y = m.group(1), m.group(2)
    if len(s.body) != 3:
        _rej(s, "shape of the re-keying loop body")
    g, init, inner = s.body
    m = re.fullmatch(r"if %s not in (%s):\n    continue" % (a, ID), U(g))
    if not m:
        _rej(g, "guard of the re-keying loop")
    S = m.group(1)
    m = re.fullmatch(r"(%s)\[%s\] = \{\}" % (ID, b), U(init))
    if not m:
        _rej(init, "target of the re-keying loop")
    D = m.group(1)
    if not isinstance(inner, ast.For) or inner.orelse:
        _rej(inner, "copy loop")
    m = re.fullmatch(r"\((%s), (%s)\)|(%s), (%s)" % (ID, ID, ID, ID), U(inner.target))
    if not m or U(inner.iter) != "%s[%s].items()" % (S, a):
        _rej(inner, "copy loop does not run over the state of the OLD parameter")
    k, v = (m.group(1) or m.group(3)), (m.group(2) or m.group(4))
    want = "if isinstance(%s, torch.Tensor):\n    %s[%s][%s] = %s.to(device)\nelse:\n    %s[%s][%s] = %s" % (
        v, D, b, k, v, D, b, k, v)
    if len(inner.body) != 1 or U(inner.body[0]) != want:
        _rej(inner, "copy loop body")
    return "RRekey %s %s %s %s" % (cs(X), cs(Y), cs(S), cs(D))


# ---------------------------------------------------------------------------------------------------
# PtychographyBase.to and the `to` of the model classes


def tr_model_to(src_root):
    """every `to` method in the three model files: super().to(*args, **kwargs) first, and
    self.reconnect_optimizer_to_parameters() after it (at top level or under `if device is not None`)"""
    out = []
    for name in MODEL_ORDER:
        tree = ast.parse((src_root / "quantem" / MODEL_FILES[name]).read_text())
        found = 0
        for c in tree.body:
            if not isinstance(c, ast.ClassDef):
                continue
            for f in c.body:
                if isinstance(f, ast.FunctionDef) and f.name == "to":
                    b = _body(f)
                    if not b or U(b[0]) != "super().to(*args, **kwargs)":
                        _rej(f, "%s.to does not start by moving the module" % c.name)
                    is_root = any(U(x) in ("nn.Module", "torch.nn.Module") for x in c.bases)
                    if not is_root and U(b[-1]) == "return self" and not any(
                            "optim" in U(x).replace("reconnect_optimizer_to_parameters", "") or "sched" in U(x) for x in b):
                        # delegation to the `to` of a base class (checked where it is defined), possibly followed by
                        # moves of class-specific tensors (DIP models) that do not touch optimiser / scheduler
                        if any(U(x) == "self.reconnect_optimizer_to_parameters()" for x in ast.walk(f) if isinstance(x, ast.Expr)):
                            out.append((c.name, True))
                        continue
                    found += is_root
                    ok = False
                    for s in b[1:]:
                        if U(s) == "self.reconnect_optimizer_to_parameters()":
                            ok = True
                        elif isinstance(s, ast.If) and U(s.test) == "device is not None" and any(
                                U(q) == "self.reconnect_optimizer_to_parameters()" for q in s.body):
                            # device = kwargs.get('device', args[0] if args else None)
                            if not any(U(q) == "device = kwargs.get('device', args[0] if args else None)" for q in b[1:]):
                                _rej(f, "%s.to: where `device` comes from" % c.name)
                            ok = True
                    if not ok or U(b[-1]) != "return self":
                        _rej(f, "%s.to does not reconnect the optimiser after the move" % c.name)
                    out.append((c.name, True))
        if not found:
            raise Reject("no `to` method on the base model class in %s" % MODEL_FILES[name])
    return sorted(out)


def tr_to(fdef):
    toks = []
    for s in _body(fdef):
        u = U(s)
        m = re.fullmatch(r"self\.(%s)\.to\((%s)\)" % (ID, ID), u)
        if m:
            if m.group(1) not in MODEL_ORDER or m.group(2) != "dev":
                _rej(s, "move of an unknown sub-object")
            toks.append("TModelTo %d" % MODEL_ORDER.index(m.group(1)))
        elif u in ("(dev, _id) = config.validate_device(device)", "dev, _id = config.validate_device(device)",
                   "if dev != self.device:\n    self._device = dev", "self._rng_to_device(dev)") or re.fullmatch(
                r"self\.(_%s) = self\._to_torch\(self\.\1\)" % ID, u):
            toks.append("TNoModel")
        else:
            _rej(s, "unrecognised statement of PtychographyBase.to")
    return toks


# ---------------------------------------------------------------------------------------------------
# Ptychography.save


def tr_save(fdef):
    toks = []
    skipvars = {"skip"}
    for s in _body(fdef):
        u = U(s)
        if u in ("if isinstance(skip, (str, type)):\n    skip = [skip]", "skip = list(skip)"):
            toks.append("SNoEffect")
        elif isinstance(s, ast.If) and U(s.test) == "not save_raw_data":
            if s.orelse:
                _rej(s, "else branch")
            for q in s.body:
                uq = U(q)
                m = re.fullmatch(r"skip\.extend\((\[.*\])\)", uq, re.S)
                if m:
                    if sorted(ast.literal_eval(m.group(1))) != ["_dset", "dset"]:
                        _rej(q, "what is skipped without the raw data")
                    toks.append("SSkipDset")
                elif isinstance(q, ast.Assign) and U(q.targets[0]) == "self._dataset_metadata" and isinstance(q.value, ast.Dict):
                    d = {U(k): U(v) for k, v in zip(q.value.keys, q.value.values)}
                    if d.get("'learned_scan_positions_px'") != "self.dset.scan_positions_px.data.cpu()" or \
                            d.get("'learned_descan_shifts'") != "self.dset.descan_shifts.data.cpu()":
                        _rej(q, "the metadata does not carry the learned dataset parameters")
                    toks.append("SMeta")
                else:
                    _rej(q, "unrecognised statement of the no-raw-data branch")
        elif re.fullmatch(r"(%s) = skip" % ID, u):
            skipvars.add(u.split(" = ")[0])
            toks.append("SNoEffect")
        elif re.fullmatch(r"(%s) = self\.device" % ID, u):
            toks.append("SCapture %s" % cs(u.split(" = ")[0]))
        elif u == "self.to('cpu')":
            toks.append("SToCpu")
        elif re.fullmatch(r"self\.to\((%s)\)" % ID, u):
            toks.append("SToVar %s" % cs(u[8:-1]))
        elif isinstance(s, ast.If) and all(_is_print(q) for q in s.body) and not s.orelse:
            toks.append("SNoEffect")
        elif isinstance(s, ast.Expr) and isinstance(s.value, ast.Call) and U(s.value.func) == "super().save":
            kw = {k.arg: U(k.value) for k in s.value.keywords}
            if kw.get("skip") not in skipvars or [U(a) for a in s.value.args] != ["path"]:
                _rej(s, "arguments of the serialiser call")
            toks.append("SWrite")
        elif isinstance(s, ast.If) and U(s.test) == "not save_raw_data and hasattr(self, '_dataset_metadata')":
            if [U(q) for q in s.body] != ["delattr(self, '_dataset_metadata')"] or s.orelse:
                _rej(s, "removal of the temporary metadata")
            toks.append("SDelMeta")
        else:
            _rej(s, "unrecognised statement of Ptychography.save")
    return toks


# ---------------------------------------------------------------------------------------------------
# the iteration loop of reconstruct, _record_iter


def _calls(node):
    return [U(n.func) for n in ast.walk(node) if isinstance(n, ast.Call)]


def tr_iter(fdef):
    body = _body(fdef)
    loops = [s for s in body if isinstance(s, ast.For)]
    if len(loops) != 1:
        raise Reject("reconstruct: expected exactly one top-level loop (the iterations)")
    loop = loops[0]
    m = re.fullmatch(r"(%s)" % ID, U(loop.target))
    if not m or U(loop.iter) != "pbar" or loop.orelse:
        _rej(loop, "the iteration loop")
    a0 = m.group(1)
    if not any(U(s).startswith("pbar = tqdm(range(num_iters)") for s in body[:body.index(loop)]):
        raise Reject("reconstruct: pbar is not tqdm(range(num_iters), …)")
    # nothing but cache clearing after the loop, no history touched before it
    for s in body[:body.index(loop)] + body[body.index(loop) + 1:]:
        for c in _calls(s):
            if c.startswith("self._iter") or c in ("self._record_iter", "self.step_schedulers", "self.step_optimizers",
                                                   "self._store_current_iter_snapshot", "self._snapshots.append"):
                _rej(s, "history / optimiser effect outside the iteration loop")
    toks, appends, loss_name = [], set(), None
    for s in loop.body:
        u = U(s)
        calls = _calls(s)
        if isinstance(s, ast.For) and U(s.iter) == "batcher":
            want = ["self.zero_grad_all", "self.dset.forward", "self.probe_model.forward", "self.obj_model.forward",
                    "self.forward_operator", "self.detector_model.forward", "self.error_estimate",
                    "self._soft_constraints", "self.backward", "self.step_optimizers"]
            got = [c for c in calls if c in want]
            if got != want or any(c.startswith("self._iter") or c in ("self._record_iter", "self.step_schedulers")
                                  for c in calls):
                _rej(s, "the batch loop is not zero_grad; forward; loss; backward; step_optimizers")
            toks.append("IBatchStep")
        elif isinstance(s, ast.If) and U(s.test) == "batcher.has_validation":
            bad = [c for c in calls if c in ("self.backward", "self.step_optimizers", "self.step_schedulers",
                                             "self._record_iter", "self.zero_grad_all")]
            apps = [c for c in calls if c.endswith(".append") and c.startswith("self.")]
            if bad or apps != ["self._iter_val_losses.append"] or s.orelse or \
                    not any(isinstance(q, ast.With) and U(q.items[0].context_expr) == "torch.no_grad()" for q in s.body):
                _rej(s, "the validation pass")
            toks.append("IValAppend")
            appends.add("_iter_val_losses")
        elif re.fullmatch(r"self\._record_iter\((%s)\)" % ID, u):
            loss_name = u[len("self._record_iter("):-1]
            toks.append("IRecord")
        elif re.fullmatch(r"self\.step_schedulers\((%s)\)" % ID, u):
            if u[len("self.step_schedulers("):-1] != loss_name and loss_name is not None:
                _rej(s, "the schedulers see another loss than the recorded one")
            loss_name = loss_name or u[len("self.step_schedulers("):-1]
            toks.append("ISched")
        elif isinstance(s, ast.If) and "self._store_current_iter_snapshot" in calls:
            if U(s.test) != "self.store_snapshots and %s %% self.store_snapshot_every == 0" % a0 or s.orelse or \
                    [U(q) for q in s.body] != ["self._store_current_iter_snapshot()"]:
                _rej(s, "the snapshot statement")
            toks.append("ISnapshot")
            appends.add("_snapshots")
        elif u == "self._reset_iter_constraints()":
            toks.append("INoState")
        elif isinstance(s, ast.If) and U(s.test) == "self.logger is not None" and all(
                c.startswith("self.logger.") or c == "self._get_current_lrs" for c in calls) and not s.orelse:
            toks.append("INoState")
        elif isinstance(s, ast.If) and all(c == "pbar.set_description" for c in calls) and calls:
            toks.append("INoState")
        elif isinstance(s, ast.Assign) and all(isinstance(t, ast.Name) for t in s.targets) and not any(
                c.startswith("self.") for c in calls) and "self._" not in U(s.value):
            toks.append("INoState")       # local accumulators: x = 0.0, x = x / num_batches, num_batches = len(batcher)
        else:
            _rej(s, "unrecognised statement of the iteration loop")
    return toks, appends


def tr_record(fdef):
    toks, appends = [], set()
    for s in _body(fdef):
        u = U(s)
        if re.fullmatch(r"self\._iter_losses\.append\((%s)\)" % ID, u):
            if u[len("self._iter_losses.append("):-1] != fdef.args.args[1].arg:
                _rej(s, "something else than the loss of the iteration is appended")
            toks.append("KLoss")
            appends.add("_iter_losses")
        elif u == "optimizers = self.optimizers":
            continue
        elif u == "all_keys = set(self._iter_lrs.keys()) | set(optimizers.keys())":
            continue
        elif isinstance(s, ast.For):
            pat = (r"for (?P<k>%s) in all_keys:\n"
                   r"    if (?P=k) in self\._iter_lrs\.keys\(\):\n"
                   r"        if (?P=k) in optimizers\.keys\(\):\n"
                   r"            self\._iter_lrs\[(?P=k)\]\.append\(optimizers\[(?P=k)\]\.param_groups\[0\]\['lr'\]\)\n"
                   r"        else:\n"
                   r"            self\._iter_lrs\[(?P=k)\]\.append\(0\.0\)\n"
                   r"    else:\n"
                   r"        (?P<c>%s) = self\.num_iters - (?P<n>\d+)\n"
                   r"        (?P<p>%s) = \[0\.0\] \* (?P=c)\n"
                   r"        (?P=p)\.append\(optimizers\[(?P=k)\]\.param_groups\[0\]\['lr'\]\)\n"
                   r"        self\._iter_lrs\[(?P=k)\] = (?P=p)" % (ID, ID, ID))
            m = re.fullmatch(pat, u)
            if not m:
                _rej(s, "shape of the learning-rate bookkeeping")
            toks.append("KLrs %d" % int(m.group("n")))
            appends.add("_iter_lrs")
        else:
            _rej(s, "unrecognised statement of _record_iter")
    return toks, appends


# ---------------------------------------------------------------------------------------------------
# reset_recon, _store_current_iter_snapshot


def tr_reset_base(fdef):
    fields, calls = [], []
    for s in _body(fdef):
        u = U(s)
        m = re.fullmatch(r"self\.(_%s) = (\[\]|\{\})" % ID, u)
        if m:
            fields.append((m.group(1), "list" if m.group(2) == "[]" else "dict"))
            continue
        m = re.fullmatch(r"self\.((?:%s\.)?%s)\(\)" % (ID, ID), u)
        if m:
            calls.append(m.group(1))
            continue
        if u == "self.obj_model.constraints = self.obj_model.DEFAULT_CONSTRAINTS":
            calls.append("obj_model.constraints:=DEFAULT_CONSTRAINTS")
            continue
        _rej(s, "unrecognised statement of PtychographyBase.reset_recon")
    if len(set(f for f, _ in fields)) != len(fields):
        raise Reject("reset_recon assigns an attribute twice")
    return sorted(fields), sorted(calls)


def tr_reset_top(fdef):
    out = []
    for s in _body(fdef):
        u = U(s)
        if u == "super().reset_recon()":
            out.append("super.reset_recon")
        elif re.fullmatch(r"self\.(%s)\.reset_optimizer\(\)" % ID, u):
            out.append(u[5:-2])
        else:
            _rej(s, "unrecognised statement of Ptychography.reset_recon")
    return out


def tr_snapshot(fdef):
    loc, fields, appended = {}, None, False
    for s in _body(fdef):
        u = U(s)
        m = re.fullmatch(r"(%s) = (.*)" % ID, u)
        if m and isinstance(s, ast.Assign) and isinstance(s.value, ast.Call) and U(s.value.func) == "Snapshot":
            if s.value.args:
                _rej(s, "positional arguments of Snapshot")
            fields = []
            for k in s.value.keywords:
                v = U(k.value)
                if v == "self.num_iters":
                    fields.append((k.arg, "num_iters", True))
                elif v in loc:
                    fields.append((k.arg,) + loc[v])
                else:
                    mm = re.fullmatch(r"self\.(%s)" % ID, v)
                    if not mm:
                        _rej(s, "snapshot field of unknown origin")
                    fields.append((k.arg, mm.group(1), False))     # a view of the live parameters
            snapvar = m.group(1)
            continue
        if m:
            v = m.group(2)
            for pat, owned in ((r"np\.array\(self\.(%s), copy=True\)" % ID, True), (r"self\.(%s)\.copy\(\)" % ID, True),
                               (r"np\.copy\(self\.(%s)\)" % ID, True), (r"self\.(%s)" % ID, False),
                               (r"np\.asarray\(self\.(%s)\)" % ID, False), (r"np\.array\(self\.(%s), copy=False\)" % ID, False)):
                mm = re.fullmatch(pat, v)
                if mm:
                    loc[m.group(1)] = (mm.group(1), owned)
                    break
            else:
                _rej(s, "unrecognised source of a snapshot field")
            continue
        if fields is not None and u == "self._snapshots.append(%s)" % snapvar:
            appended = True
            continue
        _rej(s, "unrecognised statement of _store_current_iter_snapshot")
    if fields is None or not appended:
        raise Reject("_store_current_iter_snapshot does not append a Snapshot to self._snapshots")
    return sorted(fields)


# ---------------------------------------------------------------------------------------------------


def _clist(items, per_line=1):
    if not items:
        return "[]"
    return "[\n    " + ";\n    ".join(items) + "\n  ]"


def translate(src_root: Path):
    """-> (coq text, info)"""
    q = src_root / "quantem"
    t_opt = ast.parse((q / F_OPT).read_text())
    t_pty = ast.parse((q / F_PTY).read_text())
    t_base = ast.parse((q / F_BASE).read_text())
    funcs = {
        "reconnect": _method(t_opt, "OptimizerMixin", "reconnect_optimizer_to_parameters"),
        "to": _method(t_base, "PtychographyBase", "to"),
        "save": _method(t_pty, "Ptychography", "save"),
        "reconstruct": _method(t_pty, "Ptychography", "reconstruct"),
        "record": _method(t_pty, "Ptychography", "_record_iter"),
        "reset_base": _method(t_base, "PtychographyBase", "reset_recon"),
        "reset_top": _method(t_pty, "Ptychography", "reset_recon"),
        "snapshot": _method(t_base, "PtychographyBase", "_store_current_iter_snapshot"),
    }
    rec = tr_reconnect(funcs["reconnect"])
    to = tr_to(funcs["to"])
    mto = tr_model_to(src_root)
    sv = tr_save(funcs["save"])
    it, app1 = tr_iter(funcs["reconstruct"])
    rc, app2 = tr_record(funcs["record"])
    rf, rcalls = tr_reset_base(funcs["reset_base"])
    rtop = tr_reset_top(funcs["reset_top"])
    snap = tr_snapshot(funcs["snapshot"])
    appends = sorted(app1 | app2)
    pair = lambda a, b: "(%s, %s)" % (cs(a), cs(b))   # noqa: E731
    text = (
        "(* GENERATED by harness/c05_tie.py from the current source of %s, %s, %s and the model classes — do not edit *)\n"
        "From QV.lib Require Import Prelude.\n"
        "From QV.model Require Import C05_Model C05_Tie_Model.\n"
        "From Coq Require Import String.\nLocal Open Scope string_scope.\n\n" % (F_OPT, F_PTY, F_BASE)
        + "Definition gen_reconnect_script : list rtok := %s.\n\n" % _clist(rec)
        + "Definition gen_to_script : list ttok := %s.\n\n" % _clist(to)
        + "Definition gen_model_to_reconnects : list (string * bool) := %s.\n\n" % _clist(
            ["(%s, %s)" % (cs(c), "true" if b else "false") for c, b in mto])
        + "Definition gen_save_script : list stok := %s.\n\n" % _clist(sv)
        + "Definition gen_iter_script : list itok := %s.\n\n" % _clist(it)
        + "Definition gen_record_script : list ktok := %s.\n\n" % _clist(rc)
        + "Definition gen_reset_fields : list (string * string) := %s.\n\n" % _clist([pair(a, b) for a, b in rf])
        + "Definition gen_reset_calls : list string := %s.\n\n" % _clist([cs(c) for c in rcalls])
        + "Definition gen_reset_top : list string := %s.\n\n" % _clist([cs(c) for c in rtop])
        + "Definition gen_iter_appends : list string := %s.\n\n" % _clist([cs(c) for c in appends])
        + "Definition gen_snapshot : list (string * string * bool) := %s.\n" % _clist(
            ["(%s, %s, %s)" % (cs(a), cs(b), "true" if o else "false") for a, b, o in snap]))
    info = {"sources": {k: "%s:%d-%d" % (k, f.lineno, f.end_lineno) for k, f in funcs.items()},
            "ast_sha256": hashlib.sha256("".join(ast.dump(f) for f in funcs.values()).encode()).hexdigest(),
            "generated_sha256": hashlib.sha256(text.encode()).hexdigest(),
            "tokens": {"reconnect": len(rec), "to": len(to), "save": len(sv), "iteration": len(it), "record": len(rc)},
            "scripts": {"reconnect": rec, "save": sv, "to": to, "iteration": it, "record": rc}}
    return text, info


# ---------------------------------------------------------------------------------------------------
# cross-test of the translator: the reconnect script, run by the Coq interpreter on concrete optimiser
# states, against the REAL reconnect_optimizer_to_parameters on real torch optimisers


XPRE = """From QV.lib Require Import Prelude.
From QV.model Require Import C05_Model C05_Tie_Model.
From GenC05 Require Import Gen_C05.
Definition xrun (n : nat) (oldp : list nat) (stk : list (nat * nat)) (newp : list nat) (has_sched : bool) :=
  let h : heap Z nat Z unit :=
    {| hp := fun j => if j <? n then Some 0%Z else None;
       ho := fun j => if Nat.eqb j n then Some {| okind := SGDm; oparams := oldp;
                                                  ostate := map (fun e => (fst e, {| ps_steps := snd e; ps_mom := 1 |})) stk;
                                                  olr := 7%Z |} else None;
       hs := fun j => if andb has_sched (Nat.eqb j (S n)) then Some {| sopt := 0; slast := 3; sst := tt |} else None;
       hnext := S (S n) |} in
  let m : mdl Z := {| mparams := newp; mopt := Some n; msched := if has_sched then Some (S n) else None; mcons := 0%Z |} in
  match run_reconnect gen_reconnect_script h m with
  | None => None
  | Some (h', m') =>
    Some (match mopt m' with
          | None => None
          | Some o => match ho h' o with
                      | None => None
                      | Some ob => Some (zl (oparams ob), map (fun e => (Z.of_nat (fst e), Z.of_nat (ps_steps (snd e)))) (ostate ob),
                                         olr ob,
                                         match hs h' (S n) with Some sb => Z.of_nat (sopt sb) | None => (-1)%Z end)
                      end
          end)
  end.
"""


def cross_test(ctx: Ctx, n_cases):
    """returns a list of problems"""
    import torch
    from quantem.core.ml.optimizer_mixin import OptimizerMixin

    class Toy(OptimizerMixin):
        def __init__(self, ps):
            OptimizerMixin.__init__(self)
            self.ps = ps

        def get_optimization_parameters(self):
            return self.ps

    r = ctx.rng
    exprs, wants = [], []
    for _ in range(n_cases):
        n_old = r.randint(1, 4)
        n_new = r.choice([n_old, n_old, n_old, r.randint(0, 4)])
        old = [torch.nn.Parameter(torch.zeros(2)) for _ in range(n_old)]
        toy = Toy(list(old))
        toy.set_optimizer({"type": "sgd", "lr": 7.0, "momentum": 0.5})
        has_sched = r.random() < 0.5
        if has_sched:
            toy.set_scheduler({"type": "exp", "gamma": 1.0})
            toy._scheduler.optimizer = None        # as after unpickling apart: to be re-bound
        # state for a subset, inserted in a random order, tagged by the number of steps
        order = [i for i in range(n_old) if r.random() < 0.7]
        r.shuffle(order)
        for tag, i in enumerate(order):
            toy._optimizer.state[old[i]] = {"momentum_buffer": torch.full((2,), float(tag + 1)), "step": tag + 1}
        new = [torch.nn.Parameter(torch.zeros(2)) for _ in range(n_new)]
        toy.ps = list(new)
        lr_before = toy._optimizer.param_groups[0]["lr"]
        import contextlib
        import io
        with contextlib.redirect_stdout(io.StringIO()):
            toy.reconnect_optimizer_to_parameters()
        if toy._optimizer is None:
            want = ("Some", None)
        else:
            o = toy._optimizer
            refs = [next((j for j, q in enumerate(new) if q is p), -1) for g in o.param_groups for p in g["params"]]
            st = [(next((j for j, q in enumerate(new) if q is k), -1), int(v["step"])) for k, v in o.state.items()]
            bound = -1 if not has_sched else (0 if toy._scheduler.optimizer is o else -2)
            want = ("Some", ("Some", ([n_old + j for j in refs], [(n_old + j, t) for j, t in st],
                                      int(o.param_groups[0]["lr"]) if o.param_groups[0]["lr"] == lr_before else -1,
                                      (n_old + n_new) if bound == 0 else (0 if bound == -2 else -1))))
        # heap: cells 0..n_old-1 old, n_old..n_old+n_new-1 new, optimiser at n, scheduler at n+1 (refers to cell 0 = "another")
        n = n_old + n_new
        exprs.append("xrun %d%%nat (nl [%s]%%Z) [%s] (nl [%s]%%Z) %s" % (
            n, "; ".join(str(i) for i in range(n_old)),
            "; ".join("(%d%%nat, %d%%nat)" % (i, tag + 1) for tag, i in enumerate(order)),
            "; ".join(str(n_old + j) for j in range(n_new)), "true" if has_sched else "false"))
        wants.append(want)
    vals = ctx.coq_eval("tie_xtest", XPRE, exprs, shard=100, extra_flags=["-Q", str(ctx.dir), "GenC05"])
    problems = []
    for e, w, v in zip(exprs, wants, vals):
        if _canon(v) != _canon(w):
            problems.append("translator cross-test: %s: script gives %r, the real function %r" % (e, v, w))
            if len(problems) >= 3:
                break
    return problems


def _canon(v):
    if isinstance(v, tuple) and len(v) == 2 and v[0] == "Some":
        return ("Some", _canon(v[1]))
    if isinstance(v, (list, tuple)):
        return [_canon(x) for x in v]
    return v


def run_tie(ctx: Ctx, n_cross=200) -> bool:
    t0 = time.time()
    rec = {"status": "ok"}
    ctx.cov["source_tie"] = rec
    for s in TRUSTED:
        if s not in ctx.cov["trusted_base"]:
            ctx.cov["trusted_base"].append(s)
    saved_cmd = ctx.cov.get("checker_cmd", "")
    saved_problems = list(getattr(ctx, "_proof_problems", []))
    problems = []
    props = GEN_DIR / "C05_GenProperties.v"

    def not_checked(why):
        ths = re.findall(r"(?m)^\s*Theorem\s+(\w+)", props.read_text())
        ctx.cov["obligations"] += len(ths)
        for t in ths:
            ctx.cov["theorems"][t] = "NOT CHECKED (%s)" % why

    try:
        text, info = translate(SRC)
        rec.update(info)
    except Reject as e:
        problems.append("source tie: the state-machine facts the model assumes can no longer be established: the "
                        "translator (fail closed) rejected the current source: %s" % e)
        not_checked("translator rejected the source")
        text = None
    if text is not None:
        gen = ctx.dir / "Gen_C05.v"
        for stale in (gen.with_suffix(".vo"), ctx.dir / "C05_GenProofs.vo", ctx.dir / "C05_GenProperties.vo"):
            if stale.exists():
                stale.unlink()
        gen.write_text(text)
        rec["generated_file"] = str(gen)
        flags = COQ_FLAGS + ["-Q", str(ctx.dir), "GenC05"]
        bad = ctx.static_scan([gen, GEN_DIR / "C05_GenProofs.v", props])
        if bad:
            problems.append("forbidden declarations: %s" % bad[:5])
        rc, out = ctx.coq_make(["model/C05_Tie_Model.vo", "proof/C05_Proofs_Tie.vo"])
        if rc != 0:
            problems.append("source tie: library build failed:\n" + "\n".join(out.strip().splitlines()[-10:]))
        rc, out = sh(["timeout", "300", "coqc"] + flags + [str(gen)], cwd=ctx.dir, timeout=330)
        if rc != 0:
            problems.append("source tie: generated file Gen_C05.v does not compile:\n" + "\n".join(out.strip().splitlines()[-12:]))
            not_checked("generated file does not compile")
        else:
            script = GEN_DIR / "C05_GenProofs.v"
            rc, out = sh(["timeout", "300", "coqc"] + flags + ["-o", str(ctx.dir / "C05_GenProofs.vo"), str(script)],
                         cwd=ctx.dir, timeout=330)
            if rc != 0:
                problems.append("source tie: the effect scripts translated from the current source no longer compute what the "
                                "model assumes (reconnect_model / to_dev / save / iterate / reset and snapshot lists): fixed "
                                "proof script C05_GenProofs.v fails:\n" + "\n".join(out.strip().splitlines()[-12:]))
                not_checked("fixed proof script fails")
            elif not ctx.require_proofs(props_name="C05_GenProperties", props_path=props,
                                        extra_flags=["-Q", str(ctx.dir), "GenC05"], make_targets=[]):
                problems += ["source tie: " + p for p in ctx._proof_problems]
            try:
                xp = cross_test(ctx, n_cross)
                rec["cross_test_cases"] = n_cross
                problems += xp
            except Exception as e:  # noqa
                problems.append("translator cross-test could not run: %s: %s" % (type(e).__name__, e))
    ctx._proof_problems = saved_problems
    ctx.cov["checker_cmd"] = (saved_cmd + "  ;  python -m harness.c05_tie > build/C05/Gen_C05.v && coqc ... Gen_C05.v && "
                              "coqc ... coq/gen_proofs/C05_GenProofs.v && coqc ... coq/gen_proofs/C05_GenProperties.v")
    rec["wall_s"] = round(time.time() - t0, 2)
    if problems:
        rec["status"] = "broken"
        rec["problems"] = [p[:1500] for p in problems]
        msg = "; ".join(problems)
        ctx.broken_obligation = (ctx.broken_obligation + "; " + msg) if ctx.broken_obligation else msg
        ctx.log("PROOF OBLIGATION BROKEN (source tie):", msg[:2500])
        return False
    ctx.log("source tie: reconnect / to / save / iteration / _record_iter / reset_recon / snapshot of the current source tied "
            "by theorem to the model (%d + %d + %d + %d + %d tokens, %d cross-test cases, %.1fs)" % (
                rec["tokens"]["reconnect"], rec["tokens"]["to"], rec["tokens"]["save"], rec["tokens"]["iteration"],
                rec["tokens"]["record"], n_cross, rec["wall_s"]))
    return True


if __name__ == "__main__":
    import sys
    try:
        sys.stdout.write(translate(SRC)[0])
    except Reject as e:
        print("REJECTED:", e)
        sys.exit(1)
