"""translate_norm.py (C20) — Python `ast` -> Coq translator for
quantem/core/visualization/custom_normalizations.py (DESIGN 3.2).

On every run the check reads the CURRENT source file and emits `Gen_Norm.v`:

  <S>_domain  params : Prop            what `__post_init__` enforces (negated raise-conditions)
  <S>_call    params x : R             the body of `<S>.__call__` folded into one expression
  <S>_inverse_call params y : R        the declared inverse: target class applied to the
                                       transformed parameters read from the `inverse` property
  <S>_inverse_domain params : Prop     the domain of the target class at those parameters
  <S>_default_call x : R               the stretch at its dataclass defaults
  interval_map vmin vmax x             BaseInterval.__call__  (affine map, guarded divide, clip)
  interval_inverse vmin vmax y         BaseInterval.inverse
  ManualInterval_get_limits            (vmin vmax : option R) (dmin dmax : R) : R * R
  CenteredInterval_get_limits          (vcenter : R) (half_range : option R) (dmin dmax : R)
  QuantileInterval_get_limits          (quantile : R -> R) (lower_quantile upper_quantile : R)
  CustomNormalization_call interval stretch value       the composition of __call__
  CustomNormalization_inverse stretch_inverse interval_inverse value
  CustomNormalization_stretch_<S>      the stretch objects `__init__` may construct

The accepted grammar is deliberately small; ANYTHING else raises `TranslateError` and the check
reports a broken tie (fail closed).  Two semantic guards go beyond syntax:

  * dtype kinds.  Real arithmetic is a sound reading of a NumPy statement only when the
    statement is evaluated in a floating dtype.  Every expression carries a kind:
    `np`  (array / NumPy scalar whose dtype may be an integer type), `py` (Python scalar:
    exact, but *weak* under NEP 50, so it does not promote an integer array) and `float`
    (certainly floating: float literal, `float(e)`, `.astype(np.float64)`, result of an
    operation with a `float` operand, input of a stretch).  A binary operation whose
    operands are `np`/`np` or `np`/`py` could run in an integer dtype (wrap-around) and is
    rejected.
  * `np.min / np.max / np.quantile` of the data are accepted only after the
    `values = values[np.isfinite(values)]` filter has been seen in the same function.
"""
from __future__ import annotations

import ast
import hashlib
from fractions import Fraction
from pathlib import Path


class TranslateError(Exception):
    pass


class DtypeError(TranslateError):
    """an array operation that NumPy may evaluate in an integer dtype"""


def _fail(node, msg):
    ln = getattr(node, "lineno", "?")
    try:
        src = ast.unparse(node)
    except Exception:  # noqa
        src = repr(node)
    raise TranslateError("line %s: %s: `%s`" % (ln, msg, src[:120]))


# ------------------------------------------------------------------------------------------
# IR.  Expressions are tuples:
#   ("var", name)            real variable (parameter or input)
#   ("ovar", name)           option-typed parameter (only legal under a test of that name)
#   ("const", Fraction)
#   ("un", op, e)            op in neg ln exp sqrt arcsinh sinh abs
#   ("bin", op, a, b)        op in + - * / power max min
#   ("clip", e, lo, hi)
#   ("if", cond, then, else)
#   ("app", fname, e)        application of a function-typed parameter
#   ("pair", a, b)
# Conditions:
#   ("cmp", op, a, b) op in == != < <= > >=      ("and", [c..])   ("or", [c..])   ("not", c)
#   ("some", name)  ("none", name)               tests on option-typed parameters
# Every expression travels with its dtype kind: (expr, kind), kind in {"np", "py", "float"}.

UNARY = {"log": "ln", "exp": "exp", "sqrt": "sqrt", "arcsinh": "arcsinh", "sinh": "sinh",
         "abs": "abs", "absolute": "abs", "negative": "neg"}
BINARY = {"add": "+", "subtract": "-", "multiply": "*", "true_divide": "/", "divide": "/",
          "power": "power", "maximum": "max", "minimum": "min"}
COMMUTATIVE = {"+", "*", "max", "min"}
BINOPS = {ast.Add: "+", ast.Sub: "-", ast.Mult: "*", ast.Div: "/"}
CMPOPS = {ast.Eq: "==", ast.NotEq: "!=", ast.Lt: "<", ast.LtE: "<=", ast.Gt: ">", ast.GtE: ">="}


STRICT_DTYPE = True     # set by translate_source(strict_dtype=...)


def _join_kind(node, ka, kb):
    if "float" in (ka, kb):
        return "float"
    if ka == "py" and kb == "py":
        return "py"
    if not STRICT_DTYPE:
        return "float"
    ln = getattr(node, "lineno", "?")
    raise DtypeError("line %s: possible integer-dtype arithmetic in `%s` (operands of kind %s and %s: neither is "
                     "certainly floating, so NumPy may compute in the array's integer dtype and wrap around)"
                     % (ln, ast.unparse(node)[:100], ka, kb))


def _is_np(node, name=None):
    """np.<name> attribute"""
    return (isinstance(node, ast.Attribute) and isinstance(node.value, ast.Name) and node.value.id == "np"
            and (name is None or node.attr == name))


def _is_self_attr(node):
    return isinstance(node, ast.Attribute) and isinstance(node.value, ast.Name) and node.value.id == "self"


class Env:
    """symbolic state of one function body"""

    def __init__(self, fields, data_var=None, float_input=False):
        self.fields = fields          # name -> "R" | "optR"
        self.vars = {}                # local name -> (expr, kind)
        self.data_var = data_var      # name of the array argument
        self.filtered = False         # `values = values[np.isfinite(values)]` seen
        self.unwrapped = set()        # option fields known to be Some in the current branch
        self.float_input = float_input

    def copy(self):
        e = Env(self.fields, self.data_var, self.float_input)
        e.vars = dict(self.vars)
        e.filtered = self.filtered
        e.unwrapped = set(self.unwrapped)
        return e


class FnTranslator:
    """expression / condition translation shared by all function shapes"""

    def __init__(self, env: Env):
        self.env = env

    # ---------------------------------------------------------------- expressions
    def expr(self, n):
        env = self.env
        if isinstance(n, ast.Constant):
            if isinstance(n.value, bool) or not isinstance(n.value, (int, float)):
                _fail(n, "unsupported literal")
            if isinstance(n.value, float):
                if n.value != n.value or n.value in (float("inf"), float("-inf")):
                    _fail(n, "non-finite literal")
                return ("const", Fraction(*n.value.as_integer_ratio())), "float"
            return ("const", Fraction(n.value)), "py"
        if isinstance(n, ast.Name):
            if n.id in env.vars:
                return env.vars[n.id]
            _fail(n, "unknown name")
        if _is_self_attr(n):
            f = n.attr
            if f not in env.fields:
                _fail(n, "unknown field")
            if env.fields[f] == "optR":
                if f not in env.unwrapped:
                    _fail(n, "option-typed field used without an `is None` test")
                return ("var", f + "_some"), "py"
            return ("var", f), "py"
        if isinstance(n, ast.UnaryOp) and isinstance(n.op, ast.USub):
            e, k = self.expr(n.operand)
            if e[0] == "const":
                return ("const", -e[1]), k
            return ("un", "neg", e), k
        if isinstance(n, ast.UnaryOp) and isinstance(n.op, ast.UAdd):
            return self.expr(n.operand)
        if isinstance(n, ast.BinOp) and type(n.op) in BINOPS:
            a, ka = self.expr(n.left)
            b, kb = self.expr(n.right)
            op = BINOPS[type(n.op)]
            return ("bin", op, a, b), _join_kind(n, ka, kb)
        if isinstance(n, ast.IfExp):
            c = self.cond(n.test)
            t, kt = self._branch_expr(n.body, c, True)
            f, kf = self._branch_expr(n.orelse, c, False)
            return ("if", c, t, f), self._merge_kind(kt, kf)
        if isinstance(n, ast.Call):
            return self.call(n)
        _fail(n, "expression outside the accepted grammar")

    @staticmethod
    def _merge_kind(ka, kb):
        if ka == kb:
            return ka
        if "np" in (ka, kb):
            return "np"
        return "py"

    def _branch_expr(self, node, c, positive):
        saved = set(self.env.unwrapped)
        self.env.unwrapped |= self._known_some(c, positive)
        try:
            return self.expr(node)
        finally:
            self.env.unwrapped = saved

    @staticmethod
    def _known_some(c, positive):
        """option fields known to be Some when condition c is true (positive) / false"""
        out = set()
        if c[0] == "some" and positive:
            out.add(c[1])
        if c[0] == "none" and not positive:
            out.add(c[1])
        if c[0] == "and" and positive:
            for x in c[1]:
                out |= FnTranslator._known_some(x, True)
        if c[0] == "or" and not positive:
            for x in c[1]:
                out |= FnTranslator._known_some(x, False)
        if c[0] == "not":
            out |= FnTranslator._known_some(c[1], not positive)
        return out

    def call(self, n: ast.Call):
        env = self.env
        f = n.func
        # float(e): certainly floating afterwards, identity over R
        if isinstance(f, ast.Name) and f.id == "float" and len(n.args) == 1 and not n.keywords:
            e, _ = self.expr(n.args[0])
            return e, "float"
        if _is_np(f):
            name = f.attr
            kws = {k.arg: k.value for k in n.keywords}
            if "out" in kws:
                _fail(n, "`out=` is only accepted at statement level")
            if kws:
                _fail(n, "unsupported keyword arguments")
            if name in ("min", "max", "amin", "amax") and len(n.args) == 1:
                self._need_filtered_data(n.args[0], n)
                return ("var", "dmin" if name in ("min", "amin") else "dmax"), "np"
            if name in ("log1p", "expm1") and len(n.args) == 1:
                # log1p(e) = ln(e + 1), expm1(e) = exp(e) - 1 over R (the ufuncs only differ in rounding)
                e, _k = self.expr(n.args[0])
                one = ("const", Fraction(1))
                if name == "log1p":
                    return ("un", "ln", ("bin", "+", e, one)), "float"
                return ("bin", "-", ("un", "exp", e), one), "float"
            if name in UNARY and len(n.args) == 1:
                e, k = self.expr(n.args[0])
                op = UNARY[name]
                if op not in ("abs", "neg"):
                    k = "float"       # transcendental ufuncs return floating results
                return ("un", op, e), k
            if name in BINARY and len(n.args) == 2:
                a, ka = self.expr(n.args[0])
                b, kb = self.expr(n.args[1])
                return ("bin", BINARY[name], a, b), _join_kind(n, ka, kb)
            if name == "clip" and len(n.args) == 3:
                e, k = self.expr(n.args[0])
                lo, kl = self.expr(n.args[1])
                hi, kh = self.expr(n.args[2])
                if k != "float":
                    _fail(n, "clip of a possibly-integer array")
                return ("clip", e, lo, hi), "float"
            _fail(n, "NumPy function outside the accepted grammar")
        _fail(n, "call outside the accepted grammar")

    def _need_filtered_data(self, arg, node):
        env = self.env
        if not (isinstance(arg, ast.Name) and arg.id == env.data_var):
            _fail(node, "min/max/quantile of something other than the data argument")
        if not env.filtered:
            _fail(node, "min/max/quantile of the data before the np.isfinite filter")

    # ---------------------------------------------------------------- conditions
    def cond(self, n):
        if isinstance(n, ast.BoolOp):
            cs = [self.cond(v) for v in n.values]
            return ("and" if isinstance(n.op, ast.And) else "or", cs)
        if isinstance(n, ast.UnaryOp) and isinstance(n.op, ast.Not):
            return ("not", self.cond(n.operand))
        if isinstance(n, ast.Compare) and len(n.ops) == 1:
            op, l, r = n.ops[0], n.left, n.comparators[0]
            if isinstance(op, (ast.Is, ast.IsNot)) and isinstance(r, ast.Constant) and r.value is None:
                if not (_is_self_attr(l) and self.env.fields.get(l.attr) == "optR"):
                    _fail(n, "`is None` test on something other than an optional field")
                return ("none" if isinstance(op, ast.Is) else "some", l.attr)
            if type(op) in CMPOPS:
                a, _ = self.expr(l)
                b, _ = self.expr(r)
                return ("cmp", CMPOPS[type(op)], a, b)
        _fail(n, "condition outside the accepted grammar")


# ------------------------------------------------------------------------------------------
# statement-level symbolic execution


def _strip_doc(body):
    if body and isinstance(body[0], ast.Expr) and isinstance(body[0].value, ast.Constant) and isinstance(
            body[0].value.value, str):
        return body[1:]
    return body


def _mk_if(c, t, f):
    return t if t == f else ("if", c, t, f)


class BodyExec:
    """Folds a function body into the returned expression.  `V` is the name of the array
    variable that the statements update in place."""

    def __init__(self, env: Env, V: str, mode: str):
        self.env = env
        self.V = V
        self.mode = mode      # "array" (returns V) | "limits" (returns a pair)

    def run(self, stmts):
        r = self.block(list(stmts), self.env)
        if r[0] != "ret":
            raise TranslateError("function body does not end in a return")
        return r[1]

    def block(self, stmts, env):
        """returns ("ret", (expr, kind)) or ("cont", env)"""
        i = 0
        while i < len(stmts):
            st = stmts[i]
            tr = FnTranslator(env)
            if isinstance(st, ast.Return):
                return ("ret", self.ret_value(st, env))
            if isinstance(st, ast.If):
                if self.is_float_widening(st, env):
                    # `if values.dtype == np.float16: values = values.astype(np.float32)`: a widening of
                    # a floating array, identity over R; says nothing about integer arrays (kind unchanged)
                    i += 1
                    continue
                if self.is_dtype_cast(st, env):
                    # `if np.issubdtype(values.dtype, np.integer): values = values.astype(np.float64)`
                    # identity over R.  (A cast AFTER integer arithmetic does not make the earlier
                    # arithmetic real: kinds are checked statement by statement, so that case has
                    # already been rejected.)  From here on the array is certainly floating.
                    e, _ = env.vars[self.V]
                    env.vars[self.V] = (e, "float")
                    i += 1
                    continue
                c = tr.cond(st.test)
                env_t = env.copy()
                env_t.unwrapped |= FnTranslator._known_some(c, True)
                rt = self.block(list(st.body), env_t)
                env_f = env.copy()
                env_f.unwrapped |= FnTranslator._known_some(c, False)
                if rt[0] == "ret":
                    # early return: the rest of the block is the else-branch
                    rest = list(st.orelse) + stmts[i + 1:]
                    rf = self.block(rest, env_f)
                    if rf[0] != "ret":
                        _fail(st, "early return without a return on the other path")
                    (et, kt), (ef, kf) = rt[1], rf[1]
                    return ("ret", (_mk_if(c, et, ef), FnTranslator._merge_kind(kt, kf)))
                rf = self.block(list(st.orelse), env_f)
                if rf[0] == "ret":
                    _fail(st, "return in else-branch only")
                et_env, ef_env = rt[1], rf[1]
                for name in set(et_env.vars) | set(ef_env.vars):
                    vt, vf = et_env.vars.get(name), ef_env.vars.get(name)
                    if vt is None or vf is None:
                        _fail(st, "variable %s defined on one path only" % name)
                    env.vars[name] = (_mk_if(c, vt[0], vf[0]), FnTranslator._merge_kind(vt[1], vf[1]))
                if et_env.filtered != ef_env.filtered:
                    _fail(st, "finite filter applied on one path only")
                env.filtered = et_env.filtered
                i += 1
                continue
            if isinstance(st, ast.Expr) and isinstance(st.value, ast.Call):
                self.inplace_call(st.value, env)
                i += 1
                continue
            if isinstance(st, ast.Assign) and len(st.targets) == 1:
                self.assign(st, env)
                i += 1
                continue
            if isinstance(st, ast.AugAssign) and isinstance(st.target, ast.Name) and type(st.op) in BINOPS:
                if st.target.id not in env.vars:
                    _fail(st, "augmented assignment to an unknown name")
                a, ka = env.vars[st.target.id]
                b, kb = tr.expr(st.value)
                env.vars[st.target.id] = (("bin", BINOPS[type(st.op)], a, b), _join_kind(st, ka, kb))
                i += 1
                continue
            if isinstance(st, ast.Pass):
                i += 1
                continue
            _fail(st, "statement outside the accepted grammar")
        return ("cont", env)

    # ----------------------------------------------------------------
    def is_float_widening(self, st: ast.If, env):
        """`if V.dtype == np.float16: V = V.astype(np.float32 | np.float64 | float)`"""
        t = st.test
        ok_test = (isinstance(t, ast.Compare) and len(t.ops) == 1 and isinstance(t.ops[0], ast.Eq)
                   and isinstance(t.left, ast.Attribute) and t.left.attr == "dtype"
                   and isinstance(t.left.value, ast.Name) and t.left.value.id == self.V
                   and _is_np(t.comparators[0], "float16"))
        if not ok_test:
            return False
        if st.orelse or len(st.body) != 1:
            _fail(st, "float16 guard with an unexpected body")
        b = st.body[0]
        ok_body = (isinstance(b, ast.Assign) and len(b.targets) == 1 and isinstance(b.targets[0], ast.Name)
                   and b.targets[0].id == self.V and isinstance(b.value, ast.Call)
                   and isinstance(b.value.func, ast.Attribute) and b.value.func.attr == "astype"
                   and isinstance(b.value.func.value, ast.Name) and b.value.func.value.id == self.V
                   and len(b.value.args) == 1 and not b.value.keywords
                   and (_is_np(b.value.args[0], "float32") or _is_np(b.value.args[0], "float64")
                        or (isinstance(b.value.args[0], ast.Name) and b.value.args[0].id == "float")))
        if not ok_body:
            _fail(st, "float16 guard with an unexpected body")
        return True

    def is_dtype_cast(self, st: ast.If, env):
        t = st.test
        ok_test = (isinstance(t, ast.Call) and _is_np(t.func, "issubdtype") and len(t.args) == 2
                   and isinstance(t.args[0], ast.Attribute) and t.args[0].attr == "dtype"
                   and isinstance(t.args[0].value, ast.Name) and t.args[0].value.id == self.V
                   and _is_np(t.args[1], "integer"))
        if not ok_test:
            return False
        if st.orelse or len(st.body) != 1:
            _fail(st, "dtype guard with an unexpected body")
        b = st.body[0]
        ok_body = (isinstance(b, ast.Assign) and len(b.targets) == 1 and isinstance(b.targets[0], ast.Name)
                   and b.targets[0].id == self.V and isinstance(b.value, ast.Call)
                   and isinstance(b.value.func, ast.Attribute) and b.value.func.attr == "astype"
                   and isinstance(b.value.func.value, ast.Name) and b.value.func.value.id == self.V
                   and len(b.value.args) == 1 and (_is_np(b.value.args[0], "float64")
                                                   or (isinstance(b.value.args[0], ast.Name)
                                                       and b.value.args[0].id == "float")))
        if not ok_body:
            _fail(st, "dtype guard with an unexpected body")
        return True

    def ret_value(self, st: ast.Return, env):
        v = st.value
        tr = FnTranslator(env)
        if self.mode == "array":
            # `return values` or `return np.ma.masked_invalid(values)` (masking does not change
            # unmasked values; which entries are masked is part of the extended-value model)
            if (isinstance(v, ast.Call) and isinstance(v.func, ast.Attribute) and v.func.attr == "masked_invalid"
                    and isinstance(v.func.value, ast.Attribute) and _is_np(v.func.value, "ma")
                    and len(v.args) == 1 and not v.keywords):
                v = v.args[0]
            if not (isinstance(v, ast.Name) and v.id == self.V):
                _fail(st, "return of something other than the array variable")
            return env.vars[self.V]
        if self.mode == "limits":
            if not (isinstance(v, ast.Tuple) and len(v.elts) == 2):
                _fail(st, "get_limits must return a pair")
            (a, ka), (b, kb) = tr.expr(v.elts[0]), tr.expr(v.elts[1])
            return ("pair", a, b), FnTranslator._merge_kind(ka, kb)
        raise AssertionError(self.mode)

    def inplace_call(self, c: ast.Call, env):
        """np.<ufunc>(V, c..., out=V)   |   self.stretch(V, copy=False)"""
        kws = {k.arg: k.value for k in c.keywords}
        # CustomNormalization.__call__: `self.stretch(values, copy=False)` mutates in place
        if (_is_self_attr(c.func) and c.func.attr in env.fields and env.fields[c.func.attr] == "fun"
                and len(c.args) == 1 and isinstance(c.args[0], ast.Name) and c.args[0].id == self.V
                and set(kws) == {"copy"} and isinstance(kws["copy"], ast.Constant) and kws["copy"].value is False):
            e, _ = env.vars[self.V]
            env.vars[self.V] = (("app", c.func.attr, e), "float")
            return
        if not _is_np(c.func):
            _fail(c, "expression statement outside the accepted grammar")
        out = kws.pop("out", None)
        if not (isinstance(out, ast.Name) and out.id == self.V) or kws:
            _fail(c, "in-place ufunc statement must have out=%s and no other keywords" % self.V)
        # the array variable must be one of the operands (first, or either for commutative ops)
        plain = ast.Call(func=c.func, args=c.args, keywords=[])
        ast.copy_location(plain, c)
        uses_v = [isinstance(a, ast.Name) and a.id == self.V for a in c.args]
        name = c.func.attr
        if not any(uses_v):
            _fail(c, "in-place ufunc does not read the array variable")
        if not uses_v[0] and not (name in BINARY and BINARY[name] in COMMUTATIVE):
            _fail(c, "array variable must be the first operand of a non-commutative ufunc")
        env.vars[self.V] = FnTranslator(env).call(plain)

    def assign(self, st: ast.Assign, env):
        tgt, v = st.targets[0], st.value
        tr = FnTranslator(env)
        V = self.V
        # tuple unpacking of get_limits / float casts
        if isinstance(tgt, ast.Tuple):
            names = [t.id if isinstance(t, ast.Name) else None for t in tgt.elts]
            if None in names or len(names) != 2:
                _fail(st, "unsupported unpacking")
            if (isinstance(v, ast.Call) and _is_self_attr(v.func) and v.func.attr == "get_limits"
                    and len(v.args) == 1 and isinstance(v.args[0], ast.Name) and v.args[0].id == V
                    and not v.keywords):
                if names != ["vmin", "vmax"]:
                    _fail(st, "get_limits must be unpacked into vmin, vmax")
                env.vars["vmin"] = (("var", "vmin"), "np")
                env.vars["vmax"] = (("var", "vmax"), "np")
                return
            if (isinstance(v, ast.Call) and _is_np(v.func, "quantile") and len(v.args) == 2 and not v.keywords
                    and isinstance(v.args[1], ast.Tuple) and len(v.args[1].elts) == 2):
                tr._need_filtered_data(v.args[0], st)
                qs = [tr.expr(q)[0] for q in v.args[1].elts]
                for nm, q in zip(names, qs):
                    env.vars[nm] = (("app", "quantile", q), "float")
                return
            if isinstance(v, ast.Tuple) and len(v.elts) == 2:
                vals = [tr.expr(e) for e in v.elts]
                for nm, val in zip(names, vals):
                    env.vars[nm] = val
                return
            _fail(st, "unsupported unpacking")
        if not isinstance(tgt, ast.Name):
            _fail(st, "assignment target outside the accepted grammar")
        name = tgt.id
        # data-shaping no-ops on the array argument
        if name == V and env.data_var == V:
            # values = np.asarray(values).ravel()
            if (isinstance(v, ast.Call) and isinstance(v.func, ast.Attribute) and v.func.attr == "ravel"
                    and not v.args and isinstance(v.func.value, ast.Call) and _is_np(v.func.value.func, "asarray")
                    and len(v.func.value.args) == 1 and isinstance(v.func.value.args[0], ast.Name)
                    and v.func.value.args[0].id == V):
                return
            # values = values[np.isfinite(values)]
            if (isinstance(v, ast.Subscript) and isinstance(v.value, ast.Name) and v.value.id == V
                    and isinstance(v.slice, ast.Call) and _is_np(v.slice.func, "isfinite")
                    and len(v.slice.args) == 1 and isinstance(v.slice.args[0], ast.Name)
                    and v.slice.args[0].id == V):
                env.filtered = True
                return
            # values = values.astype(float, copy=False): a cast to floating point, identity over R
            if (isinstance(v, ast.Call) and isinstance(v.func, ast.Attribute) and v.func.attr == "astype"
                    and isinstance(v.func.value, ast.Name) and v.func.value.id == V and len(v.args) == 1
                    and (_is_np(v.args[0], "float64") or (isinstance(v.args[0], ast.Name) and v.args[0].id == "float"))
                    and [k.arg for k in v.keywords] in ([], ["copy"])):
                return
        if name == V and V in env.vars:
            # values = np.array(values, copy=copy): a copy, identity on the contents
            if (isinstance(v, ast.Call) and _is_np(v.func, "array") and len(v.args) == 1
                    and isinstance(v.args[0], ast.Name) and v.args[0].id == V
                    and [k.arg for k in v.keywords] in ([], ["copy"])):
                return
            # values = self.interval(value) / self.stretch.inverse(value) style applications
        app = self.fun_application(v, env)
        if app is not None:
            env.vars[name] = app
            return
        env.vars[name] = tr.expr(v)

    def fun_application(self, v, env):
        """`self.f(x)` / `self.f.inverse(x)` for function-typed fields (CustomNormalization)"""
        if not (isinstance(v, ast.Call) and len(v.args) == 1 and not v.keywords):
            return None
        f = v.func
        fname = None
        if _is_self_attr(f) and env.fields.get(f.attr) == "fun":
            fname = f.attr
        elif isinstance(f, ast.Attribute) and f.attr == "inverse" and _is_self_attr(f.value) and env.fields.get(
                f.value.attr) == "fun":
            fname = f.value.attr + "_inverse"
        if fname is None:
            return None
        a = v.args[0]
        if not (isinstance(a, ast.Name) and a.id in env.vars):
            _fail(v, "function applied to something other than a local array")
        return ("app", fname, env.vars[a.id][0]), "float"


# ------------------------------------------------------------------------------------------
# Coq printer


def _num(fr: Fraction) -> str:
    if fr.denominator == 1:
        return "%d" % fr.numerator if fr.numerator >= 0 else "(- %d)" % -fr.numerator
    if fr.numerator >= 0:
        return "(%d / %d)" % (fr.numerator, fr.denominator)
    return "(- (%d / %d))" % (-fr.numerator, fr.denominator)


def pe(e) -> str:
    t = e[0]
    if t == "var":
        return e[1]
    if t == "const":
        return _num(e[1])
    if t == "un":
        op, a = e[1], pe(e[2])
        return {"neg": "(- %s)", "ln": "(ln %s)", "exp": "(exp %s)", "sqrt": "(sqrt %s)",
                "arcsinh": "(arcsinh %s)", "sinh": "(sinh %s)", "abs": "(Rabs %s)"}[op] % a
    if t == "bin":
        op, a, b = e[1], pe(e[2]), pe(e[3])
        if op in "+-*/":
            return "(%s %s %s)" % (a, op, b)
        return {"power": "(np_power %s %s)", "max": "(Rmax %s %s)", "min": "(Rmin %s %s)"}[op] % (a, b)
    if t == "clip":
        return "(np_clip %s %s %s)" % (pe(e[1]), pe(e[2]), pe(e[3]))
    if t == "if":
        return pif(e[1], pe(e[2]), pe(e[3]))
    if t == "app":
        return "(%s %s)" % (e[1], pe(e[2]))
    if t == "pair":
        return "(%s, %s)" % (pe(e[1]), pe(e[2]))
    raise TranslateError("printer: unknown node %r" % (e,))


def pif(c, T: str, E: str) -> str:
    t = c[0]
    if t == "cmp":
        op, a, b = c[1], pe(c[2]), pe(c[3])
        if op == "==":
            return "(if Req_EM_T %s %s then %s else %s)" % (a, b, T, E)
        if op == "!=":
            return "(if Req_EM_T %s %s then %s else %s)" % (a, b, E, T)
        if op == "<=":
            return "(if Rle_dec %s %s then %s else %s)" % (a, b, T, E)
        if op == "<":
            return "(if Rlt_dec %s %s then %s else %s)" % (a, b, T, E)
        if op == ">=":
            return "(if Rle_dec %s %s then %s else %s)" % (b, a, T, E)
        if op == ">":
            return "(if Rlt_dec %s %s then %s else %s)" % (b, a, T, E)
    if t == "and":
        out = T
        for x in reversed(c[1]):
            out = pif(x, out, E)
        return out
    if t == "or":
        out = E
        for x in reversed(c[1]):
            out = pif(x, T, out)
        return out
    if t == "not":
        return pif(c[1], E, T)
    if t == "some":
        return "(match %s with Some %s_some => %s | None => %s end)" % (c[1], c[1], T, E)
    if t == "none":
        return "(match %s with None => %s | Some %s_some => %s end)" % (c[1], T, c[1], E)
    raise TranslateError("printer: unknown condition %r" % (c,))


def pprop(c) -> str:
    t = c[0]
    if t == "cmp":
        op = {"==": "=", "!=": "<>", "<": "<", "<=": "<=", ">": ">", ">=": ">="}[c[1]]
        return "(%s %s %s)" % (pe(c[2]), op, pe(c[3]))
    if t == "and":
        return "(" + " /\\ ".join(pprop(x) for x in c[1]) + ")"
    if t == "or":
        return "(" + " \\/ ".join(pprop(x) for x in c[1]) + ")"
    if t == "not":
        return "(~ %s)" % pprop(c[1])
    raise TranslateError("printer: condition %r not allowed in a domain" % (c,))


# ------------------------------------------------------------------------------------------
# class-level reading


def _fields(cls: ast.ClassDef):
    """dataclass fields in declaration order: [(name, type, default Fraction|None|'None')]"""
    out = []
    for st in cls.body:
        if isinstance(st, ast.AnnAssign) and isinstance(st.target, ast.Name):
            ann = ast.unparse(st.annotation).replace(" ", "")
            if ann == "float":
                ty = "R"
            elif ann in ("float|None", "None|float", "Optional[float]"):
                ty = "optR"
            else:
                _fail(st, "field type outside the accepted grammar")
            default = None
            if st.value is not None:
                if isinstance(st.value, ast.Constant) and st.value.value is None:
                    default = "None"
                else:
                    e, _ = FnTranslator(Env({})).expr(st.value)
                    default = e
            out.append((st.target.id, ty, default))
    return out


def _method(cls: ast.ClassDef, name: str):
    for st in cls.body:
        if isinstance(st, ast.FunctionDef) and st.name == name:
            return st
    return None


def _binders(fields, suffix=""):
    out = []
    for n, ty, _ in fields:
        out.append("(%s : %s)" % (n, "R" if ty == "R" else "option R"))
    return " ".join(out) + suffix


def _const_eval(e):
    """evaluate a parameter-free default expression exactly (only + - * / on constants)"""
    if e[0] == "const":
        return e[1]
    if e[0] == "bin" and e[1] in "+-*/":
        a, b = _const_eval(e[2]), _const_eval(e[3])
        return {"+": a + b, "-": a - b, "*": a * b, "/": a / b}[e[1]]
    if e[0] == "un" and e[1] == "neg":
        return -_const_eval(e[2])
    raise TranslateError("default value is not a rational constant")


class Translation:
    def __init__(self):
        self.lines: list[str] = []
        self.stretches: list[str] = []
        self.pairs: dict[str, str] = {}
        self.cn_stretches: list[str] = []
        self.cn_intervals: list[str] = []
        self.defs: list[str] = []
        self.ir: dict = {}
        self.defaults: dict = {}
        self.source_sha256 = ""

    def emit(self, name, text):
        self.defs.append(name)
        self.lines.append(text)


def translate_source(src_text: str, src_name: str = "custom_normalizations.py",
                     strict_dtype: bool = True) -> Translation:
    """strict_dtype=False reads every array operation as real arithmetic even where NumPy could
    run it in an integer dtype (used only to keep checking the remaining obligations after
    the strict translation has been rejected and reported)."""
    global STRICT_DTYPE
    STRICT_DTYPE = strict_dtype
    try:
        return _translate_source(src_text, src_name)
    finally:
        STRICT_DTYPE = True


def _translate_source(src_text: str, src_name: str) -> Translation:
    tree = ast.parse(src_text)
    T = Translation()
    T.source_sha256 = hashlib.sha256(src_text.encode()).hexdigest()
    classes = {n.name: n for n in tree.body if isinstance(n, ast.ClassDef)}
    for need in ("BaseInterval", "ManualInterval", "CenteredInterval", "QuantileInterval", "CustomNormalization"):
        if need not in classes:
            raise TranslateError("class %s not found" % need)
    stretch_names = [n for n in classes if n.endswith("Stretch")]
    if not stretch_names:
        raise TranslateError("no *Stretch classes found")
    T.stretches = stretch_names
    info = {}
    for s in stretch_names:
        info[s] = _fields(classes[s])
        if any(ty != "R" for _, ty, _ in info[s]):
            raise TranslateError("%s: optional stretch parameters are outside the grammar" % s)

    L = T.lines
    L.append("(* GENERATED by harness/translate_norm.py from %s  sha256=%s — do not edit *)" % (
        src_name, T.source_sha256[:16]))
    L.append("From Coq Require Import Reals.")
    L.append("From QV.lib Require Import C20_NpReal.")
    L.append("Local Open Scope R_scope.")
    L.append("")

    # ---------------------------------------------------------------- stretches: domain, call
    for s in stretch_names:
        cls = classes[s]
        flds = info[s]
        fmap = {n: ty for n, ty, _ in flds}
        # domain from __post_init__
        pi = _method(cls, "__post_init__")
        conds = []
        if pi is not None:
            for st in _strip_doc(pi.body):
                ok = (isinstance(st, ast.If) and not st.orelse and len(st.body) == 1
                      and isinstance(st.body[0], ast.Raise))
                if not ok:
                    _fail(st, "%s.__post_init__: only `if <cond>: raise ...` is accepted" % s)
                conds.append(("not", FnTranslator(Env(fmap)).cond(st.test)))
        dom = " /\\ ".join(pprop(c) for c in conds) if conds else "True"
        T.emit(s + "_domain", "Definition %s_domain %s : Prop := %s." % (s, _binders(flds), dom))
        # __call__
        call = _method(cls, "__call__")
        if call is None:
            raise TranslateError("%s has no __call__" % s)
        argnames = [a.arg for a in call.args.args]
        if argnames[:2] != ["self", "values"] or argnames[2:] not in ([], ["copy"]) or call.args.vararg or call.args.kwarg:
            _fail(call, "%s.__call__ signature outside the grammar" % s)
        env = Env(fmap, data_var=None, float_input=True)
        env.vars["values"] = (("var", "x"), "float")
        if "copy" in argnames:
            pass
        e, _k = BodyExec(env, "values", "array").run(_strip_doc(call.body))
        T.ir[s + "_call"] = e
        T.emit(s + "_call", "Definition %s_call %s (x : R) : R :=\n  %s." % (s, _binders(flds), pe(e)))
        # defaults
        if all(d is not None and d != "None" for _, _, d in flds):
            dvals = [_const_eval(d) for _, _, d in flds]
            T.defaults[s] = dvals
            T.emit(s + "_default_call", "Definition %s_default_call (x : R) : R := %s_call %s x." % (
                s, s, " ".join(_num(v) for v in dvals)))
            T.lines.append("Definition %s_default_domain : Prop := %s_domain %s." % (
                s, s, " ".join(_num(v) for v in dvals)))
        L.append("")

    # ---------------------------------------------------------------- declared inverses
    for s in stretch_names:
        cls = classes[s]
        flds = info[s]
        fmap = {n: ty for n, ty, _ in flds}
        inv = None
        for st in cls.body:
            if isinstance(st, ast.FunctionDef) and st.name == "inverse":
                inv = st
        if inv is None:
            raise TranslateError("%s declares no inverse" % s)
        decos = [ast.unparse(d) for d in inv.decorator_list]
        if decos != ["property"] or [a.arg for a in inv.args.args] != ["self"]:
            _fail(inv, "%s.inverse must be a property" % s)
        body = _strip_doc(inv.body)
        if not (len(body) == 1 and isinstance(body[0], ast.Return) and isinstance(body[0].value, ast.Call)
                and isinstance(body[0].value.func, ast.Name)):
            _fail(inv, "%s.inverse must be `return <StretchClass>(<args>)`" % s)
        c = body[0].value
        target = c.func.id
        if target not in info:
            _fail(c, "inverse constructs an unknown class")
        tf = info[target]
        tr = FnTranslator(Env(fmap))
        args = {}
        if len(c.args) > len(tf):
            _fail(c, "too many constructor arguments")
        for (fname, _, _), a in zip(tf, c.args):
            args[fname] = tr.expr(a)[0]
        for kw in c.keywords:
            if kw.arg not in [f[0] for f in tf] or kw.arg in args:
                _fail(c, "bad keyword argument")
            args[kw.arg] = tr.expr(kw.value)[0]
        plist = []
        for fname, _, d in tf:
            if fname in args:
                plist.append(args[fname])
            elif d is not None and d != "None":
                plist.append(("const", _const_eval(d)))
            else:
                _fail(c, "constructor argument %s missing and without default" % fname)
        T.pairs[s] = target
        T.ir[s + "_inverse_params"] = plist
        ptxt = " ".join(pe(p) for p in plist)
        T.emit(s + "_inverse_call", "Definition %s_inverse_call %s (y : R) : R :=\n  %s_call %s y." % (
            s, _binders(flds), target, ptxt))
        T.emit(s + "_inverse_domain", "Definition %s_inverse_domain %s : Prop :=\n  %s_domain %s." % (
            s, _binders(flds), target, ptxt))
        if s in T.defaults:
            T.lines.append("Definition %s_default_inverse_call (y : R) : R := %s_inverse_call %s y." % (
                s, s, " ".join(_num(v) for v in T.defaults[s])))
    L.append("")

    # ---------------------------------------------------------------- BaseInterval.__call__ / inverse
    bi = classes["BaseInterval"]
    call = _method(bi, "__call__")
    if call is None or [a.arg for a in call.args.args] != ["self", "values"]:
        raise TranslateError("BaseInterval.__call__ signature outside the grammar")
    env = Env({}, data_var=None)
    env.vars["values"] = (("var", "x"), "np")
    e, k = BodyExec(env, "values", "array").run(_strip_doc(call.body))
    if k != "float":
        raise TranslateError("BaseInterval.__call__ may return an integer-dtype array")
    T.ir["interval_map"] = e
    T.emit("interval_map", "Definition interval_map (vmin vmax : R) (x : R) : R :=\n  %s." % pe(e))
    inv = _method(bi, "inverse")
    if inv is None or [a.arg for a in inv.args.args] != ["self", "values"]:
        raise TranslateError("BaseInterval.inverse signature outside the grammar")
    env = Env({}, data_var=None)
    env.vars["values"] = (("var", "y"), "float")     # colour-bar positions in [0, 1]
    e, k = BodyExec(env, "values", "array").run(_strip_doc(inv.body))
    T.ir["interval_inverse"] = e
    T.emit("interval_inverse", "Definition interval_inverse (vmin vmax : R) (y : R) : R :=\n  %s." % pe(e))
    L.append("")

    # ---------------------------------------------------------------- get_limits
    for cname in ("ManualInterval", "CenteredInterval", "QuantileInterval"):
        cls = classes[cname]
        if [ast.unparse(b) for b in cls.bases] != ["BaseInterval"]:
            raise TranslateError("%s must derive from BaseInterval only" % cname)
        for st in cls.body:
            if isinstance(st, ast.FunctionDef) and st.name not in ("get_limits",):
                raise TranslateError("%s overrides %s: outside the grammar" % (cname, st.name))
        flds = _fields(cls)
        fmap = {n: ty for n, ty, _ in flds}
        gl = _method(cls, "get_limits")
        if gl is None or [a.arg for a in gl.args.args] != ["self", "values"]:
            raise TranslateError("%s.get_limits signature outside the grammar" % cname)
        env = Env(fmap, data_var="values")
        e, _k = BodyExec(env, "values", "limits").run(_strip_doc(gl.body))
        T.ir[cname + "_get_limits"] = e
        T.defaults[cname] = [None if d in (None, "None") else _const_eval(d) for _, _, d in flds]
        if cname == "QuantileInterval":
            extra = "(quantile : R -> R) "
            tail = ""
        else:
            extra = ""
            tail = " (dmin dmax : R)"
        T.emit(cname + "_get_limits", "Definition %s_get_limits %s%s%s : R * R :=\n  %s." % (
            cname, extra, _binders(flds), tail, pe(e)))
    L.append("")

    # ---------------------------------------------------------------- CustomNormalization
    cn = classes["CustomNormalization"]
    call = _method(cn, "__call__")
    if call is None or [a.arg for a in call.args.args][:2] != ["self", "value"]:
        raise TranslateError("CustomNormalization.__call__ signature outside the grammar")
    env = Env({"interval": "fun", "stretch": "fun"})
    env.vars["value"] = (("var", "value"), "np")
    e, _k = BodyExec(env, "values", "array").run(_strip_doc(call.body))
    T.ir["CustomNormalization_call"] = e
    T.emit("CustomNormalization_call",
           "Definition CustomNormalization_call (interval stretch : R -> R) (value : R) : R :=\n  %s." % pe(e))
    inv = _method(cn, "inverse")
    if inv is None or [a.arg for a in inv.args.args] != ["self", "value"]:
        raise TranslateError("CustomNormalization.inverse signature outside the grammar")
    env = Env({"interval": "fun", "stretch": "fun"})
    env.vars["value"] = (("var", "value"), "float")
    e, _k = BodyExec(env, "values", "array").run(_strip_doc(inv.body))
    T.ir["CustomNormalization_inverse"] = e
    T.emit("CustomNormalization_inverse",
           "Definition CustomNormalization_inverse (stretch_inverse interval_inverse : R -> R) (value : R) : R :=\n  %s."
           % pe(e))
    # the stretch / interval objects __init__ may construct
    init = _method(cn, "__init__")
    if init is None:
        raise TranslateError("CustomNormalization.__init__ not found")
    init_args = {a.arg for a in init.args.args + init.args.kwonlyargs}
    seen_s, seen_i = [], []
    for node in ast.walk(init):
        if (isinstance(node, ast.Assign) and len(node.targets) == 1 and _is_self_attr(node.targets[0])
                and node.targets[0].attr in ("stretch", "interval")):
            v = node.value
            if not (isinstance(v, ast.Call) and isinstance(v.func, ast.Name)):
                _fail(node, "self.%s must be assigned a constructor call" % node.targets[0].attr)
            cname = v.func.id
            if node.targets[0].attr == "interval":
                if cname not in ("ManualInterval", "CenteredInterval", "QuantileInterval"):
                    _fail(node, "unknown interval class")
                # arguments must be plain parameter names passed to the same-named field
                flds = [f[0] for f in _fields(classes[cname])]
                for a, f in list(zip(v.args, flds)) + [(k.value, k.arg) for k in v.keywords]:
                    if not (isinstance(a, ast.Name) and a.id == f and f in flds and a.id in init_args):
                        _fail(node, "interval constructor argument is not the same-named parameter")
                if cname not in seen_i:
                    seen_i.append(cname)
                continue
            if cname not in info:
                _fail(node, "unknown stretch class")
            tf = info[cname]
            params, plist = [], []
            for (fname, _, d), a in zip(tf, v.args):
                if not (isinstance(a, ast.Name) and a.id in init_args):
                    _fail(node, "stretch constructor argument must be an __init__ parameter")
                params.append(fname)
                plist.append(fname)
            if v.keywords:
                _fail(node, "stretch constructor keywords outside the grammar")
            for fname, _, d in tf[len(v.args):]:
                if d is None or d == "None":
                    _fail(node, "missing stretch constructor argument")
                plist.append(_num(_const_eval(d)))
            if cname in seen_s:
                _fail(node, "stretch class constructed twice")
            seen_s.append(cname)
            T.emit("CustomNormalization_stretch_" + cname,
                   "Definition CustomNormalization_stretch_%s %s(x : R) : R := %s_call %s x." % (
                       cname, "".join("(%s : R) " % p for p in params), cname, " ".join(plist)))
    T.cn_stretches, T.cn_intervals = seen_s, seen_i
    return T


# ------------------------------------------------------------------------------------------
# configuration -> constructor arguments -> constructed objects   (round-3 extension)
#
# `translate_config` reads, from the CURRENT sources,
#   custom_normalizations.py   NormalizationConfig (dataclass fields + defaults),
#                              CustomNormalization.__init__ (signature, interval / stretch dispatch),
#                              CustomNormalization._set_limits, NORMALIZATION_PRESETS
#   visualization.py           the `CustomNormalization(...)` call of _show_2d_array / _show_2d_combined
# and emits `Gen_Cfg.v`:
#   Record NormalizationConfig / CN_args (+ *_default)    show_2d_array_args / show_2d_combined_args
#   interval_obj / stretch_obj, so_call, so_domain        CN_init_interval / CN_init_stretch
#   io_get_limits, CN_set_limits, CN_set_limits_bool      NORMALIZATION_PRESETS
# Fail closed: an unknown field type, a constructor argument that is not `norm_config.<field>` or
# a literal, a statement of __init__ / _set_limits outside the shapes below -> TranslateError.


class ConfigTranslation:
    def __init__(self):
        self.lines: list[str] = []
        self.fields: list = []        # NormalizationConfig: [(name, ty, default)]
        self.params: list = []        # CustomNormalization.__init__: [(name, ty, default)]
        self.presets: dict = {}       # name -> {field: python value}
        self.show_calls: dict = {}    # function -> {param: ("field", f) | ("const", v)}
        self.has_data: dict = {}      # function -> bool (limits frozen at construction)
        self.interval_classes: list = []
        self.stretch_classes: list = []


def _ann_type(st):
    ann = ast.unparse(st.annotation).replace(" ", "")
    if ann == "float":
        return "R"
    if ann in ("float|None", "None|float", "Optional[float]"):
        return "optR"
    if ann == "str":
        return "string"
    _fail(st, "field / parameter type outside the accepted grammar")


def _lit_value(node, ty):
    """literal default / argument -> python value (Fraction | None | str)"""
    if isinstance(node, ast.Constant):
        v = node.value
        if v is None:
            if ty != "optR":
                _fail(node, "None for a non-optional field")
            return None
        if isinstance(v, str):
            if ty != "string":
                _fail(node, "string literal for a numeric field")
            return v
        if isinstance(v, bool) or not isinstance(v, (int, float)):
            _fail(node, "unsupported literal")
        if ty == "string":
            _fail(node, "numeric literal for a string field")
        if isinstance(v, float) and (v != v or v in (float("inf"), float("-inf"))):
            _fail(node, "non-finite literal")
        return Fraction(*float(v).as_integer_ratio()) if isinstance(v, float) else Fraction(v)
    if isinstance(node, ast.UnaryOp) and isinstance(node.op, ast.USub):
        v = _lit_value(node.operand, ty)
        if not isinstance(v, Fraction):
            _fail(node, "unsupported literal")
        return -v
    _fail(node, "value is not a literal")


def _coq_string(s: str) -> str:
    if '"' in s or any(ord(ch) < 32 or ord(ch) > 126 for ch in s):
        raise TranslateError("string literal %r outside the printable grammar" % s)
    return '"%s"%%string' % s


def _coq_value(v, ty) -> str:
    if ty == "string":
        return _coq_string(v)
    if ty == "optR":
        return "None" if v is None else "(Some %s)" % _num(v)
    return _num(v)


def _coq_ty(ty):
    return {"R": "R", "optR": "option R", "string": "string"}[ty]


def _ctor_args(call: ast.Call, fields, value_of, what):
    """map positional / keyword arguments of a constructor call onto `fields`
    [(name, ty, default)]; returns {field: value_of(node, ty)}"""
    names = [f[0] for f in fields]
    tys = {f[0]: f[1] for f in fields}
    out = {}
    if len(call.args) > len(names):
        _fail(call, "%s: too many positional arguments" % what)
    for nm, a in zip(names, call.args):
        if isinstance(a, ast.Starred):
            _fail(call, "%s: starred argument" % what)
        out[nm] = value_of(a, tys[nm])
    for kw in call.keywords:
        if kw.arg is None:
            _fail(call, "%s: ** argument" % what)
        if kw.arg not in tys:
            _fail(call, "%s: unknown field `%s`" % (what, kw.arg))
        if kw.arg in out:
            _fail(call, "%s: field `%s` given twice" % (what, kw.arg))
        out[kw.arg] = value_of(kw.value, tys[kw.arg])
    return out


def translate_config(cn_text: str, vis_text: str) -> ConfigTranslation:
    C = ConfigTranslation()
    tree = ast.parse(cn_text)
    classes = {n.name: n for n in tree.body if isinstance(n, ast.ClassDef)}
    for need in ("NormalizationConfig", "CustomNormalization", "ManualInterval", "CenteredInterval", "QuantileInterval"):
        if need not in classes:
            raise TranslateError("class %s not found" % need)

    # ------------------------------------------------------------ NormalizationConfig
    nc = classes["NormalizationConfig"]
    if [ast.unparse(d) for d in nc.decorator_list] != ["dataclass"] or nc.bases:
        raise TranslateError("NormalizationConfig must be a plain @dataclass")
    for st in _strip_doc(nc.body):
        if not isinstance(st, ast.AnnAssign):
            _fail(st, "NormalizationConfig: only annotated fields are accepted")
        ty = _ann_type(st)
        if st.value is None:
            _fail(st, "NormalizationConfig field without default")
        C.fields.append((st.target.id, ty, _lit_value(st.value, ty)))
    fnames = [f[0] for f in C.fields]
    ftys = {f[0]: f[1] for f in C.fields}

    # ------------------------------------------------------------ CustomNormalization.__init__ signature
    cn = classes["CustomNormalization"]
    init = _method(cn, "__init__")
    if init is None:
        raise TranslateError("CustomNormalization.__init__ not found")
    a = init.args
    if a.vararg or a.kwarg or a.posonlyargs:
        _fail(init, "__init__ signature outside the grammar")
    pos = a.args[1:]
    pos_defaults = [None] * (len(pos) - len(a.defaults)) + list(a.defaults)
    sig = [(p, d, True) for p, d in zip(pos, pos_defaults)] + \
          [(p, d, False) for p, d in zip(a.kwonlyargs, a.kw_defaults)]
    n_positional = 0
    for p, d, is_pos in sig:
        if p.arg == "data":
            if not (isinstance(d, ast.Constant) and d.value is None):
                _fail(init, "`data` must default to None")
            continue
        if p.annotation is None or d is None:
            _fail(init, "__init__ parameter `%s` without annotation / default" % p.arg)
        fake = ast.AnnAssign(target=ast.Name(id=p.arg), annotation=p.annotation, value=d, simple=1)
        ast.copy_location(fake, p)
        ty = _ann_type(fake)
        C.params.append((p.arg, ty, _lit_value(d, ty)))
        if is_pos:
            n_positional += 1
    pnames = [p[0] for p in C.params]
    ptys = {p[0]: p[1] for p in C.params}
    # fail closed on a field that exists on one side only (it could not reach the constructor / would be
    # silently left at its default)
    only_cfg = [n for n in fnames if n not in ptys]
    only_ctor = [n for n in pnames if n not in ftys]
    if only_cfg or only_ctor:
        raise TranslateError("NormalizationConfig fields and CustomNormalization.__init__ parameters differ: "
                             "only in the configuration %s, only in the constructor %s" % (only_cfg, only_ctor))
    for n in fnames:
        if ftys[n] != ptys[n]:
            raise TranslateError("field `%s` has type %s in the configuration and %s in the constructor"
                                 % (n, ftys[n], ptys[n]))

    # ------------------------------------------------------------ interval / stretch classes
    itv = {}
    for cname in ("QuantileInterval", "ManualInterval", "CenteredInterval"):
        itv[cname] = []
        for st in classes[cname].body:
            if isinstance(st, ast.AnnAssign):
                ty = _ann_type(st)
                itv[cname].append((st.target.id, ty, None if st.value is None else _lit_value(st.value, ty)
                                   if not (isinstance(st.value, ast.Constant) and st.value.value is None) else None))
    stretch = {}
    for cname, cls in classes.items():
        if cname.endswith("Stretch"):
            fl = []
            for n, ty, d in _fields(cls):
                fl.append((n, ty, None if d in (None, "None") else _const_eval(d)))
            stretch[cname] = fl
    C.interval_classes, C.stretch_classes = list(itv), list(stretch)

    L = C.lines
    L.append("(* GENERATED by harness/translate_norm.py (translate_config) from custom_normalizations.py and "
             "visualization.py — do not edit *)")
    L.append("From Coq Require Import Reals String List.")
    L.append("From QV.lib Require Import C20_NpReal.")
    L.append("From Gen20 Require Import Gen_Norm.")
    L.append("Import ListNotations.")
    L.append("Local Open Scope R_scope.")
    L.append("")
    L.append("Record NormalizationConfig : Type := mkNormalizationConfig {\n  %s }." % ";\n  ".join(
        "nc_%s : %s" % (n, _coq_ty(ty)) for n, ty, _ in C.fields))
    L.append("Definition NormalizationConfig_default : NormalizationConfig :=\n  {| %s |}." % ";\n     ".join(
        "nc_%s := %s" % (n, _coq_value(d, ty)) for n, ty, d in C.fields))
    L.append("Record CN_args : Type := mkCN_args {\n  %s }." % ";\n  ".join(
        "a_%s : %s" % (n, _coq_ty(ty)) for n, ty, _ in C.params))
    L.append("Definition CN_args_default : CN_args :=\n  {| %s |}." % ";\n     ".join(
        "a_%s := %s" % (n, _coq_value(d, ty)) for n, ty, d in C.params))
    L.append("")

    # ------------------------------------------------------------ the call sites in visualization.py
    vtree = ast.parse(vis_text)
    vfuncs = {n.name: n for n in vtree.body if isinstance(n, ast.FunctionDef)}
    for fname in ("_show_2d_array", "_show_2d_combined"):
        if fname not in vfuncs:
            raise TranslateError("visualization.py: %s not found" % fname)
        fn = vfuncs[fname]
        params = [x.arg for x in fn.args.args + fn.args.kwonlyargs]
        if "norm" not in params or fn.args.kwarg is None:
            _fail(fn, "%s must take `norm` and **kwargs" % fname)
        cfg_var, calls = None, []
        for node in ast.walk(fn):
            if (isinstance(node, ast.Assign) and isinstance(node.value, ast.Call)
                    and isinstance(node.value.func, ast.Name) and node.value.func.id == "_resolve_normalization"):
                c = node.value
                ok = (len(node.targets) == 1 and isinstance(node.targets[0], ast.Name) and cfg_var is None
                      and len(c.args) == 1 and isinstance(c.args[0], ast.Name) and c.args[0].id == "norm"
                      and len(c.keywords) == 1 and c.keywords[0].arg is None
                      and isinstance(c.keywords[0].value, ast.Name) and c.keywords[0].value.id == fn.args.kwarg.arg)
                if not ok:
                    _fail(node, "%s: configuration must be resolved once as `_resolve_normalization(norm, **kwargs)`" % fname)
                cfg_var = node.targets[0].id
            if isinstance(node, ast.Call) and isinstance(node.func, ast.Name) and node.func.id == "CustomNormalization":
                calls.append(node)
            if isinstance(node, ast.Assign) and any(isinstance(t, ast.Name) and t.id == "norm" for t in node.targets):
                _fail(node, "%s: `norm` is reassigned" % fname)
        if cfg_var is None or len(calls) != 1:
            raise TranslateError("%s: expected one _resolve_normalization(...) and one CustomNormalization(...) call"
                                 % fname)
        for node in ast.walk(fn):
            if isinstance(node, (ast.Assign, ast.AugAssign, ast.AnnAssign)):
                tg = node.targets if isinstance(node, ast.Assign) else [node.target]
                for t in tg:
                    if isinstance(t, ast.Name) and t.id == cfg_var and not (
                            isinstance(node, ast.Assign) and isinstance(node.value, ast.Call)
                            and isinstance(node.value.func, ast.Name) and node.value.func.id == "_resolve_normalization"):
                        _fail(node, "%s: the resolved configuration is reassigned" % fname)
                    if isinstance(t, ast.Attribute) and isinstance(t.value, ast.Name) and t.value.id == cfg_var:
                        _fail(node, "%s: the resolved configuration is modified" % fname)
        call = calls[0]

        def value_of(node, ty, _cfg=cfg_var):
            if isinstance(node, ast.Attribute) and isinstance(node.value, ast.Name) and node.value.id == _cfg:
                if node.attr not in ftys:
                    _fail(node, "unknown configuration field")
                if ftys[node.attr] != ty:
                    _fail(node, "configuration field of another type")
                return ("field", node.attr)
            return ("const", _lit_value(node, ty))

        kws = [k for k in call.keywords if k.arg != "data"]
        C.has_data[fname] = any(k.arg == "data" for k in call.keywords)
        plain = ast.Call(func=call.func, args=call.args, keywords=kws)
        ast.copy_location(plain, call)
        if len(call.args) > n_positional:
            _fail(call, "%s: too many positional constructor arguments" % fname)
        got = _ctor_args(plain, C.params, value_of, fname + ": CustomNormalization(...)")
        C.show_calls[fname] = got
        items = []
        for n, ty, d in C.params:
            if n in got:
                kind, v = got[n]
                items.append("a_%s := %s" % (n, "nc_%s c" % v if kind == "field" else _coq_value(v, ty)))
            else:
                items.append("a_%s := %s" % (n, _coq_value(d, ty)))      # left to the __init__ default
        L.append("Definition %s_args (c : NormalizationConfig) : CN_args :=\n  {| %s |}." % (
            fname.lstrip("_"), ";\n     ".join(items)))
    L.append("")

    # ------------------------------------------------------------ objects
    def binders(fl):
        return " ".join("(%s : %s)" % (n, _coq_ty(ty)) for n, ty, _ in fl)

    L.append("Inductive interval_obj : Type :=\n%s." % "\n".join(
        "| IO_%s %s" % (c, binders(fl)) for c, fl in itv.items()))
    L.append("Inductive stretch_obj : Type :=\n%s." % "\n".join(
        "| SO_%s %s" % (c, binders(fl)) for c, fl in stretch.items()))
    L.append("Definition so_call (o : stretch_obj) : R -> R :=\n  match o with\n%s\n  end." % "\n".join(
        "  | SO_%s %s => %s_call %s" % (c, " ".join(f[0] for f in fl), c, " ".join(f[0] for f in fl))
        for c, fl in stretch.items()))
    L.append("Definition so_domain (o : stretch_obj) : Prop :=\n  match o with\n%s\n  end." % "\n".join(
        "  | SO_%s %s => %s_domain %s" % (c, " ".join(f[0] for f in fl), c, " ".join(f[0] for f in fl))
        for c, fl in stretch.items()))
    L.append("Definition io_get_limits (o : interval_obj) (quantile : R -> R) (dmin dmax : R) : R * R :=\n"
             "  match o with\n%s\n  end." % "\n".join(
                 "  | IO_%s %s => %s_get_limits %s%s%s" % (
                     c, " ".join(f[0] for f in fl), c, "quantile " if c == "QuantileInterval" else "",
                     " ".join(f[0] for f in fl), "" if c == "QuantileInterval" else " dmin dmax")
                 for c, fl in itv.items()))
    L.append("")

    # ------------------------------------------------------------ __init__ dispatch
    def cond(n):
        if isinstance(n, ast.BoolOp):
            return ("and" if isinstance(n.op, ast.And) else "or", [cond(v) for v in n.values])
        if isinstance(n, ast.UnaryOp) and isinstance(n.op, ast.Not):
            return ("not", cond(n.operand))
        if isinstance(n, ast.Compare) and len(n.ops) == 1 and isinstance(n.left, ast.Name) and n.left.id in ptys:
            p, r, op = n.left.id, n.comparators[0], n.ops[0]
            if ptys[p] == "string":
                if not (isinstance(r, ast.Constant) and isinstance(r.value, str) and isinstance(op, (ast.Eq, ast.NotEq))):
                    _fail(n, "string parameter compared with something other than a literal")
                c = ("streq", "(a_%s a)" % p, r.value)
                return c if isinstance(op, ast.Eq) else ("not", c)
            if ptys[p] == "R" and type(op) in CMPOPS:
                return ("cmp", CMPOPS[type(op)], ("var", "(a_%s a)" % p), ("const", _lit_value(r, "R")))
        _fail(n, "__init__: condition outside the accepted grammar")

    def ctor(call, table, prefix):
        if not (isinstance(call, ast.Call) and isinstance(call.func, ast.Name) and call.func.id in table):
            _fail(call, "__init__: unknown constructor")
        fl = table[call.func.id]

        def value_of(node, ty):
            if isinstance(node, ast.Name) and node.id in ptys:
                if ptys[node.id] != ty:
                    _fail(node, "__init__: parameter of another type")
                return "(a_%s a)" % node.id
            return _coq_value(_lit_value(node, ty), ty)

        got = _ctor_args(call, fl, value_of, "__init__: %s(...)" % call.func.id)
        args = []
        for n, ty, d in fl:
            if n in got:
                args.append(got[n])
            elif d is not None or ty == "optR":
                args.append(_coq_value(d, ty))
            else:
                _fail(call, "__init__: constructor argument `%s` missing and without default" % n)
        return "(Some (%s_%s %s))" % (prefix, call.func.id, " ".join(args))

    def chain(st, attr, table, prefix):
        """if / elif / else chain assigning self.<attr> -> nested Coq if"""
        if isinstance(st, ast.Raise):
            return "None"
        if isinstance(st, ast.Assign):
            if not (len(st.targets) == 1 and _is_self_attr(st.targets[0]) and st.targets[0].attr == attr):
                _fail(st, "__init__: unexpected assignment inside the %s dispatch" % attr)
            return ctor(st.value, table, prefix)
        if isinstance(st, ast.If):
            if len(st.body) != 1 or len(st.orelse) != 1:
                _fail(st, "__init__: dispatch branches must be single statements")
            return pif_cfg(cond(st.test), chain(st.body[0], attr, table, prefix),
                           chain(st.orelse[0], attr, table, prefix))
        _fail(st, "__init__: statement outside the accepted grammar")

    def pif_cfg(c, T, E):
        if c[0] == "streq":
            return "(if String.eqb %s %s then %s else %s)" % (c[1], _coq_string(c[2]), T, E)
        if c[0] == "and":
            out = T
            for x in reversed(c[1]):
                out = pif_cfg(x, out, E)
            return out
        if c[0] == "or":
            out = E
            for x in reversed(c[1]):
                out = pif_cfg(x, T, out)
            return out
        if c[0] == "not":
            return pif_cfg(c[1], E, T)
        return pif(c, T, E)

    def assigns_attr(st, attr):
        return any(isinstance(n, ast.Assign) and len(n.targets) == 1 and _is_self_attr(n.targets[0])
                   and n.targets[0].attr == attr for n in ast.walk(st))

    seen = {"interval": None, "stretch": None}
    for st in _strip_doc(init.body):
        if isinstance(st, ast.If) and assigns_attr(st, "interval"):
            if seen["interval"] is not None or assigns_attr(st, "stretch"):
                _fail(st, "__init__: interval dispatched twice / mixed with the stretch")
            seen["interval"] = chain(st, "interval", itv, "IO")
            continue
        if isinstance(st, ast.If) and assigns_attr(st, "stretch"):
            if seen["stretch"] is not None:
                _fail(st, "__init__: stretch dispatched twice")
            seen["stretch"] = chain(st, "stretch", stretch, "SO")
            continue
        src = ast.unparse(st).replace(" ", "")
        if src.startswith("super().__init__("):
            continue
        if src in ("self.vmin=vmin", "self.vmax=vmax"):
            continue
        if src in ("ifdataisnotNone:\nself._set_limits(data)", "ifdataisnotNone:self._set_limits(data)"):
            continue
        _fail(st, "__init__: statement outside the accepted grammar")
    if None in seen.values():
        raise TranslateError("__init__: interval / stretch dispatch not found")
    L.append("Definition CN_init_interval (a : CN_args) : option interval_obj :=\n  %s." % seen["interval"])
    L.append("Definition CN_init_stretch (a : CN_args) : option stretch_obj :=\n  %s." % seen["stretch"])
    L.append("")

    # ------------------------------------------------------------ _set_limits
    sl = _method(cn, "_set_limits")
    if sl is None or [x.arg for x in sl.args.args] != ["self", "data"]:
        raise TranslateError("CustomNormalization._set_limits signature outside the grammar")
    body = [s for s in _strip_doc(sl.body)
            if not (isinstance(s, ast.Return) and (s.value is None or (isinstance(s.value, ast.Constant)
                                                                       and s.value.value is None)))]

    def manual_from_self(st):
        """self.interval = ManualInterval(self.vmin, self.vmax) -> (vmin_src, vmax_src) in {'vmin','vmax'}"""
        ok = (isinstance(st, ast.Assign) and len(st.targets) == 1 and _is_self_attr(st.targets[0])
              and st.targets[0].attr == "interval" and isinstance(st.value, ast.Call)
              and isinstance(st.value.func, ast.Name) and st.value.func.id == "ManualInterval")
        if not ok:
            _fail(st, "_set_limits: expected `self.interval = ManualInterval(self.vmin, self.vmax)`")

        def value_of(node, ty):
            if _is_self_attr(node) and node.attr in ("vmin", "vmax"):
                return node.attr
            _fail(node, "_set_limits: ManualInterval argument must be self.vmin / self.vmax")

        got = _ctor_args(st.value, itv["ManualInterval"], value_of, "_set_limits: ManualInterval(...)")
        if set(got) != {"vmin", "vmax"}:
            _fail(st, "_set_limits: both limits must be passed")
        return got["vmin"], got["vmax"]

    def pair_assign(st):
        ok = (isinstance(st, ast.Assign) and len(st.targets) == 1 and isinstance(st.targets[0], ast.Tuple)
              and len(st.targets[0].elts) == 2 and all(_is_self_attr(e) for e in st.targets[0].elts))
        if not ok:
            _fail(st, "_set_limits: expected `self.vmin, self.vmax = ...`")
        return [e.attr for e in st.targets[0].elts]

    bool_branch = None
    if body and isinstance(body[0], ast.If):
        b = body[0]
        if "dtype" not in ast.unparse(b.test) or "bool" not in ast.unparse(b.test) or b.orelse:
            _fail(b, "_set_limits: only a boolean-dtype guard is accepted")
        bb = [s for s in b.body if not isinstance(s, ast.Return)]
        if len(bb) != 2 or not isinstance(b.body[-1], ast.Return):
            _fail(b, "_set_limits: boolean-dtype branch outside the grammar")
        names = pair_assign(bb[0])
        if not (isinstance(bb[0].value, ast.Tuple) and len(bb[0].value.elts) == 2):
            _fail(bb[0], "_set_limits: boolean limits must be literals")
        vals = dict(zip(names, [_lit_value(e, "R") for e in bb[0].value.elts]))
        a1, a2 = manual_from_self(bb[1])
        bool_branch = (vals[a1], vals[a2])
        body = body[1:]
    if len(body) != 2:
        raise TranslateError("_set_limits: body outside the accepted grammar")
    names = pair_assign(body[0])
    v = body[0].value
    ok = (isinstance(v, ast.Call) and isinstance(v.func, ast.Attribute) and v.func.attr == "get_limits"
          and _is_self_attr(v.func.value) and v.func.value.attr == "interval" and len(v.args) == 1
          and isinstance(v.args[0], ast.Name) and v.args[0].id == "data" and not v.keywords)
    if not ok or sorted(names) != ["vmax", "vmin"]:
        _fail(body[0], "_set_limits: expected `self.vmin, self.vmax = self.interval.get_limits(data)`")
    a1, a2 = manual_from_self(body[1])
    comp = {names[0]: "(fst lim)", names[1]: "(snd lim)"}
    L.append("Definition CN_set_limits (o : interval_obj) (quantile : R -> R) (dmin dmax : R) : interval_obj :=\n"
             "  let lim := io_get_limits o quantile dmin dmax in\n"
             "  IO_ManualInterval (Some %s) (Some %s)." % (comp[a1], comp[a2]))
    L.append("Definition CN_limits_attr (o : interval_obj) (quantile : R -> R) (dmin dmax : R) : R * R :=\n"
             "  let lim := io_get_limits o quantile dmin dmax in (%s, %s)." % (comp["vmin"], comp["vmax"]))
    if bool_branch is not None:
        L.append("Definition CN_set_limits_bool : interval_obj := IO_ManualInterval (Some %s) (Some %s)." % (
            _num(bool_branch[0]), _num(bool_branch[1])))
    L.append("")

    # ------------------------------------------------------------ presets
    presets = None
    for st in tree.body:
        if (isinstance(st, ast.Assign) and len(st.targets) == 1 and isinstance(st.targets[0], ast.Name)
                and st.targets[0].id == "NORMALIZATION_PRESETS"):
            presets = st.value
    if not isinstance(presets, ast.Dict):
        raise TranslateError("NORMALIZATION_PRESETS must be a dict literal")
    rows = []
    for k, v in zip(presets.keys, presets.values):
        if not (isinstance(k, ast.Constant) and isinstance(k.value, str)):
            _fail(presets, "preset name must be a string literal")
        ok = (isinstance(v, ast.Lambda) and not v.args.args and isinstance(v.body, ast.Call)
              and isinstance(v.body.func, ast.Name) and v.body.func.id == "NormalizationConfig")
        if not ok:
            _fail(v, "preset must be `lambda: NormalizationConfig(<literals>)`")
        got = _ctor_args(v.body, C.fields, _lit_value, "preset %r" % k.value)
        if k.value in C.presets:
            _fail(k, "preset defined twice")
        C.presets[k.value] = got
        items = ["nc_%s := %s" % (n, _coq_value(got.get(n, d), ty)) for n, ty, d in C.fields]
        rows.append("  (%s, {| %s |})" % (_coq_string(k.value), "; ".join(items)))
    L.append("Definition NORMALIZATION_PRESETS : list (string * NormalizationConfig) :=\n  [\n%s\n  ]." % ";\n".join(rows))
    return C


def config_coq_text(C: ConfigTranslation) -> str:
    return "\n".join(C.lines) + "\n"


def translate(src_path: Path, strict_dtype: bool = True) -> Translation:
    return translate_source(Path(src_path).read_text(), str(src_path), strict_dtype)


def coq_text(T: Translation) -> str:
    return "\n".join(T.lines) + "\n"


if __name__ == "__main__":
    import sys
    from .common import SRC
    p = Path(sys.argv[1]) if len(sys.argv) > 1 else SRC / "quantem/core/visualization/custom_normalizations.py"
    t = translate(p)
    print(coq_text(t))
    print("(* stretches: %s\n   pairs: %s\n   CustomNormalization constructs: %s / %s *)" % (
        t.stretches, t.pairs, t.cn_stretches, t.cn_intervals))
